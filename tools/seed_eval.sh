#!/bin/sh
# tools/seed_eval.sh <seed-name> <property-id> [tier]: apply seeded/<seed-name>/patch.diff to /repo, run the check, undo.
set -u
NAME="$1"; PROP="$2"; TIER="${3:-quick}"
cd /verif || exit 2
git -C /repo diff --quiet || { echo "repo dirty"; exit 2; }
git -C /repo apply "/verif/seeded/$NAME/patch.diff" || { echo "patch does not apply"; exit 2; }
timeout 1800 ./check "$PROP" --tier "$TIER" > "/tmp/seed-eval-$NAME.log" 2>&1
RC=$?
git -C /repo checkout -- .
git -C /repo status --short | grep -v '^??' 
echo "seed=$NAME property=$PROP tier=$TIER exit=$RC"
grep -c '^VIOLATION' "/tmp/seed-eval-$NAME.log"
grep '^VIOLATION\|clause=' "/tmp/seed-eval-$NAME.log" | cut -c1-260 | head -8
