"""Regenerate MANIFEST.json from tools/manifest_checks.json (claimed checks) + properties.jsonl (not_applicable list)."""
import json
import os

HERE = os.path.dirname(os.path.dirname(os.path.abspath(__file__)))
props = [json.loads(line) for line in open(os.path.join(HERE, 'properties.jsonl'))]
spec = json.load(open(os.path.join(HERE, 'tools', 'manifest_checks.json')))
checks = []
for c in spec['checks']:
	pid = c['property_id']
	checks.append({
		'property_id': pid,
		'quick_cmd': f'./check {pid} --tier quick',
		'thorough_cmd': f'./check {pid} --tier thorough',
		'evidence_file': f'evidence/{pid}.json',
		'replay_cmd_template': f'./check {pid} --replay {{path}}',
		'engine': 'tlc',
		'level_claimed': {'category': c['category'], 'text': c['text'], 'design_ref': f'DESIGN.md Part A (A.2 row {pid}) and section 5, {pid}'},
		'level_note': c['note'],
		'technique': c['technique'],
	})
claimed = {c['property_id'] for c in checks}
na = spec.get('not_applicable', {})
manifest = {
	'version': 1,
	'setup_cmd': 'true',
	'hooks': {
		'guard': 'TRANP_VERIF',
		'enable': 'no source hooks: all instrumentation is harness-side (recording subclasses / wrappers installed at import time by /verif/harness)',
		'baseline_off_cmd': 'cd /repo && /venv/bin/python -m pytest -ra -q -p no:cacheprovider --timeout=900 --continue-on-collection-errors',
		'source_commits': [],
		'add_only': True,
	},
	'engines': [{'name': 'tlc', 'path': '/opt/veriftools/tla/tla2tools.jar', 'serves_properties': sorted(claimed), 'kind_free_text': 'TLC 1.8 explicit-state model checker: exhaustive exploration, labelled edge stream / enumerated cases for replay into the code, batched trace validation of recorded executions'}],
	'checks': checks,
	'notes': spec.get('notes', ''),
	'not_applicable': [{'property_id': p['id'], 'reason': na.get(p['id'], 'check not built yet in this round (planned, see DESIGN.md section 9); not claimed until its spec is bound to the code')} for p in props if p['id'] not in claimed],
}
json.dump(manifest, open(os.path.join(HERE, 'MANIFEST.json'), 'w'), indent=1)
print('claimed:', sorted(claimed))
