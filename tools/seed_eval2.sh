#!/bin/sh
# tools/seed_eval2.sh <seed-name> <property-id> [tier]
# Like seed_eval.sh, but never touches /repo: the seeded change is applied to a scratch copy of /repo's HEAD and the
# check is pointed at it with TRANP_REPO. Also confirms the seed's own demo (PASS before, FAIL after).
set -u
NAME="$1"; PROP="$2"; TIER="${3:-quick}"
S="/var/tmp/seedrepo-$NAME"
rm -rf "$S"; mkdir -p "$S" || exit 2
git -C /repo archive HEAD | tar -x -C "$S" || exit 2
cd "$S" || exit 2
DEMO="$S/seed_demo.py"
cp "/verif/seeded/$NAME/seed_demo.py" "$DEMO" 2>/dev/null
run_demo() { PYTHONPATH="$S:/venv/lib/python3.12/site-packages" timeout 900 /root/.pyenv/versions/3.13.0/bin/python "$DEMO" 2>&1 | grep -E 'PASS|FAIL' | tail -1 | cut -c1-80; }
[ -f "$DEMO" ] && echo "demo before: $(run_demo)"
patch -p1 -s < "/verif/seeded/$NAME/patch.diff" || { echo "patch does not apply"; exit 2; }
[ -f "$DEMO" ] && echo "demo after:  $(run_demo)"
cd /verif || exit 2
TRANP_REPO="$S" timeout 3000 ./check "$PROP" --tier "$TIER" > "/var/tmp/seed-eval-$NAME.log" 2>&1
RC=$?
rm -rf "$S"
echo "seed=$NAME property=$PROP tier=$TIER exit=$RC"
grep '^VIOLATION\|clause=\|^MACHINERY' "/var/tmp/seed-eval-$NAME.log" | cut -c1-300 | head -6
