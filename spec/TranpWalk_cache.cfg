CONSTANTS
  Mods <- ChainMods
  Imports <- ChainImports
  Targets <- ChainTargets
  Variants <- V124
  BodyOf <- Body124
  MaxOps = 14
  NWalks = 12
  MaxT = 2
  AstHash = TRUE
  MaxTorn = 1
  TransitiveKey = FALSE
  DeepHeader = FALSE
  StoreGated = TRUE
  WithCache = TRUE
  WithOutputs = FALSE
INIT WInit
NEXT WNext
VIEW WView
CONSTRAINT Bounded
ACTION_CONSTRAINT WEmit
CHECK_DEADLOCK FALSE
