----------------------------- MODULE TokBlocks -----------------------------
(***************************************************************************)
(* C13, statement ends and block markers: how line breaks become NEWLINE,  *)
(* INDENT and DEDENT.                                                      *)
(*                                                                         *)
(* The tokenizer as a transition system, shaped like Tokenizer._rebuild /  *)
(* handle_white_space / handle_symbol (tokenizer.py) working on the token  *)
(* list the lexer and its post filters leave: between two lines that carry *)
(* code there is ONE line-break token whose width is the indentation of    *)
(* the later line (blank lines, blanks on them and comment lines are gone),*)
(* the context holds the nesting depth, the bracket depth and the indent   *)
(* unit (the first non-zero width seen outside brackets); a wider line     *)
(* gives one INDENT, a narrower one as many DEDENTs as units are given     *)
(* back; inside brackets line breaks vanish; the end of the text closes    *)
(* the statement and every open block.                                     *)
(*                                                                         *)
(* Against it Python's rule as a function (Ref): a stack of widths; a      *)
(* wider line pushes (INDENT), a narrower one pops until its width is on   *)
(* top (one DEDENT each) and is an error if it never is.                   *)
(*                                                                         *)
(* BlocksAgree: for every supported program the two agree.  Supported =    *)
(* Python has no error and the widths are consistent: every INDENT adds    *)
(* exactly the first indent (C13: "any consistent space width").  The      *)
(* pinned configuration drops the consistency condition and must fail      *)
(* (two units at once give one INDENT and, later, two DEDENTs).            *)
(***************************************************************************)
EXTENDS Integers, Sequences, FiniteSets, TLC, Json

CONSTANTS MaxLines,
          Consistent      \* TRUE: the property's quantifier; FALSE: pinned (any widths Python accepts)

Widths == {0, 2, 4, 6}
Kinds == {"code", "open", "close", "inner", "comment", "blank"}
\* code: a statement; open: a statement that opens a bracket and goes on; inner: a line inside the bracket;
\* close: the line that closes it; comment / blank: a line of their own (blank = blanks only)
Line(w, k) == [w |-> w, k |-> k]

VARIABLES prog,     \* the lines
          bdepth,   \* while the program is being written: bracket depth after the last line; -1 once it is complete
          toks,     \* the token list the lexer and its post filters leave: <<"lb", width>>, <<"x", lexeme>>
          i,        \* next token to rebuild
          ctx,      \* [nest, enclosure, unit]
          out       \* tokens after rebuilding
vars == <<prog, bdepth, toks, i, ctx, out>>

\* ---- programs: bracket-balanced, first line at width 0 carrying code
RECURSIVE Balanced(_, _, _)
Balanced(p, k, depth) ==
  IF k > Len(p) THEN depth = 0
  ELSE LET l == p[k] IN
    CASE l.k = "open" -> depth = 0 /\ Balanced(p, k + 1, 1)
      [] l.k = "inner" -> depth = 1 /\ Balanced(p, k + 1, 1)
      [] l.k = "close" -> depth = 1 /\ Balanced(p, k + 1, 0)
      [] l.k = "code" -> depth = 0 /\ Balanced(p, k + 1, 0)
      [] OTHER -> Balanced(p, k + 1, depth)
\* built line by line with the bracket depth carried along: <<lines, depth>>
KindsAt(depth) == IF depth = 0 THEN {"code", "open", "comment", "blank"} ELSE {"inner", "close", "comment", "blank"}
DepthAfter(depth, k) == IF k = "open" THEN 1 ELSE IF k = "close" THEN 0 ELSE depth
\* ---- lexemes of a line
Lex(l) == CASE l.k = "code" -> <<<<"name", "x">>, <<"op", "=">>, <<"number", "1">>>>
            [] l.k = "open" -> <<<<"name", "a">>, <<"op", "=">>, <<"op", "[">>, <<"number", "1">>, <<"op", ",">>>>
            [] l.k = "inner" -> <<<<"number", "3">>, <<"op", ",">>>>
            [] l.k = "close" -> <<<<"number", "2">>, <<"op", "]">>>>
            [] OTHER -> <<>>
Carries(l) == l.k \in {"code", "open", "inner", "close"}

\* ---- what the lexer and the post filters hand over: the lexemes of the lines that carry code, separated by one
\* line break each (width = indentation of the later line); leading and trailing breaks are filtered away
RECURSIVE TokList(_, _, _)
TokList(p, k, first) ==
  IF k > Len(p) THEN <<>>
  ELSE IF ~Carries(p[k]) THEN TokList(p, k + 1, first)
  ELSE (IF first THEN <<>> ELSE <<<<"lb", p[k].w>>>>) \o [j \in DOMAIN Lex(p[k]) |-> <<"x", Lex(p[k])[j]>>] \o TokList(p, k + 1, FALSE)

\* ---- writing the program: line by line, bracket-balanced by construction (first line at width 0 carrying code)
Init == /\ \E k \in {"code", "open"} : prog = <<Line(0, k)>> /\ bdepth = DepthAfter(0, k)
        /\ toks = <<>> /\ i = 0 /\ ctx = [nest |-> 0, enclosure |-> 0, unit |-> 0] /\ out = <<>>
AddLine(w, k) ==
  /\ bdepth >= 0 /\ Len(prog) < MaxLines /\ k \in KindsAt(bdepth)
  /\ prog' = Append(prog, Line(w, k)) /\ bdepth' = DepthAfter(bdepth, k)
  /\ UNCHANGED <<toks, i, ctx, out>>
\* the program is complete (no bracket open): the lexer and its post filters run
Lexed ==
  /\ bdepth = 0
  /\ bdepth' = -1 /\ toks' = TokList(prog, 1, TRUE) /\ i' = 1
  /\ UNCHANGED <<prog, ctx, out>>

NL == <<"newline", "">>
IND == <<"indent", "">>
DED == <<"dedent", "">>
RECURSIVE Rep(_, _)
Rep(x, n) == IF n <= 0 THEN <<>> ELSE <<x>> \o Rep(x, n - 1)

\* Context.to_nest: the first width seen becomes the unit; int(spaces / unit)
UnitAfter(w) == IF w = 0 \/ ctx.unit # 0 THEN ctx.unit ELSE w
NestOf(w) == IF w = 0 THEN 0 ELSE w \div UnitAfter(w)

\* handle_white_space on a line break
RebuildBreak ==
  /\ bdepth = -1 /\ i <= Len(toks) /\ toks[i][1] = "lb"
  /\ IF ctx.enclosure > 0 THEN UNCHANGED <<ctx, out>>
     ELSE LET w == toks[i][2]
              n == NestOf(w) IN
          /\ ctx' = [ctx EXCEPT !.nest = n, !.unit = UnitAfter(w)]
          /\ out' = out \o (IF ctx.nest < n THEN <<NL, IND>> ELSE IF ctx.nest > n THEN <<NL>> \o Rep(DED, ctx.nest - n) ELSE <<NL>>)
  /\ i' = i + 1 /\ UNCHANGED <<prog, bdepth, toks>>

\* handle_symbol on brackets, everything else passes
RebuildLexeme ==
  /\ bdepth = -1 /\ i <= Len(toks) /\ toks[i][1] = "x"
  /\ LET x == toks[i][2] IN
       /\ ctx' = [ctx EXCEPT !.enclosure = IF x = <<"op", "[">> THEN @ + 1 ELSE IF x = <<"op", "]">> THEN @ - 1 ELSE @]
       /\ out' = Append(out, x)
  /\ i' = i + 1 /\ UNCHANGED <<prog, bdepth, toks>>

\* the end of the text: the statement ends, every open block closes
RebuildEOF ==
  /\ bdepth = -1 /\ i = Len(toks) + 1
  /\ out' = out \o <<NL>> \o Rep(DED, ctx.nest)
  /\ ctx' = [ctx EXCEPT !.nest = 0]
  /\ i' = i + 1 /\ UNCHANGED <<prog, bdepth, toks>>

Next == (\E w \in Widths, k \in Kinds : AddLine(w, k)) \/ Lexed \/ RebuildBreak \/ RebuildLexeme \/ RebuildEOF
Done == bdepth = -1 /\ i = Len(toks) + 2

-----------------------------------------------------------------------------
(* Python's rule *)
\* state: stack of widths (top first), bracket depth, whether a statement is open (needs its NEWLINE)
RECURSIVE Pops(_, _)
Pops(stack, w) == IF Head(stack) > w THEN 1 + Pops(Tail(stack), w) ELSE 0
RECURSIVE Drop(_, _)
Drop(s, n) == IF n = 0 THEN s ELSE Drop(Tail(s), n - 1)
RECURSIVE Ref(_, _, _, _)
Ref(p, k, stack, depth) ==
  IF k > Len(p) THEN Rep(DED, Len(stack) - 1)
  ELSE LET l == p[k] IN
    IF ~Carries(l) THEN Ref(p, k + 1, stack, depth)
    ELSE IF depth > 0 THEN
      \* inside a bracket: no layout tokens; the closing line ends the statement
      [j \in DOMAIN Lex(l) |-> Lex(l)[j]] \o (IF l.k = "close" THEN <<NL>> ELSE <<>>) \o Ref(p, k + 1, stack, IF l.k = "close" THEN 0 ELSE 1)
    ELSE
      LET top == Head(stack)
          moves == IF l.w > top THEN <<IND>> ELSE Rep(DED, Pops(stack, l.w))
          stack2 == IF l.w > top THEN <<l.w>> \o stack ELSE Drop(stack, Pops(stack, l.w))
      IN IF Head(stack2) # l.w THEN <<<<"error", "">>>>
         ELSE moves \o [j \in DOMAIN Lex(l) |-> Lex(l)[j]] \o (IF l.k = "code" THEN <<NL>> ELSE <<>>)
              \o Ref(p, k + 1, stack2, IF l.k = "open" THEN 1 ELSE 0)
PyToks(p) == Ref(p, 1, <<0>>, 0)

\* widths of the lines that start a statement, in order
RECURSIVE StmtWidths(_, _, _)
StmtWidths(p, k, depth) ==
  IF k > Len(p) THEN <<>>
  ELSE LET l == p[k] IN
    IF ~Carries(l) THEN StmtWidths(p, k + 1, depth)
    ELSE (IF depth = 0 THEN <<l.w>> ELSE <<>>) \o StmtWidths(p, k + 1, IF l.k = "open" THEN 1 ELSE IF l.k = "close" THEN 0 ELSE depth)
\* consistent: every statement width is a multiple of the first non-zero one, and a statement is at most one unit
\* deeper than the statement before it
ConsistentWidths(p) ==
  LET ws == StmtWidths(p, 1, 0)
      nz == {j \in DOMAIN ws : ws[j] # 0} IN
  nz = {} \/ LET u == ws[CHOOSE j \in nz : \A j2 \in nz : j <= j2] IN
             /\ \A j \in DOMAIN ws : ws[j] % u = 0
             /\ \A j \in 2..Len(ws) : ws[j] <= ws[j - 1] + u
Supported(p) == <<"error", "">> \notin {PyToks(p)[j] : j \in DOMAIN PyToks(p)} /\ (Consistent => ConsistentWidths(p))

BlocksAgree == Done /\ Supported(prog) => out = PyToks(prog)
\* indents and dedents balance at the end of every supported program
RECURSIVE Count(_, _)
Count(s, x) == IF s = <<>> THEN 0 ELSE (IF Head(s) = x THEN 1 ELSE 0) + Count(Tail(s), x)
IndentsBalance == Done /\ Supported(prog) => Count(out, IND) = Count(out, DED)
Progress == [][i' = i + 1 \/ Len(prog') = Len(prog) + 1]_vars

\* ---- concrete text of a program
RECURSIVE Spaces(_)
Spaces(n) == IF n = 0 THEN "" ELSE " " \o Spaces(n - 1)
LineText(l) == Spaces(l.w) \o (CASE l.k = "code" -> "x = 1" [] l.k = "open" -> "a = [1," [] l.k = "inner" -> "3," [] l.k = "close" -> "2]"
                                 [] l.k = "comment" -> "# c" [] OTHER -> "")
RECURSIVE Text(_, _)
Text(p, k) == IF k > Len(p) THEN "" ELSE LineText(p[k]) \o "\n" \o Text(p, k + 1)
Tok(x) == [c |-> x[1], s |-> x[2]]
Case == [text |-> Text(prog, 1), toks |-> [j \in DOMAIN out |-> Tok(out[j])], ref |-> [j \in DOMAIN PyToks(prog) |-> Tok(PyToks(prog)[j])],
         supported |-> Supported(prog)]
EmitCase == Done => PrintT("CASE " \o ToJson(Case))
=============================================================================
