----------------------------- MODULE PyStmtEmit -----------------------------
EXTENDS PyStmt
ASSUME OneStatementPerLine
ASSUME Emit
ASSUME EmitDefs
ASSUME PrintT("UNIVERSE " \o ToString(Cardinality(Stmts)))
=============================================================================
