----------------------------- MODULE PyStmtEmit -----------------------------
EXTENDS PyStmt
ASSUME OneStatementPerLine
ASSUME Emit
ASSUME EmitDefs
ASSUME EmitSlots
ASSUME PrintT("UNIVERSE " \o ToString(Cardinality(Stmts)))
=============================================================================
