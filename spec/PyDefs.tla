------------------------------- MODULE PyDefs -------------------------------
(***************************************************************************)
(* Source model, definition layer: every nesting of class and function     *)
(* definitions up to a depth, with the classification Python's semantics   *)
(* dictates for each definition:                                           *)
(*   a def directly in a class body is a method of that class - the        *)
(*   constructor when it is named __init__, a class method under           *)
(*   @classmethod; a def in a function body is a closure whatever its      *)
(*   name and however many classes lie further out; a def at module level  *)
(*   is a function.                                                        *)
(* A nesting is a sequence of containers (C = class, F = def) from the     *)
(* module to the innermost definition.                                     *)
(***************************************************************************)
EXTENDS Integers, Sequences, FiniteSets, TLC, Json

CONSTANTS MaxDepth

\* "B" = a compound statement that opens no scope (an `if` block): what it holds belongs to what encloses the block
Kinds == {"C", "F", "B"}
Paths == UNION {[1..n -> Kinds] : n \in 1..MaxDepth}
\* the container whose scope position i stands in: the nearest one above that is not a mere block ("M" = the module)
RECURSIVE Encl(_, _)
Encl(p, i) == IF i = 1 THEN "M" ELSE IF p[i - 1] # "B" THEN p[i - 1] ELSE Encl(p, i - 1)
\* spelling choices of the defs: the innermost def and the def that directly encloses it
InnerNames == {"__init__", "g"}
OuterNames == {"m", "__init__"}
\* (a static method takes no self: it is a member of the class all the same, whatever encloses the class)
Decos == {"", "classmethod", "staticmethod"}

RECURSIVE Tabs(_)
Tabs(n) == IF n = 0 THEN "" ELSE "\t" \o Tabs(n - 1)

\* classification of the definition at position i of path p
KindOf(p, i, name, deco) ==
  IF p[i] = "C" THEN "Class"
  ELSE IF p[i] = "B" THEN "Block"
  ELSE IF Encl(p, i) = "M" THEN "Function"
  ELSE IF Encl(p, i) = "C" THEN (IF deco = "classmethod" THEN "ClassMethod" ELSE IF deco = "staticmethod" THEN "Function"
                               ELSE IF name = "__init__" THEN "Constructor" ELSE "Method")
  ELSE "Closure"

\* the name of the definition at position i: the innermost def takes `inner`, the def right above it `outer`
NameAt(p, i, inner, outer) ==
  IF p[i] = "C" THEN "K" \o ToString(i)
  ELSE IF i = Len(p) THEN inner
  ELSE IF i = Len(p) - 1 THEN outer
  ELSE "f" \o ToString(i)
DecoAt(p, i, deco) == IF i = Len(p) /\ p[i] = "F" /\ Encl(p, i) = "C" THEN deco ELSE ""

\* a def directly in a class takes self (cls under @classmethod); other defs take one int parameter
HeadLine(p, i, name, deco) ==
  IF p[i] = "C" THEN "class " \o name \o ":"
  ELSE IF p[i] = "B" THEN "if True:"
  ELSE LET inclass == Encl(p, i) = "C"
           params == IF inclass /\ deco # "staticmethod" THEN (IF deco = "classmethod" THEN "cls" ELSE "self") ELSE "a" \o ToString(i) \o ": int"
           ret == IF name = "__init__" /\ inclass /\ deco = "" THEN "None" ELSE "int"
       IN "def " \o name \o "(" \o params \o ") -> " \o ret \o ":"
BodyLine(p, i, name, deco) ==
  IF p[i] = "C" THEN "n" \o ToString(i) \o ": int"
  ELSE IF p[i] = "B" THEN "pass"
  ELSE IF name = "__init__" /\ Encl(p, i) = "C" /\ deco = "" THEN "..." ELSE "return 1"

RECURSIVE Text(_, _, _, _, _)
Text(p, i, inner, outer, deco) ==
  IF i > Len(p) THEN ""
  ELSE LET name == NameAt(p, i, inner, outer)  d == DecoAt(p, i, deco) IN
       (IF d # "" THEN Tabs(i - 1) \o "@" \o d \o "\n" ELSE "")
       \o Tabs(i - 1) \o HeadLine(p, i, name, d) \o "\n"
       \o Text(p, i + 1, inner, outer, deco)
       \o Tabs(i) \o BodyLine(p, i, name, d) \o "\n"

\* line number (1-based) of the head line of the definition at position i
RECURSIVE LineOf(_, _, _)
LineOf(p, i, deco) == IF i = 1 THEN (IF DecoAt(p, 1, deco) # "" THEN 2 ELSE 1)
                      ELSE LineOf(p, i - 1, deco) + 1 + (IF DecoAt(p, i, deco) # "" THEN 1 ELSE 0)

Cases == {[p |-> p, inner |-> inner, outer |-> outer, deco |-> deco] :
            p \in {q \in Paths : q[Len(q)] = "F"}, inner \in InnerNames, outer \in OuterNames, deco \in Decos}
\* spelling variants that change nothing are dropped: a decorator only exists on a def directly in a class; `outer` only when the def above is a def
Relevant(c) == /\ (c.deco = "" \/ Encl(c.p, Len(c.p)) = "C")
               /\ Cardinality({i \in DOMAIN c.p : c.p[i] = "B"}) <= 1
               /\ ~(c.deco = "staticmethod" /\ c.inner = "__init__")      \* a static __init__ means nothing in particular
               /\ (c.outer = "m" \/ (Len(c.p) > 1 /\ c.p[Len(c.p) - 1] = "F"))
ExpectAll(c) == [i \in DOMAIN c.p |-> [line |-> LineOf(c.p, i, c.deco), name |-> NameAt(c.p, i, c.inner, c.outer),
                                     kind |-> KindOf(c.p, i, NameAt(c.p, i, c.inner, c.outer), DecoAt(c.p, i, c.deco))]]

Expect(c) == SelectSeq(ExpectAll(c), LAMBDA e : e.kind # "Block")

\* the name of a def never decides whether it is a closure: only what directly encloses it
ClosureByPositionOnly == \A c \in Cases : \A i \in DOMAIN c.p :
   (c.p[i] = "F" /\ i > 1 /\ c.p[i - 1] = "F") => KindOf(c.p, i, NameAt(c.p, i, c.inner, c.outer), DecoAt(c.p, i, c.deco)) = "Closure"
\* a constructor always stands in the scope of a class body
ConstructorDirectlyInClass == \A c \in Cases : \A i \in DOMAIN c.p :
   KindOf(c.p, i, NameAt(c.p, i, c.inner, c.outer), DecoAt(c.p, i, c.deco)) = "Constructor" => Encl(c.p, i) = "C"

\* ---- ordered lists: wherever the grammar has a list (stacked decorators, decorator arguments, base classes, elif
\* clauses, with items, parameters), the node tree lists the items in the order of the text.  Every permutation of
\* three distinguishable items per construct.
Items == <<"k1", "k2", "k3">>
Perms3 == {p \in [1..3 -> 1..3] : \A i, j \in 1..3 : i # j => p[i] # p[j]}
Constructs == {"decorators-def", "decorators-class", "decorator-args", "bases", "elifs", "with-items", "params", "call-args", "dict-items"}
ListText(c, p) ==
  LET a == Items[p[1]]  b == Items[p[2]]  d == Items[p[3]] IN
  CASE c = "decorators-def" -> "@" \o a \o "\n@" \o b \o "(1)\n@" \o d \o "\ndef f() -> int:\n\treturn 1\n"
    [] c = "decorators-class" -> "@" \o a \o "\n@" \o b \o "(1)\n@" \o d \o "\nclass K:\n\tn: int\n"
    [] c = "decorator-args" -> "@deco(" \o a \o ", " \o b \o ", " \o d \o ")\ndef f() -> int:\n\treturn 1\n"
    [] c = "bases" -> "class K(" \o a \o ", " \o b \o ", " \o d \o "):\n\tn: int\n"
    [] c = "elifs" -> "def f(k1: int, k2: int, k3: int) -> int:\n\tif k1 + k2 + k3 > 9:\n\t\treturn 0\n\telif " \o a \o " > 0:\n\t\treturn 1\n\telif " \o b \o " > 0:\n\t\treturn 2\n\telif " \o d \o " > 0:\n\t\treturn 3\n\treturn 4\n"
    [] c = "with-items" -> "def f() -> int:\n\twith " \o a \o "() as w1, " \o b \o "() as w2, " \o d \o "() as w3:\n\t\treturn 1\n"
    [] c = "params" -> "def f(" \o a \o ": int, " \o b \o ": int = 1, " \o d \o ": int = 2) -> int:\n\treturn 1\n"
    [] c = "call-args" -> "def f(k1: int, k2: int, k3: int) -> int:\n\treturn g(" \o a \o ", " \o b \o ", " \o d \o ")\n"
    [] c = "dict-items" -> "def f(k1: int, k2: int, k3: int) -> dict[str, int]:\n\treturn {'" \o a \o "': k1, '" \o b \o "': k2, '" \o d \o "': k3}\n"
EmitLists == \A c \in Constructs : \A p \in Perms3 : PrintT("LIST " \o ToJson([construct |-> c, text |-> ListText(c, p), order |-> [i \in 1..3 |-> Items[p[i]]]]))

Emit == \A c \in {x \in Cases : Relevant(x)} : PrintT("NEST " \o ToJson([path |-> c.p, text |-> Text(c.p, 1, c.inner, c.outer, c.deco), expect |-> Expect(c)]))
=============================================================================
