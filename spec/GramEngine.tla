----------------------------- MODULE GramEngine -----------------------------
(***************************************************************************)
(* The matching engine of tranp's own parser                               *)
(* (rogw/tranp/implements/syntax/tranp/syntax.py: SyntaxParser).           *)
(*                                                                         *)
(* A rule set maps a symbol to [unwrap, m] with m a pattern structure      *)
(* (MetaGram: Pat / Grp).  The engine matches FROM THE LAST TOKEN          *)
(* BACKWARDS: a cursor counts consumed tokens from the end, a sequence     *)
(* group tries its entries in reverse, an alternative group takes the      *)
(* first entry that matches (ordered choice, no reconsideration), a        *)
(* repetition takes as many rounds as match (greedy, no giving back).      *)
(* One operator per method of the class:                                   *)
(*   MSym    = _match_symbol   (+ _unwrap_children)                        *)
(*   MEntry  = _match_entry                                                *)
(*   MOr     = _match_or                                                   *)
(*   MAnd    = _match_and                                                  *)
(*   MRep    = _match_repeat                                               *)
(*   MTerm   = _match_terminal / _compare_token                            *)
(*   ParseS  = parse                                                       *)
(* A result is [ok, steps, kids, spin]; `spin` records that a repetition   *)
(* round matched without consuming while tokens remained - the loop of     *)
(* _match_repeat then never ends (the real engine does not return).        *)
(*                                                                         *)
(* Trees: <<"tok", name, word>> for a token, <<"tree", name, <<kids>>>>     *)
(* for a tree, <<"tok", "__empty__", "">> for the placeholder of an        *)
(* unmatched [ ] group.                                                    *)
(***************************************************************************)
EXTENDS MetaGram, SequencesExt, GramEngineCore

CONSTANTS MaxLen                \* sentences have at most MaxLen words

\* ---- the word alphabet and what the terminals of the generated grammars match
\* "qk" begins like a match of /q+/ but is none; "p", "k" are string terminals (keywords) of the generated grammars
Words == {"p", "q", "qq", "k", "r", "rr", "qk"}
RegexLang(e) == CASE e = "q+" -> {"q", "qq"} [] e = "r+" -> {"r", "rr"} [] OTHER -> {}
SmallRegexMatch(e, w) == w \in RegexLang(e)
Sentences == UNION {[1..n -> Words] : n \in 0..MaxLen}

\* ---- rule sets: the generated right-hand side under symbol s, in the frame used by the replay
\*        entry := s "\n"      s<u> := <rhs>      a := "p"      b := /q+/
RuleSet(m, u) == [entry |-> [unwrap |-> "off", m |-> Grp("And", "off", <<Pat("Symbol", "NoComp", "s"), Pat("Terminal", "Equals", "\n")>>)],
                  s     |-> [unwrap |-> u, m |-> m],
                  a     |-> [unwrap |-> "off", m |-> Pat("Terminal", "Equals", "p")],
                  b     |-> [unwrap |-> "off", m |-> Pat("Terminal", "Regexp", "q+")]]

\* parse: the whole token list must be consumed; the tokenizer appends the line-break token
Toks(sentence) == sentence \o <<"\n">>
ParseS(rules, sentence) ==
  LET ts == Toks(sentence)  X == MSym(rules, ts, 0, "entry") IN
  IF X.spin THEN [v |-> "spin"]
  ELSE IF X.ok /\ X.steps = Len(ts) THEN [v |-> "accept", tree |-> X.kids[1]]
  ELSE [v |-> "reject"]

\* ---- the language of a right-hand side (denotational; words only, up to MaxLen), for the soundness law
RECURSIVE Lang(_, _)
Cat(A, B) == {x \o y : x \in A, y \in B}
RECURSIVE CatAll(_, _), Star(_, _, _)
CatAll(Ls, i) == IF i > Len(Ls) THEN {<<>>} ELSE Cat(Ls[i], CatAll(Ls, i + 1))
Short(S) == {x \in S : Len(x) <= MaxLen}
Star(A, acc, n) == IF n = 0 THEN acc ELSE LET nxt == acc \cup Short(Cat(acc, A)) IN IF nxt = acc THEN acc ELSE Star(A, nxt, n - 1)
Lang(rules, m) ==
  IF m.t = "pat"
  THEN (IF m.role = "Symbol" THEN Lang(rules, rules[m.e].m)
        ELSE IF m.comp = "Equals" THEN {<<m.e>>}
        ELSE {<<w>> : w \in RegexLang(m.e) \ Keywords(rules)})
  ELSE LET body == IF m.op = "And" THEN Short(CatAll([i \in DOMAIN m.es |-> Lang(rules, m.es[i])], 1))
                   ELSE UNION {Lang(rules, m.es[i]) : i \in DOMAIN m.es}
       IN CASE m.rep = "off" -> body
            [] m.rep \in {"?", "[]"} -> body \cup {<<>>}
            [] m.rep = "*" -> Star(body, {<<>>}, MaxLen + 1)
            [] m.rep = "+" -> Short(Cat(body, Star(body, {<<>>}, MaxLen + 1)))

\* leaves of a tree in order (tokens only; placeholders skipped)
RECURSIVE Yield(_), YieldAll(_)
YieldAll(kids) == IF kids = <<>> THEN <<>> ELSE Yield(Head(kids)) \o YieldAll(Tail(kids))
Yield(t) == IF IsTok(t) THEN (IF t[2] = "__empty__" THEN <<>> ELSE <<t[3]>>) ELSE YieldAll(t[3])
RECURSIVE IsSubseq(_, _)
IsSubseq(a, b) == IF a = <<>> THEN TRUE ELSE IF b = <<>> THEN FALSE
                  ELSE IF Head(a) = Head(b) THEN IsSubseq(Tail(a), Tail(b)) ELSE IsSubseq(a, Tail(b))

Grammars == {M(x) : x \in Exprs}
UnwrapOf == <<"off", "1", "*">>
\* Soundness: whatever the engine accepts is a sentence of the grammar
Sound == \A m \in Grammars : \A s \in Sentences :
           LET R == ParseS(RuleSet(m, "off"), s) IN R.v = "accept" => s \in Lang(RuleSet(m, "off"), m)
\* the leaves of an accepted tree are tokens of the sentence, in order
YieldInOrder == \A m \in Grammars : \A s \in Sentences : \A u \in {"off", "1", "*"} :
           LET R == ParseS(RuleSet(m, u), s) IN R.v = "accept" => IsSubseq(Yield(R.tree), s)
\* the unwrap marker of a rule changes the tree only (never the verdict)
UnwrapKeepsVerdict == \A m \in Grammars : \A s \in Sentences :
           ParseS(RuleSet(m, "1"), s).v = ParseS(RuleSet(m, "off"), s).v /\ ParseS(RuleSet(m, "*"), s).v = ParseS(RuleSet(m, "off"), s).v
\* the engine is not complete: sentences of the language it rejects (ordered choice and greedy repetition never reconsider)
IncompleteWitnesses == {[g |-> Src(x), s |-> s] : <<x, s>> \in {<<y, t>> \in Exprs \X Sentences :
                           ParseS(RuleSet(M(y), "off"), t).v = "reject" /\ t \in Lang(RuleSet(M(y), "off"), M(y))}}
\* the engine does not return exactly when a repetition round matches without consuming while tokens remain
SpinWitnesses == {[g |-> Src(x), s |-> s] : <<x, s>> \in {<<y, t>> \in Exprs \X Sentences : ParseS(RuleSet(M(y), "off"), t).v = "spin"}}

SentSeq == SetToSeq(Sentences)
ResultOf(m, u, s, L) == LET R == ParseS(RuleSet(m, u), s) IN [s |-> s, v |-> R.v, tree |-> IF R.v = "accept" THEN R.tree ELSE <<>>, inlang |-> s \in L]
EmitEngine == \A x \in Exprs : LET L == Lang(RuleSet(M(x), "off"), M(x)) IN \A ui \in 1..3 :
   PrintT("ENGINE " \o ToJson([src |-> Src(x), unwrap |-> UnwrapOf[ui], model |-> M(x),
                               results |-> [i \in DOMAIN SentSeq |-> ResultOf(M(x), UnwrapOf[ui], SentSeq[i], L)]]))
=============================================================================
