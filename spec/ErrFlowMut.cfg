CONSTANTS
  NPrograms = 6
  NPositions = 40
