CONSTANTS
  Wrapped <- WrappedAtPinnedCommit
INIT Init
NEXT Next
INVARIANT EscapesAreApp
PROPERTY RenderTotal
PROPERTY LoopSurvives
PROPERTY ParseErrorsAreApp
CHECK_DEADLOCK FALSE
