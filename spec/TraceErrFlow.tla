---------------------------- MODULE TraceErrFlow ----------------------------
(* Trace validation for ErrFlow.tla: one record per input run through the real pipeline:                *)
(*   [mode, stage, raised, escaped, render, reported]   stage = where the root-cause exception was raised ("done"  *)
(*   when nothing was raised), raised / escaped in {"App", "Foreign", "none"}, render in {"text","fail","none"} *)
(* Each record must be a behaviour of ErrFlow (with the wrapper table AS CODED); the C07 clauses are    *)
(* evaluated on it by TLC: records violating them are printed, not rejected - a rejection means the     *)
(* wrapper table of the spec no longer describes the code.                                               *)
EXTENDS MCErrFlow, IOUtils, TLCExt

Records == JsonDeserialize(IOEnv.TRACE_FILE)
NR == Len(Records)
VARIABLE tid
tvars == <<mode, at, raised, escaped, rendered, op, reported, tid>>

IndexOfStage(s) == IF s = "done" THEN Len(Stages) + 1 ELSE CHOOSE i \in 1..Len(Stages) : Stages[i] = s
R == Records[tid]

ASSUME \A t \in 1..NR : TLCSet(t, FALSE)
ASSUME TLCSet(NR + 1, 0)

TInit == /\ tid \in 1..NR /\ mode = Records[tid].mode /\ at = 1 /\ raised = "none" /\ escaped = "none" /\ rendered = "none" /\ reported = "none"
         /\ op = [name |-> "init"]
TPass == at < IndexOfStage(R.stage) /\ Pass /\ tid' = tid
TRaise == at = IndexOfStage(R.stage) /\ R.raised # "none" /\ Raise(R.raised) /\ escaped' = R.escaped
          /\ (R.stage = "parse" => reported' = R.reported)        \* the class the user saw for a failure of the parse stage
          /\ tid' = tid
TRender == R.render = "text" /\ Render /\ tid' = tid
TNext == TPass \/ TRaise \/ TRender

Done == \/ (R.stage = "done" /\ at = Len(Stages) + 1)
        \/ (escaped # "none" /\ (rendered = "text" \/ R.render # "text"))
Mark == Done => TLCSet(tid, TRUE)
Rejected == {t \in 1..NR : TLCGet(t) # TRUE}
Post == IF Rejected = {} THEN PrintT("TRACES-ACCEPTED " \o ToString(NR))
        ELSE PrintT("TRACES-REJECTED " \o ToString(Rejected)) /\ FALSE
=============================================================================
