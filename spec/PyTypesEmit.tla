---------------------------- MODULE PyTypesEmit ----------------------------
EXTENDS PyTypes
ASSUME Total
ASSUME Emit
ASSUME PrintT("UNIVERSE " \o ToString(Cardinality(Universe)))
=============================================================================
