CONSTANTS
  MaxRun = 2
  Lookup = "single"
INIT Init
NEXT Next
INVARIANT MunchAgrees
CHECK_DEADLOCK FALSE
