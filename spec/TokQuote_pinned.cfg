CONSTANTS
  MaxBody = 3
  EscapedSkip = "close"
INIT Init
NEXT Next
INVARIANT QuoteAgrees
CHECK_DEADLOCK FALSE
