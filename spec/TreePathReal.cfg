CONSTANTS
  MaxN = 1000000
  MaxKids = 1000000
  MaxQ = 0
INIT RInit
NEXT RNext
INVARIANT Check
POSTCONDITION Post
CHECK_DEADLOCK FALSE
