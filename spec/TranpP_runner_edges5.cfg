CONSTANTS
  Mods <- PairMods
  Imports <- PairImports
  Targets <- PairTargets
  Variants <- V125
  BodyOf <- Body125
  MaxOps = 5
  MaxT = 0
  AstHash = TRUE
  MaxTorn = 0
  TransitiveKey = FALSE
  DeepHeader = FALSE
  StoreGated = TRUE
  WithCache = FALSE
  WithOutputs = TRUE
INIT Init
NEXT Next
VIEW View
CONSTRAINT Bounded
ACTION_CONSTRAINT Emit
CHECK_DEADLOCK FALSE
