CONSTANTS
  QuoteFix = TRUE
  MaxSteps = 5
INIT Init
NEXT Next
INVARIANT LawRejoin
INVARIANT LawPiecesBalanced
INVARIANT LawGeneratedBalanced
CHECK_DEADLOCK FALSE
