CONSTANTS
  QuoteFix = TRUE
  MaxSteps = 5
INIT Init
NEXT Next
INVARIANT LawRejoin
INVARIANT LawPiecesBalanced
INVARIANT LawGeneratedBalanced
INVARIANT LawLevelsAgree
CHECK_DEADLOCK FALSE
