----------------------------- MODULE TokMunch -----------------------------
(***************************************************************************)
(* C13, the lexer proper: how a run of adjacent characters is cut into     *)
(* tokens.                                                                 *)
(*                                                                         *)
(* Two descriptions of the same thing:                                     *)
(*  - the lexer as a transition system, shaped like                        *)
(*    rogw/tranp/implements/syntax/tranp/tokenizer.py: one action per      *)
(*    token domain, the domain chosen by the first character in the fixed  *)
(*    analyse order (white space, symbol, number, identifier), a symbol    *)
(*    looked up three characters first, then two, then one;                *)
(*  - Python's rule, written as a function: at every position the longest  *)
(*    operator of Python's table (maximal munch).                          *)
(* MunchAgrees: when the lexer has consumed a supported text, its tokens   *)
(* are Python's.  "Supported" is defined on the text and Python's tokens   *)
(* alone (see Supported), never on what the lexer model does.              *)
(*                                                                         *)
(* Initial states: every text  a <glue> run <glue> operand "\n"  with run  *)
(* up to MaxRun symbol characters and one optional blank inside the run.   *)
(* The harness feeds every text to the real Tokenizer and to CPython's     *)
(* tokenize; spec # CPython on a supported text is a machinery error.      *)
(***************************************************************************)
EXTENDS Integers, Sequences, FiniteSets, TLC, Json

CONSTANTS MaxRun,        \* longest run of symbol characters
          Lookup         \* "longest" = as coded (3, then 2, then 1 characters); "single" = pinned wrong (vacuity guard)

SymChars == {"@", ".", ",", ":", ";", "=", "-", "+", "*", "/", "%", "&", "|", "^", "~", "!", "<", ">"}
Digits == {"1", "2"}
Idents == {"a", "b", "_"}
Blank == " "
EOL == "\n"

\* tranp's tables (token.py: symbol, combined_symbols), restricted to SymChars
TranpCombined == {<<"-", "=">>, <<"+", "=">>, <<"*", "=">>, <<"/", "=">>, <<"%", "=">>,
                  <<"&", "=">>, <<"|", "=">>, <<"^", "=">>, <<"~", "=">>,
                  <<"=", "=">>, <<"!", "=">>, <<"<", "=">>, <<">", "=">>, <<"&", "&">>, <<"|", "|">>,
                  <<"<", "<">>, <<">", ">">>,
                  <<"-", ">">>, <<"*", "*">>, <<":", "=">>, <<".", ".", ".">>}
\* combined symbols of tranp that are not Python operators: no Python program has these characters adjacent
\* outside a string or comment, so a text containing one is outside C13's quantifier (a named deviation)
TranpOnly == {<<"~", "=">>, <<"&", "&">>, <<"|", "|">>}

\* Python's operator table over the same characters ("!" alone is not an operator)
PyOps == {<<c>> : c \in SymChars \ {"!"}} \cup
         {<<"*", "*">>, <<"/", "/">>, <<"<", "<">>, <<">", ">">>, <<"<", "=">>, <<">", "=">>, <<"=", "=">>, <<"!", "=">>,
          <<"-", ">">>, <<"+", "=">>, <<"-", "=">>, <<"*", "=">>, <<"/", "=">>, <<"%", "=">>, <<"@", "=">>, <<"&", "=">>,
          <<"|", "=">>, <<"^", "=">>, <<":", "=">>, <<"<", ">">>,
          <<"*", "*", "=">>, <<"/", "/", "=">>, <<"<", "<", "=">>, <<">", ">", "=">>, <<".", ".", ".">>}
\* the operators both sides know
Shared == (PyOps \cap ({<<c>> : c \in SymChars} \cup TranpCombined))

VARIABLES text,   \* sequence of characters
          pos,    \* next character to read
          toks    \* tokens so far: [c, s]
vars == <<text, pos, toks>>

RECURSIVE Str(_)
Str(s) == IF s = <<>> THEN "" ELSE Head(s) \o Str(Tail(s))
Sub(s, i, n) == SubSeq(s, i, i + n - 1)

RECURSIVE RunsOf(_)
RunsOf(n) == IF n = 0 THEN {<<>>} ELSE LET R == RunsOf(n - 1) IN R \cup {Append(r, c) : r \in {x \in R : Len(x) = n - 1}, c \in SymChars}
\* the run, optionally with one blank inside
Spaced(r) == {r} \cup {Sub(r, 1, k) \o <<Blank>> \o Sub(r, k + 1, Len(r) - k) : k \in 1..(Len(r) - 1)}
Glue == {<<>>, <<Blank>>}
Brackets == {"(", ")"}
\* a name, a number, a name with a digit, a float, a bracketed name, nothing
Operands == {<<"b">>, <<"1">>, <<"b", "1">>, <<"1", ".", "2">>, <<"(", "b", ")">>, <<>>}
\* the last line of a file may lack its line break
Ends == {<<EOL>>, <<>>}
Texts == {<<"a">> \o g1 \o s \o g2 \o o \o e :
            g1 \in Glue, g2 \in Glue, o \in Operands, e \in Ends, s \in UNION {Spaced(r) : r \in RunsOf(MaxRun) \ {<<>>}}}

Init == text \in Texts /\ pos = 1 /\ toks = <<>>

-----------------------------------------------------------------------------
(* the lexer, one action per token domain *)
At(i) == IF i <= Len(text) THEN text[i] ELSE ""
RECURSIVE SpanWhile(_, _)
\* first position at or after i whose character is not in S
SpanWhile(i, S) == IF i <= Len(text) /\ text[i] \in S THEN SpanWhile(i + 1, S) ELSE i

LexSpace ==
  /\ At(pos) \in {Blank, EOL}
  /\ LET e == SpanWhile(pos, {Blank, EOL}) IN
       /\ pos' = e
       /\ toks' = IF EOL \in {text[i] : i \in pos..(e - 1)} THEN Append(toks, [c |-> "newline", s |-> ""]) ELSE toks
  /\ UNCHANGED text

\* the length of the symbol at pos: three characters first, then two, then one (parse_symbol)
SymLen ==
  IF Lookup = "single" THEN 1
  ELSE IF pos + 2 <= Len(text) /\ Sub(text, pos, 3) \in TranpCombined THEN 3
  ELSE IF pos + 1 <= Len(text) /\ Sub(text, pos, 2) \in TranpCombined THEN 2
  ELSE 1
\* a minus sign directly before anything but white space (or the end of the text) is the unary minus: tranp's
\* right-recursive parser cannot tell the two apart, the lexer does it by looking one character ahead
LexSymbol ==
  /\ At(pos) \in SymChars \cup Brackets
  /\ pos' = pos + SymLen
  /\ toks' = Append(toks, IF SymLen = 1 /\ At(pos) = "-" /\ At(pos + 1) \notin {Blank, EOL, ""}
                          THEN [c |-> "uminus", s |-> "-"]
                          ELSE [c |-> "op", s |-> Str(Sub(text, pos, SymLen))])
  /\ UNCHANGED text

LexNumber ==
  /\ At(pos) \in Digits
  /\ LET e == SpanWhile(pos, Digits \cup {"."}) IN
       pos' = e /\ toks' = Append(toks, [c |-> "number", s |-> Str(Sub(text, pos, e - pos))])
  /\ UNCHANGED text

LexName ==
  /\ At(pos) \in Idents
  /\ LET e == SpanWhile(pos, Idents \cup Digits) IN
       pos' = e /\ toks' = Append(toks, [c |-> "name", s |-> Str(Sub(text, pos, e - pos))])
  /\ UNCHANGED text

\* the analyse order: white space, symbol, number, identifier - the sets are disjoint here except that "." is a
\* symbol character and a number character, and the symbol domain comes first
\* the end of the text closes the last statement if no line break did
LexEOF ==
  /\ pos = Len(text) + 1
  /\ pos' = pos + 1
  /\ toks' = IF toks # <<>> /\ toks[Len(toks)].c = "newline" THEN toks ELSE Append(toks, [c |-> "newline", s |-> ""])
  /\ UNCHANGED text
Next == LexSpace \/ LexSymbol \/ LexNumber \/ LexName \/ LexEOF
Spec == Init /\ [][Next]_vars
Done == pos = Len(text) + 2

-----------------------------------------------------------------------------
(* Python's rule: maximal munch over PyOps; <<"?">> where no operator starts *)
RECURSIVE SpanT(_, _, _)
SpanT(t, i, S) == IF i <= Len(t) /\ t[i] \in S THEN SpanT(t, i + 1, S) ELSE i
RECURSIVE Ref(_, _)
Ref(t, i) ==
  IF i > Len(t) THEN (IF t[Len(t)] = EOL THEN <<>> ELSE <<[c |-> "newline", s |-> ""]>>)
  ELSE LET ch == t[i] IN
    IF ch = Blank THEN Ref(t, i + 1)
    ELSE IF ch = EOL THEN <<[c |-> "newline", s |-> ""]>> \o Ref(t, i + 1)
    ELSE IF ch \in Idents THEN LET e == SpanT(t, i, Idents \cup Digits) IN <<[c |-> "name", s |-> Str(Sub(t, i, e - i))]>> \o Ref(t, e)
    ELSE IF ch \in Digits THEN
      \* digits, then at most one fraction
      LET d == SpanT(t, i, Digits)
          e == IF d <= Len(t) /\ t[d] = "." THEN SpanT(t, d + 1, Digits) ELSE d IN
      <<[c |-> "number", s |-> Str(Sub(t, i, e - i))]>> \o Ref(t, e)
    ELSE IF ch \in Brackets THEN <<[c |-> "op", s |-> ch]>> \o Ref(t, i + 1)
    ELSE LET n == IF i + 2 <= Len(t) /\ Sub(t, i, 3) \in PyOps THEN 3
                  ELSE IF i + 1 <= Len(t) /\ Sub(t, i, 2) \in PyOps THEN 2
                  ELSE IF Sub(t, i, 1) \in PyOps THEN 1 ELSE 0 IN
         IF n = 0 THEN <<[c |-> "error", s |-> ch]>> \o Ref(t, i + 1)
         ELSE <<[c |-> "op", s |-> Str(Sub(t, i, n))]>> \o Ref(t, i + 1 + (n - 1))

Contains(t, w) == \E i \in 1..(Len(t) - Len(w) + 1) : Sub(t, i, Len(w)) = w
\* defined on the text and on Python's tokens only:
\*  - every token Python finds is an operator tranp has too;
\*  - none of tranp's own combined symbols occurs (TranpOnly, see above);
\*  - no "." that begins a number (".1" is a float for Python; C13's subset has floats begin with a digit)
Supported(t) ==
  /\ \A k \in 1..Len(Ref(t, 1)) : LET x == Ref(t, 1)[k] IN x.c # "error" /\ (x.c = "op" => x.s \in Brackets \/ \E w \in Shared : Str(w) = x.s)
  /\ \A w \in TranpOnly : ~Contains(t, w)
  /\ \A i \in 2..(Len(t) - 1) : ~(t[i] = "." /\ t[i + 1] \in Digits /\ t[i - 1] \notin Digits)

\* Python has one minus
Plain(ts) == [k \in 1..Len(ts) |-> IF ts[k].c = "uminus" THEN [c |-> "op", s |-> "-"] ELSE ts[k]]
MunchAgrees == Done /\ Supported(text) => Plain(toks) = Ref(text, 1)
\* the lexer consumes every character exactly once (RoundTrip, at the grain of this model)
Progress == [][pos' > pos]_vars
TypeOK == pos \in 1..(Len(text) + 2)

Case == [text |-> Str(text), toks |-> toks, ref |-> Ref(text, 1), supported |-> Supported(text)]
EmitCase == Done => PrintT("CASE " \o ToJson(Case))
=============================================================================
