------------------------------ MODULE PyScope ------------------------------
(***************************************************************************)
(* Source model, scope layer: a program as a scope tree with binders       *)
(* (module-level name, functions, parameters, locals, a closure, a class,  *)
(* a field, methods, a comprehension variable, a lambda parameter, names    *)
(* first bound inside if / for blocks) and                                 *)
(* references.  Which binder a reference denotes is determined by Python's *)
(* LEGB rule on the scope tree (class scope is not visible from methods) - *)
(* a function of which binders SHARE an identifier, never of how the       *)
(* identifiers are spelled.                                                *)
(*                                                                         *)
(* An identifier assignment gives every binder an identifier slot; it is   *)
(* VALID when every reference still resolves to its intended binder and no *)
(* scope declares a slot twice.  TLC computes all valid assignments that   *)
(* merge up to two pairs of binders (the shadowing patterns) and proves    *)
(* BindsBySlotOnly.  A naming maps slots to strings from adversarial pools *)
(* (prefixes of one another, double underscores, node-classification       *)
(* words, different lengths, trailing digits).  C08: transpiling the       *)
(* program under two namings of the same assignment gives outputs that     *)
(* differ by exactly that renaming.                                        *)
(***************************************************************************)
EXTENDS Integers, Sequences, FiniteSets, TLC, Json

\* ---- scopes (parent relation) ; kind "class" scopes are skipped by name lookup from nested function scopes
Scopes == {"mod", "F1", "G1", "C1", "init", "M1", "comp", "lam", "F2", "F3", "C2", "M3", "E1"}
Parent == [mod |-> "mod", F1 |-> "mod", G1 |-> "F1", C1 |-> "mod", init |-> "C1", M1 |-> "C1", comp |-> "M1", lam |-> "F2", F2 |-> "mod", F3 |-> "mod", C2 |-> "C1", M3 |-> "C2", E1 |-> "mod"]
IsClass(s) == s \in {"C1", "C2", "E1"}

\* ---- binders: [name, scope where the name is bound]
Binders == {"s1", "f1", "p1", "p2", "l1", "n1", "i1", "g1", "q1", "c1", "a1", "p3", "m1", "p4", "l2", "e1", "f2", "p5", "o1", "k1", "w1", "f3", "p6", "o2", "r1", "m2", "l3", "c2", "m3", "o3", "e2", "m4", "m5", "v1", "t1", "t2"}
ScopeOf == [s1 |-> "mod", f1 |-> "mod", c1 |-> "mod", f2 |-> "mod", f3 |-> "mod", p6 |-> "F3", o2 |-> "F2", r1 |-> "F2", m2 |-> "C1", l3 |-> "M1", c2 |-> "C1", m3 |-> "C2", o3 |-> "F2", e2 |-> "mod", m4 |-> "E1", m5 |-> "E1", v1 |-> "F2", t1 |-> "mod", t2 |-> "mod",
            p1 |-> "F1", p2 |-> "F1", l1 |-> "F1", n1 |-> "F1", i1 |-> "F1", g1 |-> "F1",
            q1 |-> "G1",
            a1 |-> "C1", m1 |-> "C1",
            p3 |-> "init",
            p4 |-> "M1", l2 |-> "M1",
            e1 |-> "comp",
            p5 |-> "F2", o1 |-> "F2", k1 |-> "F2",
            w1 |-> "lam"]
\* attribute names live in the object's namespace, not in the scope chain
IsAttr(b) == b \in {"a1", "m1", "m2", "c2", "m3", "m4", "m5"}

\* ---- references: [id, scope of occurrence, intended binder]; attribute references resolve through the object
Refs == { [id |-> 1, at |-> "F1", to |-> "p1"], [id |-> 2, at |-> "F1", to |-> "s1"], [id |-> 3, at |-> "G1", to |-> "q1"],
          [id |-> 4, at |-> "G1", to |-> "l1"], [id |-> 5, at |-> "G1", to |-> "p2"], [id |-> 6, at |-> "F1", to |-> "g1"],
          [id |-> 7, at |-> "F1", to |-> "l1"], [id |-> 8, at |-> "init", to |-> "p3"], [id |-> 9, at |-> "comp", to |-> "e1"],
          [id |-> 10, at |-> "comp", to |-> "p4"], [id |-> 11, at |-> "M1", to |-> "p4"], [id |-> 12, at |-> "M1", to |-> "l2"],
          [id |-> 13, at |-> "F2", to |-> "c1"], [id |-> 14, at |-> "F2", to |-> "p5"], [id |-> 15, at |-> "F2", to |-> "o1"],
          [id |-> 16, at |-> "F2", to |-> "f1"], [id |-> 17, at |-> "F2", to |-> "s1"], [id |-> 18, at |-> "lam", to |-> "w1"],
          [id |-> 19, at |-> "lam", to |-> "p5"], [id |-> 20, at |-> "F2", to |-> "k1"],
          [id |-> 21, at |-> "F1", to |-> "n1"], [id |-> 22, at |-> "F1", to |-> "i1"],
          \* a function that returns an instance of the class, and locals declared from calls of functions (not constructors)
          [id |-> 23, at |-> "F3", to |-> "c1"], [id |-> 24, at |-> "F3", to |-> "p6"], [id |-> 25, at |-> "F2", to |-> "f3"],
          [id |-> 26, at |-> "F2", to |-> "o2"], [id |-> 27, at |-> "F2", to |-> "r1"],
          \* a bare name in a method body that denotes a module-level function: members of the class (a second method of
          \* another type among them) are not visible there, whatever they are called
          [id |-> 28, at |-> "M1", to |-> "f1"], [id |-> 29, at |-> "M1", to |-> "l3"],
          \* a class nested in the class, reached through it (c1.c2) in an inferred declaration
          [id |-> 30, at |-> "F2", to |-> "o3"],
          \* an enum whose second member is read through .value (the value is folded into the output)
          [id |-> 31, at |-> "F2", to |-> "e2"], [id |-> 32, at |-> "F2", to |-> "v1"],
          \* the class as base of a derived class
          [id |-> 33, at |-> "mod", to |-> "c1"],
          \* two type variables of one generic function, mentioned in the other order in its signature
          [id |-> 34, at |-> "mod", to |-> "t1"], [id |-> 35, at |-> "mod", to |-> "t2"] }

\* ---- LEGB resolution of slot x from scope s under assignment id : binders -> slots
RECURSIVE Resolve(_, _, _, _)
Resolve(id, x, s, first) ==
  LET here == {b \in Binders : ScopeOf[b] = s /\ ~IsAttr(b) /\ id[b] = x} IN
  IF (first \/ ~IsClass(s)) /\ here # {} THEN CHOOSE b \in here : TRUE
  ELSE IF s = "mod" THEN "unbound"
  ELSE Resolve(id, x, Parent[s], FALSE)

Valid(id) ==
  \* no scope binds one slot twice (attributes have their own namespace per class)
  /\ \A b1, b2 \in Binders : (b1 # b2 /\ id[b1] = id[b2]) => (ScopeOf[b1] # ScopeOf[b2] \/ IsAttr(b1) # IsAttr(b2))
  \* every reference still denotes its intended binder
  /\ \A r \in Refs : Resolve(id, id[r.to], r.at, TRUE) = r.to
  \* a local that shares its slot with a name read from an enclosing scope inside the same scope would make that
  \* read an unbound local in Python: excluded by the clause above (the read would resolve to the local)

Injective == [b \in Binders |-> b]          \* every binder its own slot (slots are named after binders)
Merge(id, b1, b2) == [id EXCEPT ![b2] = id[b1]]
Order == <<"s1", "f1", "p1", "p2", "l1", "n1", "i1", "g1", "q1", "c1", "a1", "p3", "m1", "p4", "l2", "e1", "f2", "p5", "o1", "k1", "w1", "f3", "p6", "o2", "r1", "m2", "l3", "c2", "m3", "o3", "e2", "m4", "m5", "v1", "t1", "t2">>
\* (a function, so that TLC evaluates it once)
Idx == [b \in Binders |-> CHOOSE i \in DOMAIN Order : Order[i] = b]
\* one merge per unordered pair: the later binder (in Order) takes the slot of the earlier one (merging the other way round
\* gives the same partition of the binders)
Pairs == {<<b1, b2>> \in Binders \X Binders : Idx[b1] < Idx[b2]}
OneMerge == {Merge(Injective, p[1], p[2]) : p \in Pairs}
ValidOne == {id \in OneMerge : Valid(id)}
\* two independent merges, built only from valid single merges
ValidTwo == {id2 \in {Merge(id, p[1], p[2]) : id \in ValidOne, p \in Pairs} : Valid(id2)}
Assignments == {Injective} \cup ValidOne

\* the binding structure depends on the assignment only through slot equality: resolving with slots renamed by
\* any injective map gives the same binders (stated for a fixed permutation-like renaming of slots)
Ren(id) == [b \in Binders |-> <<"x", id[b]>>]
BindsBySlotOnly == \A id \in Assignments : \A r \in Refs : Resolve(Ren(id), Ren(id)[r.to], r.at, TRUE) = Resolve(id, id[r.to], r.at, TRUE)

\* ---- namings: slot -> string.  Pools are sequences; slot k (in a fixed order of the binders) takes pool[k]
Pools == [
  base    |-> <<"zqa", "zqb", "zqc", "zqd", "zqe", "zqf", "zqg", "Zqh", "zqi", "zqj", "zqk", "zql", "zqm", "zqn", "zqo", "zqp", "zqq", "zqr", "zqs", "zqt", "zqu", "zqv", "zqw", "zqx", "zqy", "zra", "zrb", "Zrc", "zrd", "zre", "Zrf", "zrg", "zrh", "zri", "Ta_x", "Tb_x">>,
  prefix  |-> <<"v", "v_", "v__", "vv", "v_v", "vv_", "v_vv", "Vv", "v_a", "v_ab", "v_abc", "va", "vab", "vabc", "va_", "v_b", "vb", "v_bb", "vbb", "v_c", "vc", "vcc", "v_cc", "vc_", "v_d", "v_dd", "vd", "Vd_", "v_e", "ve", "Ve", "v_f", "vf", "v_ff", "Tz_y", "Tc_y">>,
  dunder  |-> <<"a__b", "a__", "a__b__c", "b__a", "a_b", "ab__", "a___b", "A__b", "b__", "c__a", "c__", "a__c", "c__b", "b__c", "ab__c", "a__bc", "bc__a", "cb__a", "abc__", "d__a", "a__d", "d__", "a__e", "e__a", "ae__", "e__", "a__f", "F__a", "a__g", "g__a", "H__a", "a__h", "h__a", "ah__", "Ta_x", "Tb_x">>,
  words   |-> <<"var", "closure", "name", "block", "list_comp", "function", "args", "Class", "field", "parameter", "method", "argument", "local", "comp_for", "entry", "param", "value", "lambda_", "elem", "decl_var", "scope", "relay", "func_call", "indexer", "move_assign", "comp_if", "this", "Types", "relay_of", "alt_class", "Enum_", "member", "value_", "literal", "Tz_y", "Tc_y">>,
  lengths |-> <<"x", "xxxxxxxxxxxxxxxxxxxxxxxx", "y", "yyyyyyyyyyyyyyyy", "z", "zzzzzzzzzzzz", "w", "Wwwwwwww", "u", "uuuuuuuuuuuuuuuuuuuuuuuuuuuuuuuu", "t", "tttt", "r", "rrrrrrrr", "q", "qqqqqq", "o", "oo", "k", "j", "jjjjjjjjjj", "i", "iiiiiiiiiiiiii", "h", "hhh", "g", "gggggggggggg", "F", "ffffffff", "e", "D", "dd", "ddddddddddd", "c", "Ta_x", "Tb_x">>,
  digits  |-> <<"x1", "x10", "x11", "x2", "x20", "x100", "x01", "X1", "x1_", "x_1", "x1_0", "x12", "x21", "x121", "x112", "x3", "x30", "x31", "x13", "x4", "x40", "x41", "x14", "x5", "x50", "x51", "x15", "X6", "x60", "x61", "X7", "x70", "x71", "x17", "Tz_y", "Tc_y">>,
  sufchain |-> <<"a", "ba", "cba", "dcba", "edcba", "fedcba", "gfedcba", "hgfedcba", "ihgfedcba", "jihgfedcba", "kjihgfedcba", "lkjihgfedcba", "mlkjihgfedcba", "nmlkjihgfedcba", "onmlkjihgfedcba", "ponmlkjihgfedcba", "qponmlkjihgfedcba", "rqponmlkjihgfedcba", "srqponmlkjihgfedcba", "tsrqponmlkjihgfedcba", "utsrqponmlkjihgfedcba", "vutsrqponmlkjihgfedcba", "wvutsrqponmlkjihgfedcba", "xwvutsrqponmlkjihgfedcba", "yxwvutsrqponmlkjihgfedcba", "zyxwvutsrqponmlkjihgfedcba", "azyxwvutsrqponmlkjihgfedcba", "bazyxwvutsrqponmlkjihgfedcba", "cbazyxwvutsrqponmlkjihgfedcba", "dcbazyxwvutsrqponmlkjihgfedcba", "Edcbazyxwvutsrqponmlkjihgfedcba", "fEdcbazyxwvutsrqponmlkjihgfedcba", "gfEdcbazyxwvutsrqponmlkjihgfedcba", "hgfEdcbazyxwvutsrqponmlkjihgfedcba", "Ta_x", "Tb_x">>,
  sufchainrev |-> <<"hgfEdcbazyxwvutsrqponmlkjihgfedcba", "gfEdcbazyxwvutsrqponmlkjihgfedcba", "fEdcbazyxwvutsrqponmlkjihgfedcba", "Edcbazyxwvutsrqponmlkjihgfedcba", "dcbazyxwvutsrqponmlkjihgfedcba", "cbazyxwvutsrqponmlkjihgfedcba", "bazyxwvutsrqponmlkjihgfedcba", "azyxwvutsrqponmlkjihgfedcba", "zyxwvutsrqponmlkjihgfedcba", "yxwvutsrqponmlkjihgfedcba", "xwvutsrqponmlkjihgfedcba", "wvutsrqponmlkjihgfedcba", "vutsrqponmlkjihgfedcba", "utsrqponmlkjihgfedcba", "tsrqponmlkjihgfedcba", "srqponmlkjihgfedcba", "rqponmlkjihgfedcba", "qponmlkjihgfedcba", "ponmlkjihgfedcba", "onmlkjihgfedcba", "nmlkjihgfedcba", "mlkjihgfedcba", "lkjihgfedcba", "kjihgfedcba", "jihgfedcba", "ihgfedcba", "hgfedcba", "gfedcba", "fedcba", "edcba", "dcba", "cba", "ba", "a", "Tz_y", "Tc_y">>,
  prechain |-> <<"a", "ab", "abc", "abcd", "abcde", "abcdef", "abcdefg", "abcdefgh", "abcdefghi", "abcdefghij", "abcdefghijk", "abcdefghijkl", "abcdefghijklm", "abcdefghijklmn", "abcdefghijklmno", "abcdefghijklmnop", "abcdefghijklmnopq", "abcdefghijklmnopqr", "abcdefghijklmnopqrs", "abcdefghijklmnopqrst", "abcdefghijklmnopqrstu", "abcdefghijklmnopqrstuv", "abcdefghijklmnopqrstuvw", "abcdefghijklmnopqrstuvwx", "abcdefghijklmnopqrstuvwxy", "abcdefghijklmnopqrstuvwxyz", "abcdefghijklmnopqrstuvwxyza", "abcdefghijklmnopqrstuvwxyzab", "abcdefghijklmnopqrstuvwxyzabc", "abcdefghijklmnopqrstuvwxyzabcd", "abcdefghijklmnopqrstuvwxyzabcdE", "abcdefghijklmnopqrstuvwxyzabcdEf", "abcdefghijklmnopqrstuvwxyzabcdEfg", "abcdefghijklmnopqrstuvwxyzabcdEfgh", "Ta_x", "Tb_x">>,
  prechainrev |-> <<"abcdefghijklmnopqrstuvwxyzabcdEfgh", "abcdefghijklmnopqrstuvwxyzabcdEfg", "abcdefghijklmnopqrstuvwxyzabcdEf", "abcdefghijklmnopqrstuvwxyzabcdE", "abcdefghijklmnopqrstuvwxyzabcd", "abcdefghijklmnopqrstuvwxyzabc", "abcdefghijklmnopqrstuvwxyzab", "abcdefghijklmnopqrstuvwxyza", "abcdefghijklmnopqrstuvwxyz", "abcdefghijklmnopqrstuvwxy", "abcdefghijklmnopqrstuvwx", "abcdefghijklmnopqrstuvw", "abcdefghijklmnopqrstuv", "abcdefghijklmnopqrstu", "abcdefghijklmnopqrst", "abcdefghijklmnopqrs", "abcdefghijklmnopqr", "abcdefghijklmnopq", "abcdefghijklmnop", "abcdefghijklmno", "abcdefghijklmn", "abcdefghijklm", "abcdefghijkl", "abcdefghijk", "abcdefghij", "abcdefghi", "abcdefgh", "abcdefg", "abcdef", "abcde", "abcd", "abc", "ab", "a", "Tz_y", "Tc_y">>,
  \* names that begin with the names of builtin types and of the words the output language uses for them
  typewords |-> <<"int_", "intx", "str_", "strs", "bool_", "float_", "list_", "Dict_", "dict_", "tuple_", "void_", "auto_", "std_", "double_", "char_", "long_", "size_t_", "string_", "vector_", "map_", "None_", "self_", "this_", "const_", "type_", "float_x", "tuple_x", "List_x", "int_y", "str_y", "Enum_x", "int_z", "str_z", "bool_z", "Ta_x", "Tb_x">>,
  \* names that END with the names the code base knows types by (Generic, Enum, ...)
  suffixes |-> <<"aGeneric", "bEnum", "cClass", "dType", "eList", "fDict", "gSelf", "hCallable", "iIterator", "NonGeneric", "kUnion", "lOptional", "mTuple", "nAny", "oNone", "pInt", "qStr", "rBool", "sFloat", "tObject", "uEmbed", "vCP", "wCRef", "xCSP", "yTypeVar", "zTypeAlias", "aaProtocol", "InnerClass", "acMeta", "adABC", "KindEnum", "afIntEnum", "agEnumMeta", "ahGeneric_", "Tz_y", "Tc_y">>,
  reverse |-> <<"zqs", "zqr", "zqq", "zqp", "zqo", "zqn", "zqm", "Zql", "zqk", "zqj", "zqi", "zqh", "zqg", "zqf", "zqe", "zqd", "zqc", "zqb", "zqa", "zzb", "zza", "zzc", "zzd", "zze", "zzf", "zzg", "zzh", "Zzi", "zzj", "zzk", "Zzl", "zzm", "zzn", "zzo", "Ta_x", "Tb_x">> ]
IndexOf(b) == Idx[b]
NameOf(id, pool, b) == Pools[pool][IndexOf(id[b])]          \* the name of binder b = pool entry of its slot

\* ---- program text (T = literal text, B = identifier of a binder)
T(s) == [k |-> "t", s |-> s]
B(b) == [k |-> "b", s |-> b]
Tokens == <<
  T("from collections.abc import Callable\nfrom enum import Enum\nfrom typing import TypeVar\n\n"), B("t1"), T(" = TypeVar('"), B("t1"), T("')\n"), B("t2"), T(" = TypeVar('"), B("t2"), T("')\n\ndef pick_(second_: "), B("t2"), T(", first_: "), B("t1"), T(") -> "), B("t1"), T(":\n\treturn first_\n\n"),
  T("def apply_fn(fn_: Callable[[int], int], val_: int) -> int:\n\treturn fn_(val_)\n\n"),
  B("s1"), T(": int = 3\n\n"),
  T("def "), B("f1"), T("("), B("p1"), T(": int, "), B("p2"), T(": int) -> int:\n"),
  T("\t"), B("l1"), T(" = "), B("p1"), T(" + "), B("s1"), T("\n"),
  \* names first bound inside nested blocks (function-level in Python, block-level declarations in the output)
  T("\tif "), B("p1"), T(" > 0:\n"),
  T("\t\t"), B("n1"), T(" = "), B("l1"), T(" + 1\n"),
  T("\t\t"), B("l1"), T(" = "), B("n1"), T(" * 2\n"),
  T("\tfor "), B("i1"), T(" in range("), B("p2"), T("):\n"),
  T("\t\t"), B("l1"), T(" = "), B("l1"), T(" + "), B("i1"), T("\n"),
  T("\tdef "), B("g1"), T("("), B("q1"), T(": int) -> int:\n"),
  T("\t\treturn "), B("q1"), T(" + "), B("l1"), T(" + "), B("p2"), T("\n\n"),
  T("\treturn "), B("g1"), T("("), B("l1"), T(")\n\n"),
  T("class "), B("c1"), T(":\n"),
  T("\t"), B("a1"), T(": int\n\n"),
  T("\tdef __init__(self, "), B("p3"), T(": int) -> None:\n"),
  T("\t\tself."), B("a1"), T(" = "), B("p3"), T("\n\n"),
  T("\tdef "), B("m1"), T("(self, "), B("p4"), T(": int) -> int:\n"),
  T("\t\t"), B("l2"), T(" = ["), B("e1"), T(" * "), B("p4"), T(" for "), B("e1"), T(" in range("), B("p4"), T(")]\n"),
  T("\t\t"), B("l3"), T(" = "), B("f1"), T("("), B("p4"), T(", "), B("p4"), T(")\n"),
  T("\t\treturn self."), B("a1"), T(" + "), B("l2"), T("[0] + "), B("l3"), T("\n\n"),
  T("\tdef "), B("m2"), T("(self) -> str:\n"),
  T("\t\treturn 'z'\n\n"),
  T("\tclass "), B("c2"), T(":\n"),
  T("\t\tdef "), B("m3"), T("(self) -> int:\n"),
  T("\t\t\treturn 3\n\n"),
  T("class "), B("e2"), T("(Enum):\n"),
  T("\t"), B("m4"), T(" = 1\n"),
  T("\t"), B("m5"), T(" = 2\n\n"),
  T("def "), B("f3"), T("("), B("p6"), T(": int) -> "), B("c1"), T(":\n"),
  T("\treturn "), B("c1"), T("("), B("p6"), T(")\n\n"),
  T("def "), B("f2"), T("("), B("p5"), T(": int) -> int:\n"),
  T("\t"), B("o1"), T(" = "), B("c1"), T("("), B("p5"), T(")\n"),
  T("\t"), B("o2"), T(" = "), B("f3"), T("("), B("p5"), T(")\n"),
  T("\t"), B("o3"), T(" = "), B("c1"), T("."), B("c2"), T("()\n"),
  T("\t"), B("v1"), T(" = "), B("e2"), T("."), B("m5"), T(".value\n"),
  T("\t"), B("r1"), T(" = "), B("f1"), T("("), B("p5"), T(", "), B("s1"), T(")\n"),
  T("\t"), B("k1"), T(" = apply_fn(lambda "), B("w1"), T(": "), B("w1"), T(" + "), B("p5"), T(", 2)\n"),
  T("\treturn "), B("o1"), T("."), B("m1"), T("("), B("f1"), T("("), B("p5"), T(", "), B("s1"), T(")) + "), B("k1"), T(" + "), B("o2"), T("."), B("m1"), T("("), B("r1"), T(") + "), B("o3"), T("."), B("m3"), T("() + "), B("v1"), T("\n"),
  \* a class derived from the class, which reads a field it inherits: the base is whatever the class is called
  T("\nclass Sub_("), B("c1"), T("):\n\tdef sub_(self) -> int:\n\t\treturn self."), B("a1"), T("\n")
>>
RECURSIVE Render(_, _, _)
Render(id, pool, i) == IF i > Len(Tokens) THEN ""
                       ELSE (IF Tokens[i].k = "t" THEN Tokens[i].s ELSE NameOf(id, pool, Tokens[i].s)) \o Render(id, pool, i + 1)
Text(id, pool) == Render(id, pool, 1)

\* every pool names the slots injectively (so a naming is an injective renaming of identifiers)
PoolsInjective == \A pool \in DOMAIN Pools : \A i, j \in DOMAIN Order : i # j => Pools[pool][i] # Pools[pool][j]

MergedPair(id) == {<<b1, b2>> \in Pairs : IndexOf(b1) < IndexOf(b2) /\ id[b1] = id[b2]}
Case(id, pool) == [pattern |-> [b \in Binders |-> id[b]], merged |-> MergedPair(id), pool |-> pool, text |-> Text(id, pool),
                   names |-> [b \in Binders |-> NameOf(id, pool, b)]]
\* the text of a case is Text(id, pool); to keep the evaluation short TLC prints the token list once and the names per
\* case (the harness substitutes), and the full text only for the injective assignment (the harness compares its own
\* substitution with it)
Slim(id, pool) == [pattern |-> [b \in Binders |-> id[b]], pool |-> pool, names |-> [b \in Binders |-> NameOf(id, pool, b)]]
Emit == /\ PrintT("TOKENS " \o ToJson(Tokens))
        /\ PrintT("ORDER " \o ToJson(Order))
        /\ \A pool \in DOMAIN Pools : PrintT("FULL " \o ToJson(Case(Injective, pool)))
        /\ \A id \in Assignments : \A pool \in DOMAIN Pools : PrintT("CASE " \o ToJson(Slim(id, pool)))
=============================================================================
