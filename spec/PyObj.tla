------------------------------- MODULE PyObj --------------------------------
(***************************************************************************)
(* Source model, layer L3: classes.  A class table (two classes Base and   *)
(* Sub(Base), an enum Color) is DATA: every method body is a small syntax  *)
(* tree, and the meaning of a call is given by an evaluator with Python's  *)
(* rules - attribute lookup along the inheritance chain (Resolve), dynamic *)
(* dispatch on the object's class for self.m(...), super().m(...) looked   *)
(* up from the parent of the class that DEFINES the running method,        *)
(* properties, a classmethod constructing cls(...), default and keyword    *)
(* arguments.  The table has variants (which methods Sub overrides, with   *)
(* or without super()); every variant is rendered as Python text.          *)
(* Following the convention of tranp's subset, fields are declared in the  *)
(* class body and a method that a subclass overrides carries               *)
(* @Embed.allow_override (without it tranp emits a statically dispatched   *)
(* call: a convention of the subset, not modelled as a defect).            *)
(*                                                                         *)
(* A program creates o = Base(a), s = Sub(a, b) and applies K operations;  *)
(* it returns (o.n, o.tag, o.items, s.n, s.m, s.tag, s.items, n, bb, st).  *)
(***************************************************************************)
EXTENDS Integers, Sequences, FiniteSets, TLC, Json

CONSTANTS K, Few         \* Few: only the class tables with dynamic twice and overriding bump (for sampling pairs quickly)

RECURSIVE JoinS(_, _)
JoinS(ss, sep) == IF Len(ss) = 0 THEN "" ELSE IF Len(ss) = 1 THEN ss[1] ELSE ss[1] \o sep \o JoinS(Tail(ss), sep)

\* ---- expression and statement trees of method bodies
Fld(f) == [k |-> "field", f |-> f]
Par(p) == [k |-> "param", p |-> p]
Num(v) == [k |-> "int", v |-> v]
Add(l, r) == [k |-> "add", l |-> l, r |-> r]
Sub2(l, r) == [k |-> "sub", l |-> l, r |-> r]
Mul(l, r) == [k |-> "mul", l |-> l, r |-> r]
SelfCall(m) == [k |-> "selfcall", m |-> m]              \* self.m()  (no arguments in expressions)
SelfProp(m) == [k |-> "selfprop", m |-> m]              \* self.m    (a property)
SuperCall(m) == [k |-> "supercall", m |-> m]            \* super().m()
LenOf(f) == [k |-> "len", f |-> f]
IfEnum(p, member, a, b) == [k |-> "ifenum", p |-> p, member |-> member, a |-> a, b |-> b]    \* a if p == Color.member else b
SetF(f, e) == [k |-> "set", f |-> f, e |-> e]           \* self.f = e
AppF(f, e) == [k |-> "append", f |-> f, e |-> e]        \* self.f.append(e)
SuperDo(m, args) == [k |-> "superdo", m |-> m, args |-> args]   \* super().m(args...) as a statement
Meth(kind, params, defaults, body, ret) == [kind |-> kind, params |-> params, defaults |-> defaults, body |-> body, ret |-> ret]
NoRet == [k |-> "none"]

\* ---- the class table, with variants
\* V.value  \in {"inherit", "super", "own"}   Sub.value: not defined / super().value() + self.m / self.m * 3
\* V.prop   \in {"inherit", "own"}            Sub.prop : not defined / self.m
\* V.bump   \in {"inherit", "super"}          Sub.bump : not defined / super().bump(k); self.m = self.m + 1
\* V.twice  \in {"dyn", "field"}              Base.twice: self.value() * 2 / self.n * 2
AllVariants == [value : {"inherit", "super", "own"}, prop : {"inherit", "own"}, bump : {"inherit", "super"}, twice : {"dyn", "field"}]
Variants == IF Few THEN {v \in AllVariants : v.twice = "dyn" /\ v.bump = "super"} ELSE AllVariants

BaseMethods(V) == [
  value |-> Meth("method", <<>>, <<>>, <<>>, Fld("n")),
  twice |-> Meth("method", <<>>, <<>>, <<>>, IF V.twice = "dyn" THEN Mul(SelfCall("value"), Num(2)) ELSE Mul(Fld("n"), Num(2))),
  prop  |-> Meth("property", <<>>, <<>>, <<>>, Add(Fld("n"), Num(1))),
  both  |-> Meth("method", <<>>, <<>>, <<>>, Add(SelfCall("twice"), SelfProp("prop"))),
  bump  |-> Meth("method", <<"k">>, <<1>>, <<SetF("n", Add(Fld("n"), Par("k")))>>, NoRet),
  push  |-> Meth("method", <<"v">>, <<>>, <<AppF("items", Par("v"))>>, LenOf("items")),
  pick  |-> Meth("method", <<"c">>, <<>>, <<>>, IfEnum("c", "R", Fld("n"), Sub2(Num(0), Fld("n")))) ]
SubMethods(V) ==
  (IF V.value = "super" THEN [value |-> Meth("method", <<>>, <<>>, <<>>, Add(SuperCall("value"), Fld("m")))]
   ELSE IF V.value = "own" THEN [value |-> Meth("method", <<>>, <<>>, <<>>, Mul(Fld("m"), Num(3)))] ELSE [x \in {} |-> 0])
  @@ (IF V.prop = "own" THEN [prop |-> Meth("property", <<>>, <<>>, <<>>, Fld("m"))] ELSE [x \in {} |-> 0])
  @@ (IF V.bump = "super" THEN [bump |-> Meth("method", <<"k">>, <<1>>, <<SuperDo("bump", <<Par("k")>>), SetF("m", Add(Fld("m"), Num(1)))>>, NoRet)] ELSE [x \in {} |-> 0])
Table(V) == [Base |-> BaseMethods(V), Sub |-> SubMethods(V)]
Parent == [Sub |-> "Base"]

\* ---- Python's lookup and call rules
RECURSIVE Resolve(_, _, _)
Resolve(T, cls, m) == IF m \in DOMAIN T[cls] THEN cls ELSE Resolve(T, Parent[cls], m)          \* the class whose definition is used

RECURSIVE Eval(_, _, _, _, _), Exec(_, _, _, _, _), Call(_, _, _, _)
\* value of expression e inside a method defined in class dc, running on object obj with parameters ps
Eval(T, e, obj, dc, ps) ==
  CASE e.k = "field" -> obj[e.f]
    [] e.k = "param" -> ps[e.p]
    [] e.k = "int" -> e.v
    [] e.k = "add" -> Eval(T, e.l, obj, dc, ps) + Eval(T, e.r, obj, dc, ps)
    [] e.k = "sub" -> Eval(T, e.l, obj, dc, ps) - Eval(T, e.r, obj, dc, ps)
    [] e.k = "mul" -> Eval(T, e.l, obj, dc, ps) * Eval(T, e.r, obj, dc, ps)
    [] e.k \in {"selfcall", "selfprop"} -> Call(T, obj, Resolve(T, obj.cls, e.m), e.m).ret       \* dynamic dispatch: lookup starts at the OBJECT's class
    [] e.k = "supercall" -> Call(T, obj, Resolve(T, Parent[dc], e.m), e.m).ret                   \* lookup starts above the DEFINING class
    [] e.k = "len" -> Len(obj[e.f])
    [] e.k = "ifenum" -> IF ps[e.p] = e.member THEN Eval(T, e.a, obj, dc, ps) ELSE Eval(T, e.b, obj, dc, ps)
\* statements of a body, in order
Exec(T, body, obj, dc, ps) ==
  IF body = <<>> THEN obj
  ELSE LET st == Head(body)
           obj2 == CASE st.k = "set" -> [obj EXCEPT ![st.f] = Eval(T, st.e, obj, dc, ps)]
                     [] st.k = "append" -> [obj EXCEPT ![st.f] = Append(@, Eval(T, st.e, obj, dc, ps))]
                     [] st.k = "superdo" -> LET c2 == Resolve(T, Parent[dc], st.m)
                                                m2 == T[c2][st.m]
                                                ps2 == [i \in DOMAIN m2.params |-> Eval(T, st.args[i], obj, dc, ps)]
                                            IN Exec(T, m2.body, obj, c2, [p \in {m2.params[i] : i \in DOMAIN m2.params} |-> ps2[CHOOSE i \in DOMAIN m2.params : m2.params[i] = p]])
       IN Exec(T, Tail(body), obj2, dc, ps)
\* a call without arguments of method m as defined in class c (expressions only call argument-less methods)
Call(T, obj, c, m) == LET d == T[c][m]  o2 == Exec(T, d.body, obj, c, [x \in {} |-> 0]) IN [obj |-> o2, ret |-> IF d.ret.k = "none" THEN 0 ELSE Eval(T, d.ret, o2, c, [x \in {} |-> 0])]
\* a call with arguments from program level: obj.m(args) - lookup from the object's class
CallArgs(T, obj, m, ps) == LET c == Resolve(T, obj.cls, m)  d == T[c][m]  o2 == Exec(T, d.body, obj, c, ps) IN [obj |-> o2, ret |-> IF d.ret.k = "none" THEN 0 ELSE Eval(T, d.ret, o2, c, ps)]

NewBase(n) == [cls |-> "Base", n |-> n, tag |-> "base", items |-> <<>>]
NewSub(n, m) == [cls |-> "Sub", n |-> n, tag |-> "base", items |-> <<>>, m |-> m]         \* Sub.__init__: super().__init__(n); self.m = m

\* ---- operations of a program
Ops ==
  {[k |-> kk, on |-> x] : kk \in {"value", "twice", "prop", "both", "bump_b", "bump_default", "bump_kw", "push_a", "push_n", "pick_R", "pick_G", "pick_var", "set_n", "aug_n", "len_items", "sum_items", "tag_set"}, x \in {"o", "s"}}
  \cup {[k |-> kk] : kk \in {"make", "make_value", "tags", "set_m", "c_G", "c_R", "c_eq", "c_ne", "enum_value", "enum_name", "obj_list_idx", "obj_list_loop", "obj_list_append", "temp_base", "temp_sub",
                             "fresh_sub", "use_fn", "enum_list", "enum_dict", "tern_field", "max_fields", "sub_in_base_list",
                             "p_fields", "r_fields", "p_fields_kw", "p_area", "p_area_kw", "p_area_kw2"}}

Undef == [undef |-> TRUE]
IsUndef(st) == "undef" \in DOMAIN st
Obj(st, x) == IF x = "o" THEN st.o ELSE st.s
Put(st, x, obj) == IF x = "o" THEN [st EXCEPT !.o = obj] ELSE [st EXCEPT !.s = obj]
RECURSIVE SumSeq(_)
SumSeq(xs) == IF xs = <<>> THEN 0 ELSE Head(xs) + SumSeq(Tail(xs))
Max(x, y) == IF x > y THEN x ELSE y

Apply(T, op, st) ==
  LET k == op.k
      x == IF "on" \in DOMAIN op THEN op.on ELSE "o"
      ob == Obj(st, x)
      CallM(m, ps) == CallArgs(T, ob, m, ps)
  IN
  CASE k \in {"value", "twice", "both"} -> [st EXCEPT !.n = CallM(k, [z \in {} |-> 0]).ret]
    [] k = "prop" -> [st EXCEPT !.n = CallM("prop", [z \in {} |-> 0]).ret]
    [] k = "bump_b" -> Put(st, x, CallM("bump", [k |-> st.b]).obj)
    [] k = "bump_default" -> Put(st, x, CallM("bump", [k |-> 1]).obj)
    [] k = "bump_kw" -> Put(st, x, CallM("bump", [k |-> 4]).obj)
    [] k = "push_a" -> LET R == CallM("push", [v |-> st.a]) IN [Put(st, x, R.obj) EXCEPT !.n = R.ret]
    [] k = "push_n" -> LET R == CallM("push", [v |-> st.n]) IN [Put(st, x, R.obj) EXCEPT !.n = R.ret]
    [] k = "pick_R" -> [st EXCEPT !.n = CallM("pick", [c |-> "R"]).ret]
    [] k = "pick_G" -> [st EXCEPT !.n = CallM("pick", [c |-> "G"]).ret]
    [] k = "pick_var" -> [st EXCEPT !.n = CallM("pick", [c |-> st.c]).ret]
    [] k = "set_n" -> Put(st, x, [ob EXCEPT !.n = st.b])
    [] k = "aug_n" -> Put(st, x, [ob EXCEPT !.n = @ + st.b])
    [] k = "len_items" -> [st EXCEPT !.n = Len(ob.items)]
    [] k = "sum_items" -> [st EXCEPT !.n = st.n + SumSeq(ob.items)]
    [] k = "tag_set" -> Put(st, x, [ob EXCEPT !.tag = "sub"])
    [] k = "make" -> [st EXCEPT !.n = st.a + 10]                                        \* p = Base.make(a); n = p.n
    [] k = "make_value" -> [st EXCEPT !.n = CallArgs(T, NewBase(st.a + 10), "twice", [z \in {} |-> 0]).ret]
    [] k = "tags" -> [st EXCEPT !.st = st.s.tag \o st.o.tag]
    [] k = "set_m" -> [st EXCEPT !.s = [st.s EXCEPT !.m = st.a]]
    [] k = "c_G" -> [st EXCEPT !.c = "G"]
    [] k = "c_R" -> [st EXCEPT !.c = "R"]
    [] k = "c_eq" -> [st EXCEPT !.bb = (st.c = "G")]
    [] k = "c_ne" -> [st EXCEPT !.bb = (st.c # "R")]
    [] k = "enum_value" -> [st EXCEPT !.n = 3]
    [] k = "enum_name" -> [st EXCEPT !.st = "G"]
    [] k = "obj_list_idx" -> [st EXCEPT !.n = st.b]                                      \* ol = [Base(a), Base(b)]; n = ol[1].n
    [] k = "obj_list_loop" -> [st EXCEPT !.n = st.n + st.a + st.b]                       \* for ob in [Base(a), Base(b)]: n += ob.value()
    [] k = "obj_list_append" -> [st EXCEPT !.n = 1]
    [] k = "temp_base" -> [st EXCEPT !.n = CallArgs(T, NewBase(st.b), "value", [z \in {} |-> 0]).ret]
    [] k = "temp_sub" -> [st EXCEPT !.n = CallArgs(T, NewSub(st.a, st.b), "twice", [z \in {} |-> 0]).ret]
    [] k = "fresh_sub" -> LET q == CallArgs(T, NewSub(st.a, 1), "bump", [k |-> 2]).obj IN [st EXCEPT !.n = CallArgs(T, q, "value", [z \in {} |-> 0]).ret]
    [] k = "use_fn" -> [st EXCEPT !.n = st.o.n + st.s.n]                                 \* def use(x: Base) -> int: return x.n ; n = use(o) + use(s)
    [] k = "enum_list" -> [st EXCEPT !.n = 2]
    [] k = "enum_dict" -> [st EXCEPT !.n = st.b]
    [] k = "tern_field" -> [st EXCEPT !.n = IF st.o.n > 0 THEN CallArgs(T, st.o, "value", [z \in {} |-> 0]).ret ELSE 1]
    [] k = "max_fields" -> [st EXCEPT !.n = Max(st.o.n, st.s.m)]
    \* class P: __init__(x, y = 3) runs  self.y = y ; self.x = x + self.y ; self.z = self.x * 2  IN THAT ORDER (the fields are
    \* declared x, y, z); area(w = 2, h = 5) = x * w + y * h
    [] k \in {"p_fields", "r_fields"} -> [st EXCEPT !.n = (st.a + 3) * 100 + 3 * 10 + (st.a + 3) * 2]      \* R: the same constructor, fields declared in another order than assigned
    [] k = "p_fields_kw" -> [st EXCEPT !.n = (st.a + st.b) * 100 + st.b]
    [] k = "p_area" -> [st EXCEPT !.n = (st.a + 3) * 2 + 3 * 5]
    [] k = "p_area_kw" -> [st EXCEPT !.n = (st.a + 3) * 2 + 3 * 1]                           \* p.area(h=1): w keeps its default
    [] k = "p_area_kw2" -> [st EXCEPT !.n = (st.a + 3) * 4 + 3 * 1]                          \* p.area(h=1, w=4)
    [] k = "sub_in_base_list" -> [st EXCEPT !.n = 2]                                     \* bl: list[Base] = [o]; bl.append(Base(b)); n = len(bl)

\* ---- text
Line(t) == "\t" \o t \o "\n"
RECURSIVE ET(_)
ET(e) == CASE e.k = "field" -> "self." \o e.f [] e.k = "param" -> e.p [] e.k = "int" -> ToString(e.v)
           [] e.k = "add" -> ET(e.l) \o " + " \o ET(e.r) [] e.k = "sub" -> ET(e.l) \o " - " \o ET(e.r)
           [] e.k = "mul" -> ET(e.l) \o " * " \o ET(e.r)                   \* operands of * are atoms or calls in every table entry
           [] e.k = "selfcall" -> "self." \o e.m \o "()" [] e.k = "selfprop" -> "self." \o e.m
           [] e.k = "supercall" -> "super()." \o e.m \o "()" [] e.k = "len" -> "len(self." \o e.f \o ")"
           [] e.k = "ifenum" -> ET(e.a) \o " if " \o e.p \o " == Color." \o e.member \o " else " \o ET(e.b)
ST(s) == CASE s.k = "set" -> "self." \o s.f \o " = " \o ET(s.e) [] s.k = "append" -> "self." \o s.f \o ".append(" \o ET(s.e) \o ")"
           [] s.k = "superdo" -> "super()." \o s.m \o "(" \o JoinS([i \in DOMAIN s.args |-> ET(s.args[i])], ", ") \o ")"
ParamType(p) == IF p = "c" THEN "Color" ELSE "int"
MethText(name, d, overridden) ==
  LET params == JoinS(<<"self">> \o [i \in DOMAIN d.params |-> d.params[i] \o ": " \o ParamType(d.params[i]) \o (IF i <= Len(d.defaults) THEN " = " \o ToString(d.defaults[i]) ELSE "")], ", ")
      rett == IF d.ret.k = "none" THEN "None" ELSE "int"
  IN (IF overridden THEN Line("@Embed.allow_override") ELSE "") \o (IF d.kind = "property" THEN Line("@property") ELSE "")
     \o Line("def " \o name \o "(" \o params \o ") -> " \o rett \o ":")
     \o JoinS([i \in DOMAIN d.body |-> Line("\t" \o ST(d.body[i]))], "")
     \o (IF d.ret.k = "none" THEN "" ELSE Line("\treturn " \o ET(d.ret))) \o "\n"
Order == <<"value", "twice", "prop", "both", "bump", "push", "pick">>
ClassText(V) ==
  LET T == Table(V) IN
  "from enum import Enum\nfrom rogw.tranp.compatible.python.embed import Embed\n\nclass Color(Enum):\n\tR = 1\n\tG = 2\n\n"
  \o "class Base:\n\tn: int\n\ttag: str\n\titems: list[int]\n\n\tdef __init__(self, n: int) -> None:\n\t\tself.n = n\n\t\tself.tag = 'base'\n\t\tself.items = []\n\n"
  \o JoinS([i \in DOMAIN Order |-> MethText(Order[i], T.Base[Order[i]], Order[i] \in DOMAIN T.Sub)], "")
  \o "\t@classmethod\n\tdef make(cls, n: int) -> 'Base':\n\t\treturn cls(n + 10)\n\n"
  \o "class P:\n\ty: int\n\tx: int\n\tz: int\n\n\tdef __init__(self, x: int, y: int = 3) -> None:\n\t\tself.y = y\n\t\tself.x = x + self.y\n\t\tself.z = self.x * 2\n\n\tdef area(self, w: int = 2, h: int = 5) -> int:\n\t\treturn self.x * w + self.y * h\n\n"
  \o "class R:\n\tx: int\n\ty: int\n\tz: int\n\n\tdef __init__(self, x: int, y: int = 3) -> None:\n\t\tself.y = y\n\t\tself.x = x + self.y\n\t\tself.z = self.x * 2\n\n"
  \o "class Sub(Base):\n\tm: int\n\n\tdef __init__(self, n: int, m: int) -> None:\n\t\tsuper().__init__(n)\n\t\tself.m = m\n\n"
  \o JoinS([i \in DOMAIN Order |-> IF Order[i] \in DOMAIN T.Sub THEN MethText(Order[i], T.Sub[Order[i]], FALSE) ELSE ""], "")

OpText(op) ==
  LET k == op.k  x == IF "on" \in DOMAIN op THEN op.on ELSE "o" IN
  CASE k \in {"value", "twice", "both"} -> Line("n = " \o x \o "." \o k \o "()")
    [] k = "prop" -> Line("n = " \o x \o ".prop")
    [] k = "bump_b" -> Line(x \o ".bump(b)")
    [] k = "bump_default" -> Line(x \o ".bump()")
    [] k = "bump_kw" -> Line(x \o ".bump(k=4)")
    [] k = "push_a" -> Line("n = " \o x \o ".push(a)")
    [] k = "push_n" -> Line("n = " \o x \o ".push(n)")
    [] k = "pick_R" -> Line("n = " \o x \o ".pick(Color.R)")
    [] k = "pick_G" -> Line("n = " \o x \o ".pick(Color.G)")
    [] k = "pick_var" -> Line("n = " \o x \o ".pick(c)")
    [] k = "set_n" -> Line(x \o ".n = b")
    [] k = "aug_n" -> Line(x \o ".n += b")
    [] k = "len_items" -> Line("n = len(" \o x \o ".items)")
    [] k = "sum_items" -> Line("for it in " \o x \o ".items:") \o Line("\tn += it")
    [] k = "tag_set" -> Line(x \o ".tag = 'sub'")
    [] k = "make" -> Line("p = Base.make(a)") \o Line("n = p.n")
    [] k = "make_value" -> Line("n = Base.make(a).twice()")
    [] k = "tags" -> Line("st = s.tag + o.tag")
    [] k = "set_m" -> Line("s.m = a")
    [] k = "c_G" -> Line("c = Color.G")
    [] k = "c_R" -> Line("c = Color.R")
    [] k = "c_eq" -> Line("bb = c == Color.G")
    [] k = "c_ne" -> Line("bb = c != Color.R")
    [] k = "enum_value" -> Line("n = Color.G.value + Color.R.value")
    [] k = "enum_name" -> Line("st = Color.G.name")
    [] k = "obj_list_idx" -> Line("ol: list[Base] = [Base(a), Base(b)]") \o Line("n = ol[1].n")
    [] k = "obj_list_loop" -> Line("om: list[Base] = [Base(a), Base(b)]") \o Line("for ob in om:") \o Line("\tn += ob.value()")
    [] k = "obj_list_append" -> Line("oa: list[Base] = []") \o Line("oa.append(Base(a))") \o Line("n = len(oa)")
    [] k = "temp_base" -> Line("n = Base(b).value()")
    [] k = "temp_sub" -> Line("n = Sub(a, b).twice()")
    [] k = "fresh_sub" -> Line("q = Sub(a, 1)") \o Line("q.bump(2)") \o Line("n = q.value()")
    [] k = "use_fn" -> Line("def use(ux: Base) -> int:") \o Line("\treturn ux.n") \o Line("n = use(o) + use(s)")
    [] k = "enum_list" -> Line("cs: list[Color] = [Color.R, Color.G]") \o Line("n = len(cs)")
    [] k = "enum_dict" -> Line("cd: dict[Color, int] = {Color.R: a, Color.G: b}") \o Line("n = cd[Color.G]")
    [] k = "tern_field" -> Line("n = o.value() if o.n > 0 else 1")
    [] k = "max_fields" -> Line("n = max(o.n, s.m)")
    [] k = "p_fields" -> Line("pa = P(a)") \o Line("n = pa.x * 100 + pa.y * 10 + pa.z")
    [] k = "r_fields" -> Line("ra = R(a)") \o Line("n = ra.x * 100 + ra.y * 10 + ra.z")
    [] k = "p_fields_kw" -> Line("pb = P(a, y=b)") \o Line("n = pb.x * 100 + pb.y")
    [] k = "p_area" -> Line("pc = P(a)") \o Line("n = pc.area()")
    [] k = "p_area_kw" -> Line("pd = P(a)") \o Line("n = pd.area(h=1)")
    [] k = "p_area_kw2" -> Line("pe = P(a)") \o Line("n = pe.area(h=1, w=4)")
    [] k = "sub_in_base_list" -> Line("bl: list[Base] = [o]") \o Line("bl.append(Base(b))") \o Line("n = len(bl)")

Declaring == {"obj_list_idx", "obj_list_loop", "obj_list_append", "use_fn", "enum_list", "enum_dict", "sub_in_base_list"}
Programs == {p \in [1..K -> Ops] : \A i, j \in 1..K : (i < j /\ p[i].k \in Declaring) => p[j].k # p[i].k}
Args == << <<2, 3>>, <<0, 0>>, <<3, 1>>, <<-1, 4>> >>
Init(a, b) == [o |-> NewBase(a), s |-> NewSub(a, b), n |-> 0, bb |-> FALSE, st |-> "", c |-> "R", a |-> a, b |-> b]
InitText == Line("o = Base(a)") \o Line("s = Sub(a, b)") \o Line("n: int = 0") \o Line("bb: bool = False") \o Line("st: str = ''") \o Line("c = Color.R")
RECURSIVE Run(_, _, _)
Run(T, ops, st) == IF ops = <<>> THEN st ELSE Run(T, Tail(ops), Apply(T, Head(ops), st))
Head1 == "def f(a: int, b: int) -> tuple[int, str, list[int], int, int, str, list[int], int, bool, str]:\n"
Ret == Line("return (o.n, o.tag, o.items, s.n, s.m, s.tag, s.items, n, bb, st)")
FuncText(ops) == Head1 \o InitText \o JoinS([i \in DOMAIN ops |-> OpText(ops[i])], "") \o Ret
Show(st) == [on |-> st.o.n, otag |-> st.o.tag, oitems |-> st.o.items, sn |-> st.s.n, sm |-> st.s.m, stag |-> st.s.tag, sitems |-> st.s.items, n |-> st.n, bb |-> st.bb, st |-> st.st]
Outcomes(V, ops) == [j \in DOMAIN Args |-> Show(Run(Table(V), ops, Init(Args[j][1], Args[j][2])))]

\* ---- model-level facts
\* dynamic dispatch: a method that Sub overrides is the one an inherited method reaches through self
DispatchIsDynamic == \A V \in Variants : V.twice = "dyn" =>
     CallArgs(Table(V), NewSub(2, 3), "twice", [z \in {} |-> 0]).ret = 2 * CallArgs(Table(V), NewSub(2, 3), "value", [z \in {} |-> 0]).ret
\* super() reaches the parent's definition even though the object is a Sub
SuperReachesParent == \A V \in Variants : V.value = "super" => CallArgs(Table(V), NewSub(2, 3), "value", [z \in {} |-> 0]).ret = 2 + 3
\* a Base object never sees Sub's definitions
BaseUnaffected == \A V \in Variants : CallArgs(Table(V), NewBase(2), "both", [z \in {} |-> 0]).ret = 2 * 2 + 3

EmitClasses == \A V \in Variants : PrintT("CLASSES " \o ToJson([variant |-> V, text |-> ClassText(V)]))
EmitProgs == \A V \in Variants : \A p \in Programs :
   PrintT("PROG " \o ToJson([variant |-> V, ops |-> [i \in DOMAIN p |-> p[i].k \o (IF "on" \in DOMAIN p[i] THEN ":" \o p[i].on ELSE "")], text |-> FuncText(p), outcomes |-> Outcomes(V, p)]))
EmitArgs == PrintT("ARGS " \o ToJson(Args))
=============================================================================
