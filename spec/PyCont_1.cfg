CONSTANTS
  K = 1
