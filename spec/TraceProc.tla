---------------------------- MODULE TraceProc ----------------------------
(***************************************************************************)
(* Trace validation for Proc.tla.  A trace = [tree, events]: the tree is   *)
(* what the real node API reports (per node: its expandable properties,    *)
(* kind taken from the *value* the property returns, children ids); the    *)
(* events were recorded from real Procedure objects.  Two dialects:        *)
(*  A  identity handler installed by the harness on its own Procedure:     *)
(*     begin / event(n, received, consumed, depth, outcome, sub) /         *)
(*     nestmore / return / end(root, result)                               *)
(*  B  the repository's own walkers (Py2Cpp, type resolver, evaluator):    *)
(*     begin(root, depth, nested) / act(n, before, consumed, after, depth) *)
(*     / end(root, depth) - recorded by wrapping exec and the per-action   *)
(*     log point of Procedure                                              *)
(* Every invariant and action property of Proc.tla is checked on the way.  *)
(***************************************************************************)
EXTENDS Proc, IOUtils, TLCExt, Json

Traces == JsonDeserialize(IOEnv.TRACE_FILE)
NT == Len(Traces)

VARIABLES tid, l
tvars == <<props, phase, stacks, frames, fails, runs, nests, op, tid, l>>

ASSUME \A t \in 1..NT : TLCSet(t, FALSE)

TInit == /\ tid \in 1..NT /\ l = 1
         /\ props = Traces[tid].tree
         /\ phase = "idle" /\ stacks = <<>> /\ frames = <<>> /\ fails = 0 /\ runs = 0 /\ nests = 0
         /\ op = [name |-> "init"]

Evs == Traces[tid].events
Ev == Evs[l]
More == l <= Len(Evs)
Adv == l' = l + 1 /\ tid' = tid

\* received values per property: kind as the handler saw it (node vs list) and the ids
Received(e) == [i \in 1..Len(e.ev) |-> e.ev[i].got]
KindsAgree(e) == \A i \in 1..Len(e.ev) : e.ev[i].kind = props[e.n][i].kind

TBeginTop == More /\ Ev.name = "begin" /\ ~Ev.nested /\ ExecTop(Ev.root) /\ op'.depth = Ev.depth /\ Adv

(* dialect A *)
TEvent == More /\ Ev.name = "event" /\ Process(Ev.outcome, Ev.sub)
          /\ op'.n = Ev.n /\ Len(Ev.ev) = Len(props[Ev.n]) /\ KindsAgree(Ev) /\ op'.ev = Received(Ev)
          /\ op'.consumed = Ev.consumed /\ op'.depth = Ev.depth /\ Adv
TNestMore == More /\ Ev.name = "nestmore" /\ NestMore(Ev.sub) /\ op'.n = Ev.n /\ Adv
TReturn == More /\ Ev.name = "return" /\ HandlerReturn /\ op'.n = Ev.n /\ Adv
TEnd == More /\ Ev.name = "end" /\ ExecEnd /\ op'.root = Ev.root /\ op'.depth = Ev.depth
        /\ ("result" \in DOMAIN Ev => op'.result = <<Ev.result>>) /\ Adv

(* dialect B *)
TBeginNested == More /\ Ev.name = "begin" /\ Ev.nested
                /\ (IF Cur.pending = 0 THEN Process("nest", Ev.root) ELSE NestMore(Ev.root))
                /\ Len(stacks') = Ev.depth /\ Adv
TAct == More /\ Ev.name = "act"
        /\ (IF Top > 0 /\ Cur.pending = Ev.n /\ Cur.pending # 0 THEN HandlerReturn ELSE Process("plain", 0))
        /\ op'.n = Ev.n /\ op'.before = Ev.before /\ op'.consumed = Ev.consumed /\ Ev.after = Ev.consumed + 1
        /\ op'.depth = Ev.depth /\ Adv

TNext == TBeginTop \/ TEvent \/ TNestMore \/ TReturn \/ TEnd \/ TBeginNested \/ TAct
TSpec == TInit /\ [][TNext]_tvars

Done == l = Len(Evs) + 1
Mark == Done => TLCSet(tid, TRUE)
Rejected == {t \in 1..NT : TLCGet(t) # TRUE}
Post == PrintT("REACH " \o ToString([t \in 1..NT |-> TLCGet(NT + t)])) /\
        IF Rejected = {} THEN PrintT("TRACES-ACCEPTED " \o ToString(NT))
        ELSE PrintT("TRACES-REJECTED " \o ToString(Rejected)) /\ FALSE

\* diagnosis: deepest line reached per trace (printed for rejected traces by the harness on a second pass)
Reach == TLCGet("level") > 0 => (l <= TLCGet(NT + tid) \/ TLCSet(NT + tid, l))
ASSUME \A t \in 1..NT : TLCSet(NT + t, 0)

TEventIsChildren == [][op'.name = "event" => op'.ev = Expected(props, op'.n)]_tvars
TNoSiblingLeak == [][op'.name \in {"event", "return"} => op'.before - op'.consumed = Arity(props, op'.n)]_tvars
TOneResult == [][op'.name = "end" => op'.result = <<op'.root>>]_tvars
TNestedTransparent == [][\A i \in 1..Len(stacks) : (i < Len(stacks) /\ i < Len(stacks')) => stacks'[i] = stacks[i]]_tvars
=============================================================================
