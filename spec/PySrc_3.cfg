CONSTANTS
  NOps = 3
