CONSTANTS
  MaxLines = 3
  MaxInd = 2
  MaxRewrites = 2
INIT Init
NEXT Next
INVARIANT IndentsBalance
INVARIANT ValidIndent
PROPERTY LayoutInsensitive
CHECK_DEADLOCK FALSE
