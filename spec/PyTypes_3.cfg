CONSTANTS
  Depth = 3
