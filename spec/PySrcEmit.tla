----------------------------- MODULE PySrcEmit -----------------------------
(* evaluate-mode driver for PySrc.tla: checks the model-level facts and serialises the universe *)
EXTENDS PySrc
ASSUME Total
ASSUME ChildInsideParent
ASSUME MarkInsideLine
ASSUME EmitMarkTable
ASSUME CaretsUnderToken
ASSUME EmitOwnTable
ASSUME EnvsJson
ASSUME Emit
ASSUME PrintT("UNIVERSE " \o ToString(Cardinality(Exprs)))
=============================================================================
