CONSTANTS
  MaxLines = 5
  Consistent = TRUE
INIT Init
NEXT Next
INVARIANT BlocksAgree
INVARIANT IndentsBalance
PROPERTY Progress
CHECK_DEADLOCK FALSE
