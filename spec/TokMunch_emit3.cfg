CONSTANTS
  MaxRun = 3
  Lookup = "longest"
INIT Init
NEXT Next
INVARIANT EmitCase
CHECK_DEADLOCK FALSE
