------------------------------- MODULE PyExec -------------------------------
(***************************************************************************)
(* Source model, layer L1: big-step semantics of the statement skeletons   *)
(* of PyStmt.tla.  A program is                                            *)
(*     def f(a: int, b: int, xs: list[int]) -> int:                        *)
(*         x = 0 ; <statement> ; return x                                  *)
(* State: the local x, the loop variables i / v, the parameters.           *)
(* Outcome of a call: Return(v), Raise (an uncaught RuntimeError) or Undef *)
(* (the loop budget is exhausted: the case is not generated).              *)
(***************************************************************************)
EXTENDS PyStmt

Fuel == 12

Cond(text, st) == CASE text = "a > 0" -> st.a > 0
                    [] text = "b == a" -> st.b = st.a
                    [] text = "x < b" -> st.x < st.b

Res(st, flow) == [st |-> st, flow |-> flow]

RECURSIVE Exec(_, _), ExecBlock(_, _), ExecElifs(_, _, _), While(_, _, _), ForRange(_, _, _, _), ForList(_, _, _, _)

ExecBlock(b, st) ==
  IF b = <<>> THEN Res(st, "next")
  ELSE LET r == Exec(Head(b), st) IN IF r.flow = "next" THEN ExecBlock(Tail(b), r.st) ELSE r

ExecElifs(es, orelse, st) ==
  IF es = <<>> THEN ExecBlock(orelse, st)
  ELSE IF Cond(Head(es).cond, st) THEN ExecBlock(Head(es).body, st) ELSE ExecElifs(Tail(es), orelse, st)

While(s, st, fuel) ==
  IF ~Cond(s.cond, st) THEN Res(st, "next")
  ELSE IF fuel = 0 THEN Res(st, "undef")
  ELSE LET r == ExecBlock(s.body, st) IN
       CASE r.flow \in {"next", "continue"} -> While(s, r.st, fuel - 1)
         [] r.flow = "break" -> Res(r.st, "next")
         [] OTHER -> r

ForRange(s, st, i, n) ==
  IF i >= n THEN Res(st, "next")
  ELSE LET r == ExecBlock(s.body, [st EXCEPT !.i = i]) IN
       CASE r.flow \in {"next", "continue"} -> ForRange(s, r.st, i + 1, n)
         [] r.flow = "break" -> Res(r.st, "next")
         [] OTHER -> r

ForList(s, st, k, xs) ==
  IF k > Len(xs) THEN Res(st, "next")
  ELSE LET r == ExecBlock(s.body, [st EXCEPT !.v = xs[k]]) IN
       CASE r.flow \in {"next", "continue"} -> ForList(s, r.st, k + 1, xs)
         [] r.flow = "break" -> Res(r.st, "next")
         [] OTHER -> r

Exec(s, st) ==
  CASE s.k = "assign" -> Res([st EXCEPT !.x = st.x + 1], "next")
    [] s.k = "aug" -> Res([st EXCEPT !.x = st.x + st.a], "next")
    [] s.k = "ret" -> Res(st, "return")
    [] s.k = "break" -> Res(st, "break")
    [] s.k = "continue" -> Res(st, "continue")
    [] s.k = "raise" -> Res(st, "raise")
    [] s.k = "if" -> (IF Cond(s.cond, st) THEN ExecBlock(s.body, st) ELSE ExecElifs(s.elifs, s.orelse, st))
    [] s.k = "while" -> While(s, st, Fuel)
    [] s.k = "forr" -> ForRange(s, st, 0, st.a)
    [] s.k = "forl" -> ForList(s, st, 1, st.xs)
    [] s.k = "try" -> (LET r == ExecBlock(s.body, st) IN IF r.flow = "raise" THEN ExecBlock(s.handler, r.st) ELSE r)

Args == << [a |-> 2, b |-> 3, xs |-> <<1, 2>>], [a |-> 0, b |-> 0, xs |-> <<>>], [a |-> 3, b |-> 1, xs |-> <<5>>], [a |-> 1, b |-> 1, xs |-> <<4, 4, 4>>] >>

Outcome(s, arg) ==
  LET r == Exec(s, [x |-> 0, i |-> 0, v |-> 0, a |-> arg.a, b |-> arg.b, xs |-> arg.xs]) IN
  CASE r.flow \in {"next", "return"} -> [kind |-> "return", v |-> r.st.x]
    [] r.flow = "raise" -> [kind |-> "raise", v |-> 0]
    [] r.flow = "undef" -> [kind |-> "undef", v |-> 0]
    [] OTHER -> [kind |-> "undef", v |-> 0]       \* break / continue outside a loop do not occur in the universe

\* no generated statement lets break / continue escape a loop (a syntax error in Python)
FlowWellFormed == \A s \in Stmts : \A i \in DOMAIN Args : Exec(s, [x |-> 0, i |-> 0, v |-> 0, a |-> Args[i].a, b |-> Args[i].b, xs |-> Args[i].xs]).flow \notin {"break", "continue"}

ExecCase(s) == [text |-> FuncText(s, "f"), outcomes |-> [i \in DOMAIN Args |-> Outcome(s, Args[i])]]
EmitExec == \A s \in Stmts : PrintT("EXEC " \o ToJson(ExecCase(s)))
EmitArgs == PrintT("ARGS " \o ToJson(Args))
=============================================================================
