CONSTANTS
  MaxBody = 3
  EscapedSkip = "one"
INIT Init
NEXT Next
INVARIANT QuoteAgrees
INVARIANT TypeOK
PROPERTY Progress
CHECK_DEADLOCK FALSE
