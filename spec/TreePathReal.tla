--------------------------- MODULE TreePathReal ---------------------------
(* The addressing functions of TreePath.tla evaluated on the parse trees of real modules.        *)
(* Input (env TRACE_FILE): [ [tag, kids, par, paths, order], ... ] where tag/kids/par describe    *)
(* the entry tree as walked through the Entry API (entries numbered in pre-order), `paths` is the *)
(* key sequence of ASTFinder.full_pathfy in its own order and `order` the entry each key maps to. *)
EXTENDS TreePath, IOUtils, TLCExt

Cases == JsonDeserialize(IOEnv.TRACE_FILE)
VARIABLE tid
rvars == <<tag, kids, par, phase, insts, memo, nq, op, tid>>

RInit == /\ tid \in 1..Len(Cases)
         /\ tag = Cases[tid].tag /\ kids = Cases[tid].kids /\ par = Cases[tid].par
         /\ phase = "query" /\ insts = <<>> /\ memo = {} /\ nq = 0 /\ op = [name |-> "init"]
RNext == UNCHANGED rvars

\* paths of a subtree in document order, computed top-down
RECURSIVE PathsFrom(_, _), PathsOfKids(_, _)
PathsOfKids(s, prefix) == IF s = <<>> THEN <<>> ELSE PathsFrom(Head(s), prefix \o "." \o Elem(Head(s))) \o PathsOfKids(Tail(s), prefix)
PathsFrom(n, path) == <<path>> \o PathsOfKids(kids[n], path)
SpecPaths == PathsFrom(Root, tag[Root])

\* LET binds the computed sequence once (an operator would be re-evaluated at every use)
Verdict == LET sp == SpecPaths
               cp == Cases[tid].paths
               diff == {i \in DOMAIN sp : i > Len(cp) \/ sp[i] # cp[i]}
           IN IF Len(sp) # Len(cp) THEN "length spec=" \o ToString(Len(sp)) \o " code=" \o ToString(Len(cp))
              ELSE IF diff # {} THEN LET i == CHOOSE i \in diff : \A j \in diff : i <= j IN
                                     "path #" \o ToString(i) \o " spec=" \o sp[i] \o " code=" \o cp[i]
              ELSE IF Cardinality({sp[i] : i \in DOMAIN sp}) # Len(tag) THEN "paths not pairwise distinct"
              ELSE "ok"

ASSUME TLCSet(1, 0)
Check == LET v == Verdict IN IF v = "ok" THEN TLCSet(1, TLCGet(1) + 1) ELSE PrintT("REAL-MISMATCH tree " \o ToString(tid) \o ": " \o v)
Post == IF TLCGet(1) = Len(Cases) THEN PrintT("REAL-OK " \o ToString(Len(Cases))) ELSE FALSE
=============================================================================
