----------------------------- MODULE MCErrFlow -----------------------------
EXTENDS ErrFlow
\* the wrapper table of the pinned commit had memory-parse, deps, preprocess and nodeapi unwrapped
WrappedAtPinnedCommit == [parse |-> [disk |-> TRUE, memory |-> FALSE],
                   deps |-> [disk |-> FALSE, memory |-> FALSE],
                   preprocess |-> [disk |-> FALSE, memory |-> FALSE],
                   nodeapi |-> [disk |-> FALSE, memory |-> FALSE],
                   handler |-> [disk |-> TRUE, memory |-> TRUE]]
WrappedAsCoded == [parse |-> [disk |-> TRUE, memory |-> TRUE],
                   deps |-> [disk |-> TRUE, memory |-> TRUE],          \* Modules.load (since the repair)
                   preprocess |-> [disk |-> TRUE, memory |-> TRUE],    \* Modules.load (since the repair)
                   nodeapi |-> [disk |-> TRUE, memory |-> TRUE],       \* Procedure.__exec_impl (since the repair)
                   handler |-> [disk |-> TRUE, memory |-> TRUE]]
ReportsSyntax == [disk |-> "Syntax", memory |-> "Syntax"]
WrappedAll == [s \in {"parse", "deps", "preprocess", "nodeapi", "handler"} |-> [m \in {"disk", "memory"} |-> TRUE]]
=============================================================================
