----------------------------- MODULE MCErrFlow -----------------------------
EXTENDS ErrFlow
WrappedAsCoded == [parse |-> [disk |-> TRUE, memory |-> TRUE],
                   deps |-> [disk |-> FALSE, memory |-> FALSE],
                   preprocess |-> [disk |-> FALSE, memory |-> FALSE],
                   nodeapi |-> [disk |-> FALSE, memory |-> FALSE],
                   handler |-> [disk |-> TRUE, memory |-> TRUE]]
WrappedAll == [s \in {"parse", "deps", "preprocess", "nodeapi", "handler"} |-> [m \in {"disk", "memory"} |-> TRUE]]
=============================================================================
