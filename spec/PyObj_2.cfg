CONSTANTS
  K = 2
  Few = FALSE
