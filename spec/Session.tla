------------------------------ MODULE Session ------------------------------
(***************************************************************************)
(* One long-lived tranp process: the module table (Modules), the           *)
(* entrypoint table (Entrypoints), the symbol table (SymbolDB) with its    *)
(* completed list, and the tree walker of the transpiler with its frame    *)
(* stacks - under any history of load / unload / transpile operations and  *)
(* interactive re-submissions of an in-memory main module (module/         *)
(* modules.py, providers/module.py, syntax/ast/entrypoints.py,             *)
(* semantics/reflection/db.py, bin/transpile.py Interactive,               *)
(* implements/cpp/transpiler/py2cpp.py transpile).                         *)
(*                                                                         *)
(* Sources on disk are frozen (a -> b -> c, d independent); `main` lives   *)
(* in memory and is re-submitted in variants:                              *)
(*   "ia" imports a, "id" imports d, "syn" does not parse, "pre" fails in  *)
(*   the preprocessors (symbol of an import missing), "walk" fails inside  *)
(*   the tree walk (unresolvable name).                                    *)
(* Output text is abstracted by what it is derived from: TextOf(m).        *)
(***************************************************************************)
EXTENDS Integers, Sequences, FiniteSets, TLC, Json

CONSTANTS MaxOps

Disk == {"a", "b", "c", "d"}
Mods == Disk \cup {"main"}
MainVariants == {"ia", "id", "syn", "pre", "walk"}
ImportsOf(m, mv) == CASE m = "a" -> {"b"} [] m = "b" -> {"c"} [] m = "c" -> {} [] m = "d" -> {}
                      [] m = "main" -> (IF mv = "ia" THEN {"a"} ELSE IF mv = "id" THEN {"d"} ELSE {})

VARIABLES loaded,     \* Modules table
          entry,      \* Entrypoints table
          dbm,        \* modules that have symbols in the SymbolDB
          completed,  \* SymbolDB.completed
          mainv,      \* current in-memory source of main
          mainseen,   \* variant of main the loaded main module was built from ("none" if not loaded)
          leak,       \* walker / dependency frames left behind by failed transpiles
          op
vars == <<loaded, entry, dbm, completed, mainv, mainseen, leak, op>>
View == <<loaded, entry, dbm, completed, mainv, mainseen, leak>>

RECURSIVE Closure(_, _)
Closure(m, mv) == {m} \cup UNION {Closure(d, mv) : d \in ImportsOf(m, mv)}

\* what a fresh process prints for m (function of the sources alone)
TextOf(m, mv) == [d \in Closure(m, mv) |-> IF d = "main" THEN mv ELSE "disk"]

Init == /\ loaded = {} /\ entry = {} /\ dbm = {} /\ completed = {}
        /\ mainv = "ia" /\ mainseen = "none" /\ leak = 0
        /\ op = [name |-> "init"]

\* Modules.load(m): everything in the import closure that is not yet in the module table is parsed,
\* its dependencies loaded, then preprocessed (symbols, completed)
RECURSIVE Reach(_)
Reach(m) == IF m \in loaded THEN {} ELSE {m} \cup UNION {Reach(d) : d \in ImportsOf(m, mainv)}
LoadSet(m) == Reach(m)      \* a module already in the table is returned as is: its imports are not revisited

LoadOk(m) ==
  /\ loaded' = loaded \cup LoadSet(m)
  /\ entry' = entry \cup LoadSet(m)
  /\ dbm' = dbm \cup LoadSet(m)
  /\ completed' = completed \cup LoadSet(m)
  /\ mainseen' = IF "main" \in LoadSet(m) THEN mainv ELSE mainseen

Load(m) ==
  /\ IF m = "main" /\ "main" \notin loaded /\ mainv = "syn"
     THEN \* the parse fails before anything is registered
          /\ UNCHANGED <<loaded, entry, dbm, completed, mainseen>>
          /\ op' = [name |-> "load", m |-> m, res |-> "fail"]
     ELSE IF m = "main" /\ "main" \notin loaded /\ mainv = "pre"
     THEN \* module and entrypoint are registered, then the first preprocessor raises (an imported name has no
          \* symbol): no symbol of main is stored, main is not completed
          /\ loaded' = loaded \cup {"main"} /\ entry' = entry \cup {"main"}
          /\ mainseen' = "pre"
          /\ UNCHANGED <<dbm, completed>>
          /\ op' = [name |-> "load", m |-> m, res |-> "fail"]
     ELSE /\ LoadOk(m)
          /\ op' = [name |-> "load", m |-> m, res |-> "ok"]
  /\ UNCHANGED <<mainv, leak>>

\* Modules.unload(m): removes m - and only m - from the three tables
Unload(m) ==
  /\ loaded' = loaded \ {m}
  /\ IF m \in loaded
     THEN entry' = entry \ {m} /\ dbm' = dbm \ {m} /\ completed' = completed \ {m}
     ELSE UNCHANGED <<entry, dbm, completed>>
  /\ mainseen' = IF m = "main" /\ m \in loaded THEN "none" ELSE mainseen
  /\ op' = [name |-> "unload", m |-> m, res |-> "ok"]
  /\ UNCHANGED <<mainv, leak>>

\* an editor-style reload of a module on disk: unload(m) directly followed by load(m), one step of the user.  Whatever
\* of m's imports is missing from the table is loaded with it; everything else - the dependants of m included - stays
RECURSIVE ReachIn(_, _)
ReachIn(m, L) == IF m \in L THEN {} ELSE {m} \cup UNION {ReachIn(d, L) : d \in ImportsOf(m, mainv)}
Reload(m) ==
  /\ m \in loaded /\ m \in Disk
  /\ LET R == ReachIn(m, loaded \ {m}) IN
     /\ loaded' = (loaded \ {m}) \cup R
     /\ entry' = (entry \ {m}) \cup R
     /\ dbm' = (dbm \ {m}) \cup R
     /\ completed' = (completed \ {m}) \cup R
  /\ op' = [name |-> "reload", m |-> m, res |-> "ok"]
  /\ UNCHANGED <<mainv, mainseen, leak>>

\* transpile(modules.load(m).entrypoint)
Seen(m) == IF m = "main" THEN (IF "main" \in loaded THEN mainseen ELSE mainv) ELSE "disk"
Transpile(m) ==
  /\ ~(m = "main" /\ Seen(m) \in {"syn", "pre"})      \* there is no entrypoint to hand to the transpiler
  /\ LoadOk(m)
  /\ IF m = "main" /\ Seen(m) = "walk"
     THEN /\ leak' = leak + 1     \* the walker raises: its frame and the dependency frame are not popped
          /\ op' = [name |-> "transpile", m |-> m, res |-> "fail"]
     ELSE /\ UNCHANGED leak
          /\ op' = [name |-> "transpile", m |-> m, res |-> "ok", text |-> TextOf(m, Seen(m))]
  /\ UNCHANGED mainv

\* the interactive loop: new in-memory source, unload main, load main, transpile
Resubmit(v) ==
  /\ mainv' = v
  /\ op' = [name |-> "source", v |-> v]
  /\ UNCHANGED <<loaded, entry, dbm, completed, mainseen, leak>>

Next ==
  \/ \E m \in Mods : Load(m) \/ Unload(m) \/ Transpile(m) \/ Reload(m)
  \/ \E v \in MainVariants : v # mainv /\ "main" \notin loaded /\ Resubmit(v)

Spec == Init /\ [][Next]_vars
Bounded == TLCGet("level") <= MaxOps /\ leak <= 2

-----------------------------------------------------------------------------
(* C04 *)

\* every transpile inside a history yields what a fresh process yields for the same sources
HistoryFree == [][op'.name = "transpile" /\ op'.res = "ok" => op'.text = TextOf(op'.m, IF op'.m = "main" THEN mainseen' ELSE "disk")]_vars

\* loading / unloading / transpiling m leaves the tables of every module outside m's closure untouched
Frame == [][op'.name \in {"load", "unload", "transpile", "reload"} =>
      \A n \in Mods : n \notin Closure(op'.m, mainv) =>
          (n \in loaded) = (n \in loaded') /\ (n \in entry) = (n \in entry') /\ (n \in dbm) = (n \in dbm') /\ (n \in completed) = (n \in completed')]_vars

\* unload removes exactly that module everywhere
UnloadExact == [][op'.name = "unload" =>
      /\ op'.m \notin loaded' /\ (op'.m \in loaded => op'.m \notin entry' /\ op'.m \notin dbm' /\ op'.m \notin completed')
      /\ \A n \in Mods \ {op'.m} : (n \in loaded) = (n \in loaded') /\ (n \in dbm) = (n \in dbm')]_vars

\* the tables stay in step
Coherent == /\ completed \subseteq dbm
            /\ loaded \subseteq entry

Emit == PrintT("EDGE " \o ToJson([from |-> View, op |-> op', to |-> View']))
=============================================================================
