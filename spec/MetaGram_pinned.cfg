CONSTANTS
  N = 3
  ParenFix = FALSE
  Rich = TRUE
