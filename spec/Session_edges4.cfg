CONSTANTS
  MaxOps = 4
INIT Init
NEXT Next
VIEW View
CONSTRAINT Bounded
ACTION_CONSTRAINT Emit
CHECK_DEADLOCK FALSE
