CONSTANTS
  K = 2
