------------------------------- MODULE Proc -------------------------------
(***************************************************************************)
(* The tree walker of rog-works/tranp (rogw/tranp/semantics/procedure.py,  *)
(* Procedure.exec) together with the part of the node API it relies on     *)
(* (Node.procedural / prop_keys, rogw/tranp/syntax/node/node.py).          *)
(*                                                                         *)
(* A tree node has an ordered list of expandable properties, each either   *)
(* a single child or a list of children (possibly empty).  exec(root)      *)
(* flattens the tree in post-order, and for each node pops the results of  *)
(* its children from the run's result stack - properties in reverse order, *)
(* a list property popping as many entries as the node reports children -  *)
(* hands them to the handler and pushes the handler's result.  Handlers    *)
(* may start nested runs (exec on any node) and may fail.                  *)
(*                                                                         *)
(* The tree is built by actions first (so TLC enumerates every tree up to  *)
(* the bound), then walked.  Results are node ids (identity handler), so   *)
(* "the handler receives exactly the results of its own children" is       *)
(* directly comparable.                                                    *)
(***************************************************************************)
EXTENDS Integers, Sequences, FiniteSets, TLC

CONSTANTS MaxN,      \* max nodes of a tree
          MaxP,      \* max properties per node
          MaxNest,   \* max number of nested runs started per behaviour (depth <= MaxNest too)
          MaxFail,   \* max failing handlers per behaviour
          MaxRuns    \* max top-level runs (completed or failed)

VARIABLES props,    \* props[n] = sequence of [kind |-> "single"|"list", kids |-> Seq(node)]
          phase,    \* "build" | "run" | "idle"
          stacks,   \* one result stack per run in progress (innermost last)
          frames,   \* one frame per run in progress: [root, todo, pending]
          fails,    \* failures so far
          runs,     \* completed top-level runs
          nests,    \* nested runs started so far
          op        \* label of the step just taken

vars == <<props, phase, stacks, frames, fails, runs, nests, op>>

Nodes == DOMAIN props

-----------------------------------------------------------------------------
(* Node API *)

RECURSIVE Flatten(_, _), FlatKids(_, _), FlatProps(_, _, _)
\* post-order of everything below n (n itself excluded), as Node.procedural() computes it
FlatKids(p, kids) == IF kids = <<>> THEN <<>> ELSE Flatten(p, Head(kids)) \o <<Head(kids)>> \o FlatKids(p, Tail(kids))
FlatProps(p, ps, i) == IF i > Len(ps) THEN <<>> ELSE FlatKids(p, ps[i].kids) \o FlatProps(p, ps, i + 1)
Flatten(p, n) == FlatProps(p, p[n], 1)

\* what the handler of n must receive: per property the result(s) of exactly the nodes it yields
Expected(p, n) == [i \in 1..Len(p[n]) |-> IF p[n][i].kind = "single" THEN <<p[n][i].kids[1]>> ELSE p[n][i].kids]
Arity(p, n) == LET RECURSIVE Sum(_) Sum(i) == IF i > Len(p[n]) THEN 0 ELSE Len(p[n][i].kids) + Sum(i + 1) IN Sum(1)

-----------------------------------------------------------------------------
(* Procedure.__make_event as coded: properties in reversed order; a list pops len(getattr(node, key)) *)
(* entries and reverses them; a single pops one.  Returns [ev, rest] or "underflow".                  *)

RECURSIVE PopProps(_, _, _, _)
LastN(s, k) == SubSeq(s, Len(s) - k + 1, Len(s))
DropN(s, k) == SubSeq(s, 1, Len(s) - k)
PopProps(ps, i, stack, ev) ==
  IF i = 0 THEN [ok |-> TRUE, ev |-> ev, rest |-> stack]
  ELSE LET k == IF ps[i].kind = "single" THEN 1 ELSE Len(ps[i].kids) IN
       IF Len(stack) < k THEN [ok |-> FALSE, ev |-> ev, rest |-> stack]
       ELSE PopProps(ps, i - 1, DropN(stack, k), [ev EXCEPT ![i] = LastN(stack, k)])

MakeEvent(p, n, stack) == PopProps(p[n], Len(p[n]), stack, [i \in 1..Len(p[n]) |-> <<>>])

-----------------------------------------------------------------------------
Init == /\ props = <<<<>>>>          \* node 1 = root, no properties
        /\ phase = "build"
        /\ stacks = <<>>
        /\ frames = <<>>
        /\ fails = 0
        /\ runs = 0
        /\ nests = 0
        /\ op = [name |-> "init"]

(* tree construction *)
NewId == Len(props) + 1

AddSingle(p) ==
  /\ phase = "build" /\ NewId <= MaxN /\ Len(props[p]) < MaxP
  /\ props' = Append([props EXCEPT ![p] = Append(@, [kind |-> "single", kids |-> <<NewId>>])], <<>>)
  /\ op' = [name |-> "build"]
  /\ UNCHANGED <<phase, stacks, frames, fails, runs, nests>>

AddEmptyList(p) ==
  /\ phase = "build" /\ Len(props[p]) < MaxP
  /\ props' = [props EXCEPT ![p] = Append(@, [kind |-> "list", kids |-> <<>>])]
  /\ op' = [name |-> "build"]
  /\ UNCHANGED <<phase, stacks, frames, fails, runs, nests>>

AddToList(p) ==
  /\ phase = "build" /\ NewId <= MaxN /\ Len(props[p]) > 0 /\ props[p][Len(props[p])].kind = "list"
  /\ props' = Append([props EXCEPT ![p][Len(props[p])].kids = Append(@, NewId)], <<>>)
  /\ op' = [name |-> "build"]
  /\ UNCHANGED <<phase, stacks, frames, fails, runs, nests>>

(* Procedure.exec: push a fresh stack, flatten *)
Frame(root) == [root |-> root, todo |-> Flatten(props, root) \o <<root>>, pending |-> 0, pbefore |-> 0]

ExecTop(root) ==
  /\ phase \in {"build", "idle"} /\ runs + fails < MaxRuns
  /\ phase' = "run"
  /\ stacks' = Append(stacks, <<>>)          \* on top of whatever an earlier failed run left behind
  /\ frames' = Append(frames, Frame(root))
  /\ op' = [name |-> "begin", root |-> root, depth |-> Len(stacks) + 1]
  /\ UNCHANGED <<props, fails, runs, nests>>

Top == Len(frames)
Cur == frames[Top]
S == Len(stacks)          \* the code always works on the last stack (stacks[-1]); leaked stacks lie below

\* the handler of the next node is invoked: event made from the stack
\* outcome "plain": result pushed at once; "nest": the handler starts a run of its own (it stays pending until
\* HandlerReturn and may start further runs with NestMore); "fail": the handler raises
Process(outcome, sub) ==
  /\ phase = "run" /\ Cur.pending = 0 /\ Cur.todo # <<>>
  /\ LET n == Head(Cur.todo)
         me == MakeEvent(props, n, stacks[S])
     IN /\ me.ok      \* an underflow is Errors.Logic; unreachable (invariant NeverUnderflow)
        /\ CASE outcome = "plain" ->
                  /\ stacks' = [stacks EXCEPT ![S] = Append(me.rest, n)]
                  /\ frames' = [frames EXCEPT ![Top].todo = Tail(@)]
                  /\ UNCHANGED <<fails, phase, nests>>
             [] outcome = "nest" ->
                  /\ nests < MaxNest
                  /\ nests' = nests + 1
                  /\ stacks' = Append([stacks EXCEPT ![S] = me.rest], <<>>)
                  /\ frames' = Append([frames EXCEPT ![Top].pending = n, ![Top].pbefore = Len(stacks[S])], Frame(sub))
                  /\ UNCHANGED <<fails, phase>>
             [] outcome = "fail" ->
                  \* the exception unwinds every run in progress; exec does not pop its stack on that path
                  /\ fails < MaxFail
                  /\ fails' = fails + 1
                  /\ stacks' = [stacks EXCEPT ![S] = me.rest]
                  /\ frames' = <<>>
                  /\ phase' = "idle"
                  /\ UNCHANGED nests
        /\ op' = [name |-> "event", n |-> n, ev |-> me.ev, before |-> Len(stacks[S]), consumed |-> Len(me.rest),
                  depth |-> S, outcome |-> outcome, sub |-> sub]
  /\ UNCHANGED <<props, runs>>

\* a pending handler starts one more run of its own
NestMore(sub) ==
  /\ phase = "run" /\ Cur.pending # 0 /\ nests < MaxNest
  /\ nests' = nests + 1
  /\ stacks' = Append(stacks, <<>>)
  /\ frames' = Append(frames, Frame(sub))
  /\ op' = [name |-> "nestmore", n |-> Cur.pending, sub |-> sub, depth |-> S]
  /\ UNCHANGED <<props, phase, fails, runs>>

\* a pending handler returns: its result is pushed onto its own run's stack
HandlerReturn ==
  /\ phase = "run" /\ Cur.pending # 0
  /\ stacks' = [stacks EXCEPT ![S] = Append(@, Cur.pending)]
  /\ frames' = [frames EXCEPT ![Top].pending = 0, ![Top].todo = Tail(@)]
  /\ op' = [name |-> "return", n |-> Cur.pending, before |-> Cur.pbefore, consumed |-> Len(stacks[S]), depth |-> S]
  /\ UNCHANGED <<props, phase, fails, runs, nests>>

\* a run has processed all its nodes: exactly one result must be left; it goes to the caller
ExecEnd ==
  /\ phase = "run" /\ Cur.pending = 0 /\ Cur.todo = <<>>
  /\ LET result == stacks[S] IN
     /\ op' = [name |-> "end", root |-> Cur.root, result |-> result, depth |-> S, nested |-> Top > 1]
     /\ frames' = SubSeq(frames, 1, Top - 1)
     /\ stacks' = SubSeq(stacks, 1, S - 1)
     /\ IF Top > 1
        THEN UNCHANGED <<phase, runs>>     \* back in the handler that started this run
        ELSE phase' = "idle" /\ runs' = runs + 1
  /\ UNCHANGED <<props, fails, nests>>

Next ==
  \/ \E p \in Nodes : AddSingle(p) \/ AddEmptyList(p) \/ AddToList(p)
  \/ \E r \in Nodes : ExecTop(r)
  \/ Process("plain", 0) \/ Process("fail", 0)
  \/ \E s \in Nodes : Process("nest", s) \/ NestMore(s)
  \/ HandlerReturn
  \/ ExecEnd

Spec == Init /\ [][Next]_vars

-----------------------------------------------------------------------------
(* C09 *)

\* for each declared child property the handler gets precisely the results of the nodes it yields,
\* singles and lists distinguished (a single is a 1-element sequence here, Expected marks the kind), order kept
EventIsChildren == [][op'.name = "event" => op'.ev = Expected(props, op'.n)]_vars

\* a node consumes exactly its own children's results: nothing of a sibling subtree is taken or left
NoSiblingLeak == [][op'.name = "event" => op'.before - op'.consumed = Arity(props, op'.n)]_vars

\* a run ends with exactly one result: the root's
OneResult == [][op'.name = "end" => op'.result = <<op'.root>>]_vars

\* a nested run started from inside a handler does not disturb the runs below it
NestedTransparent == [][\A i \in 1..Len(stacks) : (i < Len(stacks) /\ i < Len(stacks')) => stacks'[i] = stacks[i]]_vars
\* ... and when it ends, the outer run's stack is exactly what it was when the nested run began
NestedReturns == [][(op'.name = "end" /\ op'.nested) => stacks' = SubSeq(stacks, 1, S - 1)]_vars
\* the handler that nested pushes one result, as any other
ReturnPushesOne == [][op'.name = "return" => op'.before - op'.consumed = Arity(props, op'.n)
                                              /\ stacks'[S] = Append(stacks[S], op'.n)]_vars

\* the pops never run into an empty stack (Errors.Logic 'Stack is empty' is unreachable for well-formed trees)
NeverUnderflow == phase = "run" /\ Top > 0 /\ Cur.pending = 0 /\ Cur.todo # <<>> => MakeEvent(props, Head(Cur.todo), stacks[S]).ok

\* stack discipline: the run's stack holds the results of the processed nodes whose parent is still to come
TypeOK == /\ Len(stacks) >= Len(frames)
          /\ phase \in {"build", "run", "idle"}

\* a run started after a failed one sees a fresh stack (frames leaked by the failure stay below, untouched)
FreshAfterFailure == [][op'.name = "begin" => stacks'[Len(stacks')] = <<>> /\ SubSeq(stacks', 1, Len(stacks)) = stacks]_vars

Bounded == TLCGet("level") <= 60
=============================================================================
