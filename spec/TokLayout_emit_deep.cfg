CONSTANTS
  MaxLines = 5
  MaxInd = 3
  Pool <- DeepPool
  MaxRewrites = 1
INIT Init
NEXT Next
INVARIANT EmitCase
CHECK_DEADLOCK FALSE
