CONSTANTS
  Mods <- TwinsMods
  Imports <- TwinsImports
  Targets <- TwinsTargets
  Variants <- V2
  BodyOf <- Body2
  MaxOps = 4
  MaxT = 0
  AstHash = TRUE
  MaxTorn = 1
  TransitiveKey = FALSE
  DeepHeader = FALSE
  StoreGated = TRUE
  WithCache = TRUE
  WithOutputs = FALSE
INIT TwinsInit
NEXT TwinsNext
VIEW View
CONSTRAINT Bounded
ACTION_CONSTRAINT Emit
CHECK_DEADLOCK FALSE
