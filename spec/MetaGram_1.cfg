CONSTANTS
  N = 1
  ParenFix = TRUE
  Rich = TRUE
