------------------------------- MODULE PyStmt -------------------------------
(***************************************************************************)
(* Source model, statement layer: statement skeletons of the supported     *)
(* subset with their concrete text (tab indentation, one statement per     *)
(* line) and their canonical structure - what CPython's ast says about     *)
(* block nesting, elif / else binding, loop bodies, try / except - and     *)
(* definition shapes (functions, methods, class methods, constructors,     *)
(* properties, closures, parameters with defaults, decorators, bases,      *)
(* class / instance / local variable declarations - PEP 526 convention: a  *)
(* class-level annotation is an instance field unless marked ClassVar) with  *)
(* the classification                                                        *)
(* Python's semantics dictates for each.                                   *)
(*                                                                         *)
(* Universe: every compound statement of nesting depth 1 over small blocks,*)
(* and every such statement placed into each of the 8 block contexts       *)
(* (if / elif / else-after-elif / else / while / for / try / except body). *)
(***************************************************************************)
EXTENDS Integers, Sequences, FiniteSets, TLC, Json

\* ---- simple statements (representatives; inside loops break / continue exist)
Assign == [k |-> "assign", text |-> "x = x + 1"]
Aug == [k |-> "aug", text |-> "x += a"]
Ret == [k |-> "ret", text |-> "return x"]
Brk == [k |-> "break", text |-> "break"]
Cont == [k |-> "continue", text |-> "continue"]
Rais == [k |-> "raise", text |-> "raise RuntimeError('m')"]
Simple(L) == IF L THEN {Assign, Brk, Cont} ELSE {Assign, Ret, Rais}
Block0(L) == {<<s>> : s \in Simple(L)} \cup {<<Aug, Assign>>}

Conds == <<"a > 0", "b == a", "x < b">>

\* ---- compound statements of depth 1
If(c, body, elifs, orelse) == [k |-> "if", cond |-> c, body |-> body, elifs |-> elifs, orelse |-> orelse]
S1(L) ==
  Simple(L)
  \cup {If(Conds[1], b, <<>>, <<>>) : b \in Block0(L)}
  \cup {If(Conds[1], b, <<>>, e) : b \in Block0(L), e \in Block0(L)}
  \cup {If(Conds[1], b, <<[cond |-> Conds[2], body |-> b2]>>, <<>>) : b \in Block0(L), b2 \in Block0(L)}
  \cup {If(Conds[1], b, <<[cond |-> Conds[2], body |-> b2]>>, e) : b \in Block0(L), b2 \in Block0(L), e \in Block0(L)}
  \cup {[k |-> "while", cond |-> Conds[3], body |-> b] : b \in Block0(TRUE)}
  \cup {[k |-> "forr", target |-> "i", iter |-> "range(a)", body |-> b] : b \in Block0(TRUE)}
  \cup {[k |-> "forl", target |-> "v", iter |-> "xs", body |-> b] : b \in Block0(TRUE)}
  \cup {[k |-> "try", body |-> b, etype |-> "RuntimeError", ename |-> "e", handler |-> h] : b \in Block0(L), h \in Block0(L)}

\* ---- depth 2: a depth-1 statement inside each block context
Ctxs == {"if-body", "if-else", "elif-body", "else-after-elif", "while-body", "for-body", "try-body", "except-body"}
InLoop(c) == c \in {"while-body", "for-body"}
Wrap(c, s) ==
  CASE c = "if-body" -> If(Conds[1], <<s>>, <<>>, <<>>)
    [] c = "if-else" -> If(Conds[1], <<Assign>>, <<>>, <<s>>)
    [] c = "elif-body" -> If(Conds[1], <<Assign>>, <<[cond |-> Conds[2], body |-> <<s>>]>>, <<>>)
    [] c = "else-after-elif" -> If(Conds[1], <<Assign>>, <<[cond |-> Conds[2], body |-> <<Aug>>]>>, <<s>>)
    [] c = "while-body" -> [k |-> "while", cond |-> Conds[3], body |-> <<s, Aug>>]
    [] c = "for-body" -> [k |-> "forr", target |-> "i", iter |-> "range(a)", body |-> <<s>>]
    [] c = "try-body" -> [k |-> "try", body |-> <<s>>, etype |-> "RuntimeError", ename |-> "e", handler |-> <<Assign>>]
    [] c = "except-body" -> [k |-> "try", body |-> <<Assign>>, etype |-> "RuntimeError", ename |-> "e", handler |-> <<s>>]

Compound(s) == s.k \in {"if", "while", "forr", "forl", "try"}
Stmts == {s \in S1(FALSE) : Compound(s)} \cup UNION {{Wrap(c, s) : s \in {t \in S1(InLoop(c)) : Compound(t)}} : c \in Ctxs}

\* ---- text
RECURSIVE Tabs(_), Lines(_, _), BlockLines(_, _)
Tabs(n) == IF n = 0 THEN "" ELSE "\t" \o Tabs(n - 1)
BlockLines(b, ind) == IF b = <<>> THEN <<>> ELSE Lines(Head(b), ind) \o BlockLines(Tail(b), ind)
RECURSIVE ElifLines(_, _)
ElifLines(es, ind) == IF es = <<>> THEN <<>>
                      ELSE <<Tabs(ind) \o "elif " \o Head(es).cond \o ":">> \o BlockLines(Head(es).body, ind + 1) \o ElifLines(Tail(es), ind)
Lines(s, ind) ==
  CASE s.k \in {"assign", "aug", "ret", "break", "continue", "raise"} -> <<Tabs(ind) \o s.text>>
    [] s.k = "if" -> <<Tabs(ind) \o "if " \o s.cond \o ":">> \o BlockLines(s.body, ind + 1) \o ElifLines(s.elifs, ind)
                     \o (IF s.orelse = <<>> THEN <<>> ELSE <<Tabs(ind) \o "else:">> \o BlockLines(s.orelse, ind + 1))
    [] s.k = "while" -> <<Tabs(ind) \o "while " \o s.cond \o ":">> \o BlockLines(s.body, ind + 1)
    [] s.k \in {"forr", "forl"} -> <<Tabs(ind) \o "for " \o s.target \o " in " \o s.iter \o ":">> \o BlockLines(s.body, ind + 1)
    [] s.k = "try" -> <<Tabs(ind) \o "try:">> \o BlockLines(s.body, ind + 1)
                      \o <<Tabs(ind) \o "except " \o s.etype \o " as " \o s.ename \o ":">> \o BlockLines(s.handler, ind + 1)
RECURSIVE JoinLines(_)
JoinLines(ls) == IF ls = <<>> THEN "" ELSE Head(ls) \o "\n" \o JoinLines(Tail(ls))
FuncText(s, name) == "def " \o name \o "(a: int, b: int, xs: list[int]) -> int:\n\tx = 0\n" \o JoinLines(Lines(s, 1)) \o "\treturn x\n"

\* ---- canonical structure (elif = an `if` that is the only statement of the else branch, as in CPython's ast)
RECURSIVE Canon(_), CanonBlock(_), CanonElifs(_, _)
CanonBlock(b) == [i \in DOMAIN b |-> Canon(b[i])]
CanonElifs(es, orelse) == IF es = <<>> THEN CanonBlock(orelse)
                          ELSE <<[k |-> "if", cond |-> Head(es).cond, body |-> CanonBlock(Head(es).body), orelse |-> CanonElifs(Tail(es), orelse)]>>
Canon(s) ==
  CASE s.k \in {"assign", "aug", "ret", "break", "continue", "raise"} -> [k |-> s.k, text |-> s.text]
    [] s.k = "if" -> [k |-> "if", cond |-> s.cond, body |-> CanonBlock(s.body), orelse |-> CanonElifs(s.elifs, s.orelse)]
    [] s.k = "while" -> [k |-> "while", cond |-> s.cond, body |-> CanonBlock(s.body)]
    [] s.k \in {"forr", "forl"} -> [k |-> "for", target |-> s.target, iter |-> s.iter, body |-> CanonBlock(s.body)]
    [] s.k = "try" -> [k |-> "try", body |-> CanonBlock(s.body), etype |-> s.etype, ename |-> s.ename, handler |-> CanonBlock(s.handler)]

\* the number of lines equals the number of statements and clause headers: one statement per line (used for C16)
RECURSIVE Count(_), CountBlock(_)
CountBlock(b) == IF b = <<>> THEN 0 ELSE Count(Head(b)) + CountBlock(Tail(b))
RECURSIVE CountElifs(_)
CountElifs(es) == IF es = <<>> THEN 0 ELSE 1 + CountBlock(Head(es).body) + CountElifs(Tail(es))
Count(s) == CASE s.k = "if" -> 1 + CountBlock(s.body) + CountElifs(s.elifs) + (IF s.orelse = <<>> THEN 0 ELSE 1 + CountBlock(s.orelse))
              [] s.k \in {"while", "forr", "forl"} -> 1 + CountBlock(s.body)
              [] s.k = "try" -> 2 + CountBlock(s.body) + CountBlock(s.handler)
              [] OTHER -> 1
OneStatementPerLine == \A s \in Stmts : Len(Lines(s, 1)) = Count(s)

-----------------------------------------------------------------------------
(* definition shapes and the classification Python's semantics dictates *)
DefCases == <<
  [id |-> "function", text |-> "def f(a: int, b: int = 1) -> int:\n\treturn a\n",
   expect |-> [f |-> "Function"], params |-> <<<<"a", "int", "">>, <<"b", "int", "1">>>>],
  [id |-> "closure", text |-> "def f(a: int) -> int:\n\tdef g(b: int) -> int:\n\t\treturn a + b\n\treturn g(1)\n",
   expect |-> [f |-> "Function", g |-> "Closure"], params |-> <<<<"a", "int", "">>>>],
  [id |-> "method-kinds", text |-> "class A:\n\tn: int\n\tdef __init__(self, n: int) -> None:\n\t\tself.n = n\n\tdef m(self, k: int = 2) -> int:\n\t\treturn self.n + k\n\t@classmethod\n\tdef c(cls) -> int:\n\t\treturn 1\n\t@property\n\tdef p(self) -> int:\n\t\treturn self.n\n",
   expect |-> [A |-> "Class", __init__ |-> "Constructor", m |-> "Method", c |-> "ClassMethod", p |-> "Method"], params |-> <<>>],
  [id |-> "closure-in-method", text |-> "class A:\n\tdef m(self, k: int) -> int:\n\t\tdef h(j: int) -> int:\n\t\t\treturn j + k\n\t\treturn h(k)\n",
   expect |-> [A |-> "Class", m |-> "Method", h |-> "Closure"], params |-> <<>>],
  [id |-> "init-outside-class", text |-> "def __init__(a: int) -> int:\n\treturn a\n",
   expect |-> [__init__ |-> "Function"], params |-> <<<<"a", "int", "">>>>],
  [id |-> "inheritance", text |-> "class B:\n\tdef m(self) -> int:\n\t\treturn 1\nclass D(B):\n\tdef m(self) -> int:\n\t\treturn 2\n",
   expect |-> [B |-> "Class", D |-> "Class", m |-> "Method"], params |-> <<>>],
  [id |-> "enum", text |-> "from enum import Enum\nclass E(Enum):\n\tX = 1\n\tY = 2\n",
   expect |-> [E |-> "Enum"], params |-> <<>>],
  [id |-> "function-in-class-in-function", text |-> "def outer() -> int:\n\tclass L:\n\t\tdef m(self) -> int:\n\t\t\treturn 1\n\treturn L().m()\n",
   expect |-> [outer |-> "Function", L |-> "Class", m |-> "Method"], params |-> <<>>],
  [id |-> "declarations", text |-> "class A:\n\tcv: ClassVar[int] = 0\n\ttv: str\n\tdef __init__(self, p: int) -> None:\n\t\tself.tv = ''\n\t\tlv = p\n\t\tfor it in range(p):\n\t\t\tlv = it\n",
   expect |-> [A |-> "Class", __init__ |-> "Constructor"], params |-> <<>>,
   decls |-> [cv |-> "DeclClassVar", tv |-> "DeclThisVarForward", p |-> "DeclParam", lv |-> "DeclLocalVar", it |-> "DeclLocalVar", self |-> "DeclThisParam"]]
>>

\* programs exercising every grammar alternative with an EMPTY optional slot or an anonymous kept token: the
\* stored form of a tree (C15) must preserve the placeholders and their order
OptionalSlots == <<
  "def f() -> None:\n\treturn\n",
  "def f(a: int, b: int = 1) -> int:\n\treturn a\n",
  "class A:\n\tpass\n",
  "class A(B, C):\n\tpass\n",
  "def f(a: int) -> int:\n\tif a > 0:\n\t\treturn 1\n\treturn 0\n",
  "def f(xs: list[int]) -> list[int]:\n\treturn xs[1:]\n",
  "def f(xs: list[int]) -> list[int]:\n\treturn xs[:2]\n",
  "def f(xs: list[int]) -> list[int]:\n\treturn xs[::2]\n",
  "def f(xs: list[int]) -> list[int]:\n\treturn xs[1:2:3]\n",
  "x = []\ny = {}\nz = ()\n",
  "x = [1, 2,]\ny = {'a': 1,}\nz = (1,)\n",
  "def f(a: int) -> int:\n\t'''doc'''\n\treturn a\n",
  "def f(*args: int, **kwargs: str) -> None:\n\tpass\n",
  "@deco\ndef f() -> None:\n\tpass\n",
  "@deco(1, k=2)\nclass A:\n\tn: int\n",
  "x: int = 0\ny: str\n",
  "from a.b import c, d as e\nimport os\n",
  "def f(a: int) -> int:\n\ttry:\n\t\treturn a\n\texcept ValueError:\n\t\treturn 0\n",
  "def f(a: int) -> int:\n\tfor i in range(a):\n\t\tpass\n\telse:\n\t\tpass\n\treturn a\n",
  "x = lambda: 1\ny = lambda a, b: a\n",
  "def f(d: dict[str, int]) -> list[str]:\n\treturn [k for k in d]\n",
  "def f(d: dict[str, int]) -> dict[str, int]:\n\treturn {k: v for k, v in d.items() if v}\n",
  "x = a if b else c\ny = not a\nz = -a\n",
  "def f(a: int) -> None:\n\traise\n",
  "def f() -> None:\n\tg(1, *xs, k=2, **kw)\n",
  "x = a.b.c(1)[2].d\n",
  "# comment only\nx = 1  # trailing\n",
  "x = 'a' \"b\"\n"
>>
EmitSlots == \A i \in DOMAIN OptionalSlots : PrintT("SLOT " \o ToJson([id |-> i, text |-> OptionalSlots[i]]))

Case(s) == [text |-> FuncText(s, "f"), canon |-> Canon(s), lines |-> Count(s)]
Emit == \A s \in Stmts : PrintT("STMT " \o ToJson(Case(s)))
EmitDefs == \A i \in DOMAIN DefCases : PrintT("DEF " \o ToJson(DefCases[i]))
=============================================================================
