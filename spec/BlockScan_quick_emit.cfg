CONSTANTS
  QuoteFix = TRUE
  MaxSteps = 4
INIT Init
NEXT Next
INVARIANT EmitCase
CHECK_DEADLOCK FALSE
