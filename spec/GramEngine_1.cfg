CONSTANTS
  N = 1
  ParenFix = TRUE
  Rich = FALSE
  MaxLen = 2
  RegexMatch <- SmallRegexMatch
