CONSTANTS
  K = 2
  Few = TRUE
