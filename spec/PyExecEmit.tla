----------------------------- MODULE PyExecEmit -----------------------------
EXTENDS PyExec
ASSUME FlowWellFormed
ASSUME EmitArgs
ASSUME EmitExec
=============================================================================
