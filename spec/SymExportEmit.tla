---------------------------- MODULE SymExportEmit ----------------------------
EXTENDS SymExport
ASSUME RebuildFlatten
ASSUME ImportNeverDangling
ASSUME Emit
ASSUME PrintT("FORESTS " \o ToString(Cardinality(Forests)) \o " TABLES " \o ToString(Cardinality(Tables)))
=============================================================================
