---------------------------- MODULE SymExportEmit ----------------------------
EXTENDS SymExport
ASSUME RebuildFlatten
ASSUME ImportNeverDangling
ASSUME Emit
ASSUME WideRebuildFlatten
ASSUME TypesDoNotDetermineShape
ASSUME IF ViaFree THEN TRUE ELSE EmitWide
ASSUME CompletedWhateverTheRows
ASSUME IF ViaFree THEN TRUE ELSE EmitCompositions
ASSUME IF ViaFree THEN TRUE ELSE EmitTables
ASSUME PrintT("FORESTS " \o ToString(Cardinality(Forests)) \o " TABLES " \o ToString(Cardinality(Tables)))
=============================================================================
