CONSTANTS
  N = 3
  ParenFix = TRUE
  Rich = FALSE
  MaxLen = 2
  RegexMatch <- SmallRegexMatch
