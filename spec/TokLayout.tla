----------------------------- MODULE TokLayout -----------------------------
(***************************************************************************)
(* Lexical layout of Python source as tranp's own tokenizer must see it    *)
(* (rogw/tranp/implements/syntax/tranp/tokenizer.py: Lexer, Tokenizer;     *)
(* token.py: SourceMap).                                                   *)
(*                                                                         *)
(* A program is a sequence of logical lines built by actions: an           *)
(* indentation level and a body taken from a pool (simple statements, block*)
(* openers ending in ':', statements with a bracket that spans two physical*)
(* lines, strings with escapes / raw / triple quotes, unary minus, combined*)
(* operators).  Indentation is valid by construction (one level deeper     *)
(* exactly after a block opener).  The SIGNIFICANT token sequence Sig is a *)
(* function of the program alone: lexemes, NEWLINE after each logical line,*)
(* INDENT / DEDENT on level changes, DEDENTs at the end - Python's rules.  *)
(*                                                                         *)
(* A layout decorates the program without changing Sig: indent unit (tab / *)
(* 2 / 4 / 8 blanks), blank lines, comment-only lines, trailing comments,  *)
(* trailing blanks, blanks around operators, indentation of the bracket    *)
(* continuation line, backslash continuation.  Rewrite actions change one  *)
(* layout element; LayoutInsensitive says Sig does not move.  Text(…) is   *)
(* the concrete source; the harness feeds it to the real tokenizer (and to *)
(* CPython's tokenize as referee).                                         *)
(***************************************************************************)
EXTENDS Integers, Sequences, FiniteSets, TLC, Json

CONSTANTS MaxLines, MaxInd, MaxRewrites,
          Pool           \* the bodies lines are drawn from (all of them, or few for deeper programs)

\* lexeme = <<class, text, glue>>; glue "b" = binary operator (blanks around it are optional), "u" = unary minus
\* (nothing may follow it but its operand), "" = ordinary
N(s) == <<"name", s, "">>
I(s) == <<"number", s, "">>
S(s) == <<"string", s, "">>
O(s) == <<"op", s, "">>
B(s) == <<"op", s, "b">>
U == <<"op", "-", "u">>

\* bodies: [kind, lex (first physical line), rest (second physical line, inside an open bracket)]
Bodies == <<
  [kind |-> "simple", lex |-> <<N("a"), B("="), I("1")>>, rest |-> <<>>],
  [kind |-> "simple", lex |-> <<N("b"), B("-="), U, I("2.5")>>, rest |-> <<>>],
  [kind |-> "simple", lex |-> <<N("f"), O("("), N("a"), O(","), S("'x'"), O(")")>>, rest |-> <<>>],
  [kind |-> "block",  lex |-> <<N("if"), N("a"), O(":")>>, rest |-> <<>>],
  [kind |-> "block",  lex |-> <<N("while"), N("b"), B(">="), I("10"), O(":")>>, rest |-> <<>>],
  [kind |-> "simple", lex |-> <<N("c"), B("="), O("["), I("1"), O(",")>>, rest |-> <<I("2"), O("]")>>],
  [kind |-> "simple", lex |-> <<N("s"), B("="), S("\"x\\\"y\""), B("+"), S("r'\\d'"), B("+"), S("\"\"\"t\"\"\"")>>, rest |-> <<>>],
  [kind |-> "simple", lex |-> <<N("d"), B("="), O("{"), S("'k'"), O(":"), N("a"), B("**"), I("2"), O(",")>>, rest |-> <<S("'j'"), O(":"), O("("), N("a"), B("<<"), I("1"), O(")"), B("!="), I("0"), O("}")>>],
  [kind |-> "block",  lex |-> <<N("def"), N("g"), O("("), N("x"), O(":"), N("int"), O(")"), B("->"), N("int"), O(":")>>, rest |-> <<>>],
  [kind |-> "simple", lex |-> <<N("return"), N("x"), B("-"), I("1"), N("if"), N("x"), N("and"), N("not"), N("y"), N("else"), U, N("x")>>, rest |-> <<>>],
  [kind |-> "simple", lex |-> <<N("e"), B("="), S("\"x\\\\\""), B("+"), S("'y\\''"), B("%"), N("a")>>, rest |-> <<>>],
  \* raw strings: a backslash still keeps the following quote inside the literal; an even run of backslashes does not
  [kind |-> "simple", lex |-> <<N("w"), B("="), S("r\"x\\\"y\""), B("+"), S("r'[\\'\\\"]'"), B("+"), S("r\"\\\\\"")>>, rest |-> <<>>]
>>

AllBodies == 1..Len(Bodies)
\* an assignment, the two block openers and the bracket that spans two lines: enough to close several blocks at once
DeepPool == {1, 4, 5, 6}

VARIABLES prog,     \* sequence of [ind, body]
          layout,   \* [unit, blank, cline, tcomment, trail, tight, contind, bslash]
          nrw, phase
vars == <<prog, layout, nrw, phase>>

Units == {"\t", "  ", "    ", "        "}
Canon == [unit |-> "\t", blank |-> {}, cline |-> {}, tcomment |-> {}, trail |-> {}, tight |-> FALSE, contind |-> 1, bslash |-> {},
          blankfill |-> "", cind |-> " ", eol |-> "\n", final |-> TRUE, cbare |-> FALSE]
\* what a blank line may carry, where a comment line may start (neither is a multiple of any indent unit in general)
Fills == {"   ", "\t\t\t"}
CommentIndents == {"", "\t\t\t", "          "}

Init == prog = <<>> /\ layout = Canon /\ nrw = 0 /\ phase = "build"

KindOf(l) == Bodies[l.body].kind
AddLine(ind, b) ==
  /\ phase = "build" /\ Len(prog) < MaxLines
  /\ IF prog = <<>> THEN ind = 0
     ELSE LET p == prog[Len(prog)] IN IF KindOf(p) = "block" THEN ind = p.ind + 1 ELSE ind <= p.ind
  /\ prog' = Append(prog, [ind |-> ind, body |-> b])
  /\ UNCHANGED <<layout, nrw, phase>>
\* a program is complete when its last line is not a block opener
Finish == phase = "build" /\ prog # <<>> /\ KindOf(prog[Len(prog)]) # "block" /\ phase' = "layout" /\ UNCHANGED <<prog, layout, nrw>>

Toggle(Z, x) == IF x \in Z THEN Z \ {x} ELSE Z \cup {x}
Rewrite(f, v) ==
  /\ phase = "layout" /\ nrw < MaxRewrites
  /\ nrw' = nrw + 1
  /\ layout' = CASE f = "unit" -> [layout EXCEPT !.unit = v]
                 [] f = "blank" -> [layout EXCEPT !.blank = Toggle(@, v)]
                 [] f = "cline" -> [layout EXCEPT !.cline = Toggle(@, v)]
                 [] f = "tcomment" -> [layout EXCEPT !.tcomment = Toggle(@, v)]
                 [] f = "trail" -> [layout EXCEPT !.trail = Toggle(@, v)]
                 [] f = "tight" -> [layout EXCEPT !.tight = ~@]
                 [] f = "contind" -> [layout EXCEPT !.contind = v]
                 [] f = "bslash" -> [layout EXCEPT !.bslash = Toggle(@, v)]
                 [] f = "blankfill" -> [layout EXCEPT !.blankfill = v]
                 [] f = "cind" -> [layout EXCEPT !.cind = v]
                 [] f = "eol" -> [layout EXCEPT !.eol = v]
                 [] f = "final" -> [layout EXCEPT !.final = ~@]
                 [] f = "cbare" -> [layout EXCEPT !.cbare = ~@]
  /\ layout' # layout
  /\ UNCHANGED <<prog, phase>>

Next ==
  \/ \E ind \in 0..MaxInd, b \in Pool : AddLine(ind, b)
  \/ Finish
  \/ \E u \in Units : Rewrite("unit", u)
  \/ \E i \in 1..Len(prog) : \E f \in {"blank", "cline", "tcomment", "trail"} : Rewrite(f, i)
     \* "bslash" (backslash continuation) is defined above but not explored: it is outside C13's quantifier and
     \* tranp's lexer does not accept it at all (a backslash outside a string has no token domain)
  \/ Rewrite("tight", 0)
  \/ \E k \in {0, 3} : Rewrite("contind", k)
  \* blanks on blank lines and the indentation of comment lines only show when there is such a line
  \/ layout.blank # {} /\ \E w \in Fills : Rewrite("blankfill", w)
  \/ layout.cline # {} /\ \E w \in CommentIndents : Rewrite("cind", w)
  \/ Rewrite("eol", "\r\n")
  \* a comment may be empty: the bare number sign, on a line of its own or after code
  \/ (layout.cline # {} \/ layout.tcomment # {}) /\ Rewrite("cbare", 0)
  \/ Rewrite("final", 0)

-----------------------------------------------------------------------------
(* Sig: the significant token sequence - a function of the program alone *)
Tok(x) == [c |-> x[1], s |-> x[2]]
Lexemes(l) == Bodies[l.body].lex \o Bodies[l.body].rest
RECURSIVE Rep(_, _)
Rep(x, n) == IF n <= 0 THEN <<>> ELSE <<x>> \o Rep(x, n - 1)
NL == [c |-> "newline", s |-> ""]
IND == [c |-> "indent", s |-> ""]
DED == [c |-> "dedent", s |-> ""]
RECURSIVE SigFrom(_, _, _)
SigFrom(p, i, prev) ==
  IF i > Len(p) THEN Rep(DED, prev)
  ELSE LET l == p[i]
           moves == IF l.ind > prev THEN <<IND>> ELSE Rep(DED, prev - l.ind)
       IN moves \o [k \in 1..Len(Lexemes(l)) |-> Tok(Lexemes(l)[k])] \o <<NL>> \o SigFrom(p, i + 1, l.ind)
Sig(p) == SigFrom(p, 1, 0)

\* indents and dedents always balance
Balanced(p) == Cardinality({i \in DOMAIN Sig(p) : Sig(p)[i].c = "indent"}) = Cardinality({i \in DOMAIN Sig(p) : Sig(p)[i].c = "dedent"})

-----------------------------------------------------------------------------
(* Text: the concrete source for a program under a layout *)
RECURSIVE Cat(_)
Cat(ss) == IF ss = <<>> THEN "" ELSE ss[1] \o Cat(Tail(ss))
Indent(n, unit) == Cat(Rep(unit, n))

\* lexemes of one physical line joined: binary operators get blanks unless tight; a blank separates two
\* word-like lexemes; nothing follows a unary minus; no blank before , : ) ] } and after ( [ {
Wordy(x) == x[1] \in {"name", "number", "string"}
RECURSIVE JoinLex(_, _, _)
JoinLex(xs, i, tight) ==
  IF i > Len(xs) THEN ""
  ELSE LET x == xs[i]
           sep == IF i = 1 THEN ""
                  ELSE LET p == xs[i - 1] IN
                       IF p[3] = "u" THEN ""
                       ELSE IF (Wordy(p) /\ Wordy(x)) THEN " "
                       ELSE IF (x[3] = "b" \/ p[3] = "b") THEN (IF tight THEN "" ELSE " ")
                       ELSE IF x[3] = "u" THEN (IF p[3] = "b" /\ ~tight THEN " " ELSE IF Wordy(p) THEN " " ELSE "")
                       ELSE IF p[2] \in {",", ":"} /\ ~tight THEN " "
                       ELSE ""
       IN sep \o x[2] \o JoinLex(xs, i + 1, tight)

LineText(l, i, lay) ==
  LET b == Bodies[l.body]
      pre == (IF i \in lay.blank THEN lay.blankfill \o lay.eol ELSE "")
             \o (IF i \in lay.cline THEN lay.cind \o (IF lay.cbare THEN "#" ELSE "# note " \o ToString(i)) \o lay.eol ELSE "")
      first == IF i \in lay.bslash /\ b.rest = <<>> /\ Len(b.lex) > 2 /\ b.lex[1][1] = "name" /\ b.lex[2][3] = "b" /\ b.lex[2][2] \notin {"-="}
               THEN b.lex[1][2] \o " \\\n  " \o JoinLex(Tail(b.lex), 1, lay.tight)
               ELSE JoinLex(b.lex, 1, lay.tight)
      second == IF b.rest = <<>> THEN "" ELSE lay.eol \o Indent(lay.contind, "  ") \o JoinLex(b.rest, 1, lay.tight)
      post == (IF i \in lay.tcomment THEN (IF lay.cbare THEN "  #" ELSE "  # c" \o ToString(i)) ELSE "") \o (IF i \in lay.trail THEN "  " ELSE "")
  IN pre \o Indent(l.ind, lay.unit) \o first \o second \o post

RECURSIVE TextFrom(_, _, _)
\* every line ends in the line break of the layout; the last one only if the layout says so
TextFrom(p, i, lay) == IF i > Len(p) THEN ""
                       ELSE LineText(p[i], i, lay) \o (IF i < Len(p) \/ lay.final THEN lay.eol ELSE "") \o TextFrom(p, i + 1, lay)
Text(p, lay) == TextFrom(p, 1, lay)

-----------------------------------------------------------------------------
(* C13 *)
IndentsBalance == phase = "layout" => Balanced(prog)
\* a rewrite changes the text but never the significant tokens (Sig does not mention the layout at all)
LayoutInsensitive == [][phase = "layout" /\ layout' # layout => Sig(prog') = Sig(prog)]_vars
\* Python's rule, as an invariant of the generator: deeper exactly after a block opener
ValidIndent == \A i \in 2..Len(prog) : IF KindOf(prog[i - 1]) = "block" THEN prog[i].ind = prog[i - 1].ind + 1 ELSE prog[i].ind <= prog[i - 1].ind

Case == [text |-> Text(prog, layout), sig |-> Sig(prog), nlines |-> Len(prog), layout |-> [unit |-> layout.unit, tight |-> layout.tight, n |-> nrw, crlf |-> layout.eol # "\n", final |-> layout.final]]
EmitCase == phase = "layout" => PrintT("CASE " \o ToJson(Case))
=============================================================================
