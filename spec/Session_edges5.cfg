CONSTANTS
  MaxOps = 5
INIT Init
NEXT Next
VIEW View
CONSTRAINT Bounded
ACTION_CONSTRAINT Emit
CHECK_DEADLOCK FALSE
