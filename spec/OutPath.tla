------------------------------ MODULE OutPath ------------------------------
(***************************************************************************)
(* Output-path mapping of the command-line runner                          *)
(* (rogw/tranp/bin/transpile.py: Runner.output_filepath / fetch_output_path)*)
(* and the meta header written into / read back from an output file        *)
(* (rogw/tranp/data/meta/header.py).                                       *)
(*                                                                         *)
(* output_dirs = rule_1 ... rule_n, fallback.  A rule is "cond:dir"; a     *)
(* cond ending in * is a glob (the whole relative file path is kept below  *)
(* dir), any other cond is a prefix that is stripped.  First match wins.   *)
(* Paths are sequences of components here; conds end on a component        *)
(* boundary.  C06 demands that distinct modules never share an output path.*)
(***************************************************************************)
EXTENDS Integers, Sequences, FiniteSets, TLC, Json

RECURSIVE Join(_, _)
Join(s, sep) == IF s = <<>> THEN "" ELSE IF Len(s) = 1 THEN s[1] ELSE s[1] \o sep \o Join(Tail(s), sep)

IsPrefix(p, s) == Len(p) <= Len(s) /\ SubSeq(s, 1, Len(p)) = p

\* module path (dotted components) -> relative file path components with the output extension
FileOf(mod, ext) == [i \in 1..Len(mod) |-> IF i = Len(mod) THEN mod[i] \o "." \o ext ELSE mod[i]]

\* rules: [kind |-> "glob" | "prefix", cond |-> components, dir |-> components]
RECURSIVE Fetch(_, _, _)
Fetch(rules, fallback, f) ==
  IF rules = <<>> THEN fallback \o f
  ELSE LET r == Head(rules) IN
       IF r.kind = "glob" /\ IsPrefix(r.cond, f) /\ Len(f) > Len(r.cond) THEN r.dir \o f
       ELSE IF r.kind = "prefix" /\ IsPrefix(r.cond, f) THEN r.dir \o SubSeq(f, Len(r.cond) + 1, Len(f))
       ELSE Fetch(Tail(rules), fallback, f)

Ext(lang) == lang[Len(lang)]          \* "cpp:h" -> h ; "cpp" -> cpp   (lang given as components split on ':')

\* <<"x", "x", "m">>: the text of a prefix condition occurs again further down the path (only the leading occurrence is a prefix)
ModPool == {<<"m">>, <<"x", "m">>, <<"x", "n">>, <<"y", "m">>, <<"x", "y", "m">>, <<"x", "x", "m">>}
RulePool == { [kind |-> "glob", cond |-> <<"x">>, dir |-> <<"o1">>],
              [kind |-> "prefix", cond |-> <<"x">>, dir |-> <<"o2">>],
              [kind |-> "prefix", cond |-> <<"x", "y">>, dir |-> <<"o1">>],
              [kind |-> "glob", cond |-> <<"y">>, dir |-> <<"out">>] }
Fallbacks == {<<"out">>, <<"o1">>}
Langs == {<<"cpp", "h">>, <<"cpp">>}

RuleSeqs == {<<>>} \cup {<<r>> : r \in RulePool} \cup {<<r, q>> : r \in RulePool, q \in RulePool}
ModSets == {s \in SUBSET ModPool : Cardinality(s) \in 2..3}

PathOf(rules, fb, lang, mod) == Join(Fetch(rules, fb, FileOf(mod, Ext(lang))), "/")
Injective(rules, fb, lang, mods) == \A a, b \in mods : a # b => PathOf(rules, fb, lang, a) # PathOf(rules, fb, lang, b)

RuleStr(r) == Join(r.cond, "/") \o (IF r.kind = "glob" THEN "/*" ELSE "/") \o ":" \o Join(r.dir, "/")
SetToSeq(S) == CHOOSE s \in [1..Cardinality(S) -> S] : \A i, j \in 1..Cardinality(S) : i # j => s[i] # s[j]

Case(rules, fb, lang, mods) ==
  [rules |-> [i \in 1..Len(rules) |-> RuleStr(rules[i])] \o <<Join(fb, "/")>>,
   lang |-> Join(lang, ":"),
   mods |-> [i \in 1..Cardinality(mods) |-> Join(SetToSeq(mods)[i], ".")],
   paths |-> [m \in {Join(x, ".") : x \in mods} |-> PathOf(rules, fb, lang, CHOOSE x \in mods : Join(x, ".") = m)],
   injective |-> Injective(rules, fb, lang, mods)]

\* the fallback alone is always injective; a glob rule keeps the whole path, hence is injective too
OnlyGlobRules(rules) == \A i \in 1..Len(rules) : rules[i].kind = "glob"
GlobIsInjective == \A rules \in RuleSeqs, fb \in Fallbacks, mods \in ModSets :
                     OnlyGlobRules(rules) /\ (\A i \in 1..Len(rules) : rules[i].dir # fb) => Injective(rules, fb, <<"cpp", "h">>, mods)
ASSUME GlobIsInjective

ASSUME \A rules \in RuleSeqs, fb \in Fallbacks, lang \in Langs, mods \in ModSets :
         PrintT("CASE " \o ToJson(Case(rules, fb, lang, mods)))

(* meta header: written as one line `// @tranp.meta: <json>` and read back by locating the tag, *)
(* taking the text up to the last closing brace before the line break                            *)
Headers == { [hash |-> h, path |-> p, tver |-> "1.0.0", tmod |-> "rogw.tranp.implements.cpp.transpiler.py2cpp.Py2Cpp", body |-> b] :
             h \in {"0123456789abcdef0123456789abcdef", "dummy"},
             p \in {"vm.a", "example.FW.string", "__main__"},
             b \in {"int x = 1;\n", "// {not json}\nint y;\n", "/* @tranp.meta: {} */\n", ""} }
ASSUME \A h \in Headers : PrintT("HEADER " \o ToJson(h))
=============================================================================
