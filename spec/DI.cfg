\* Exhaustive exploration of the repaired container semantics (CombineFixed / InvokeFixed = TRUE)
CONSTANTS
  MaxC = 3
  MaxOps = 5
  MaxInst = 6
  CombineFixed = TRUE
  Sym <- MCSym
  SymFacs <- MCSymFacs
  InvokeFns <- MCInvokeFns
  Params <- MCParams
  Templates <- MCTemplates
  ExtraVals <- MCExtraVals
  InvokeFixed = TRUE
INIT Init
NEXT Next
VIEW View
CONSTRAINT Bounded
INVARIANT TypeOK
INVARIANT Layered
INVARIANT InstanceOfBinding
PROPERTY InstanceStable
PROPERTY ResolveReturnsHeld
PROPERTY RebindDiscards
PROPERTY RebindTotal
PROPERTY CombineRightWins
PROPERTY OperandsUnaffected
PROPERTY UnknownRaises
PROPERTY OnlyValueError
PROPERTY InvokePrefixRule
PROPERTY InvokeMismatchRaises
CHECK_DEADLOCK FALSE
