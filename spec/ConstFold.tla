----------------------------- MODULE ConstFold -----------------------------
(***************************************************************************)
(* Value semantics of constant expressions as Python evaluates them -      *)
(* what tranp's LiteralEvaluator (rogw/tranp/implements/transpiler/        *)
(* evaluator.py) must reproduce when it folds enum member values.          *)
(*                                                                         *)
(* Values: IntV(v) | FltV(n, d) dyadic rational n / d with d a power of two  *)
(* (IEEE doubles and TLC integers then agree exactly) | StrV(s).            *)
(* Outcome of an expression: a value, "err" (Python itself raises: the     *)
(* evaluator must refuse), or "undef" (outside the exactly representable   *)
(* subset: the case is not generated).                                     *)
(***************************************************************************)
EXTENDS Integers, Sequences, FiniteSets, TLC, Json, Bitwise

CONSTANTS Depth, Leaves2      \* depth of the universe (1 or 2); leaf pool used below depth-2 operators

Lim == 1048576
IntV(v) == [t |-> "int", v |-> v]
FltV(n, d) == [t |-> "flt", n |-> n, d |-> d]
\* a string carries its numeric reading: an integer, "nan" (not a number) or "unk" (not tracked)
StrN(s, n) == [t |-> "str", s |-> s, n |-> n]
NaN == [k |-> "nan", v |-> 0]
Unk == [k |-> "unk", v |-> 0]
NumR(v) == [k |-> "num", v |-> v]
StrV(s) == StrN(s, NaN)
Err == [t |-> "err"]
Undef == [t |-> "undef"]

\* ---- literals: [k, text, val]
Lit(text, val) == [k |-> "lit", text |-> text, val |-> val]
AllLeaves == { Lit("0", IntV(0)), Lit("1", IntV(1)), Lit("2", IntV(2)), Lit("3", IntV(3)), Lit("7", IntV(7)),
               Lit("0x10", IntV(16)), Lit("0xff", IntV(255)),
               \* the other spellings Python (and data/grammar.lark) has for an integer: digit separators, upper-case prefix
               Lit("1_0", IntV(10)), Lit("0X10", IntV(16)), Lit("0x_1f", IntV(31)),
               Lit("0.5", FltV(1, 2)), Lit("1.5", FltV(3, 2)), Lit("2.0", FltV(2, 1)),

               Lit("'a'", StrV("a")), Lit("\"b\"", StrV("b")), Lit("'12'", StrN("12", NumR(12))),
               \* strings whose content begins or ends with a quote character of the other kind
               Lit("\"'\"", StrV("'")), Lit("\"x'\"", StrV("x'")), Lit("'\"q\"'", StrV("\"q\"")) }
SmallLeaves == { Lit("2", IntV(2)), Lit("7", IntV(7)), Lit("0x10", IntV(16)), Lit("1.5", FltV(3, 2)), Lit("'a'", StrV("a")) }

MidLeaves == SmallLeaves \cup { Lit("0", IntV(0)), Lit("0.5", FltV(1, 2)), Lit("'12'", StrN("12", NumR(12))) }

BinOps == {"+", "-", "*", "/", "%", "|", "^", "&", "<<", ">>"}
UnOps == {"-", "+", "~"}
Casts == {"int", "float", "str"}

RECURSIVE Exprs(_, _)
Exprs(d, leaves) ==
  IF d = 0 THEN leaves
  ELSE LET sub == Exprs(d - 1, leaves) IN
       sub \cup {[k |-> "un", op |-> o, e |-> x] : o \in UnOps, x \in sub}
           \cup {[k |-> "cast", fn |-> f, e |-> x] : f \in Casts, x \in sub}
           \cup {[k |-> "bin", op |-> o, l |-> x, r |-> y] : o \in BinOps, x \in sub, y \in leaves}
           \cup {[k |-> "bin", op |-> o, l |-> x, r |-> y] : o \in BinOps, x \in leaves, y \in sub}

Universe == IF Depth = 1 THEN Exprs(1, AllLeaves) ELSE Exprs(1, AllLeaves) \cup Exprs(2, Leaves2)

\* ---- text with Python-minimal parentheses
Prec(e) == CASE e.k = "bin" -> (CASE e.op = "|" -> 7 [] e.op = "^" -> 8 [] e.op = "&" -> 9 [] e.op \in {"<<", ">>"} -> 10
                                  [] e.op \in {"+", "-"} -> 11 [] OTHER -> 12)
             [] e.k = "un" -> 13
             [] OTHER -> 16
RECURSIVE Text(_)
Par(e, need) == IF need THEN "(" \o Text(e) \o ")" ELSE Text(e)
Text(e) == CASE e.k = "lit" -> e.text
             [] e.k = "un" -> e.op \o Par(e.e, Prec(e.e) < 13)
             [] e.k = "cast" -> e.fn \o "(" \o Text(e.e) \o ")"
             [] e.k = "bin" -> Par(e.l, Prec(e.l) < Prec(e)) \o " " \o e.op \o " " \o Par(e.r, Prec(e.r) <= Prec(e))

\* ---- arithmetic helpers
Abs(x) == IF x < 0 THEN -x ELSE x
RECURSIVE Gcd(_, _)
Gcd(a, b) == IF b = 0 THEN a ELSE Gcd(b, a % b)
IsPow2(d) == d \in {1, 2, 4, 8, 16, 32, 64, 128, 256, 512, 1024, 2048, 4096}
\* Python's floor modulo / floor division for any non-zero divisor
PyMod(a, b) == IF b > 0 THEN a % b ELSE -((-a) % (-b))
\* a rational n/d (d # 0) as a value: dyadic and within bounds, else undef
Rat(n, d) == LET s == IF d < 0 THEN -1 ELSE 1
                 g == Gcd(Abs(n), Abs(d))
                 nn == (s * n) \div (IF g = 0 THEN 1 ELSE g)
                 dd == Abs(d) \div (IF g = 0 THEN 1 ELSE g)
             IN IF n = 0 THEN FltV(0, 1)
                ELSE IF IsPow2(dd) /\ Abs(nn) < Lim THEN FltV(nn, dd) ELSE Undef
Bound(v) == IF v.t = "int" /\ Abs(v.v) >= Lim THEN Undef ELSE v
AsRat(v) == IF v.t = "int" THEN <<v.v, 1>> ELSE <<v.n, v.d>>
Num(v) == v.t \in {"int", "flt"}
Trunc(n, d) == IF n >= 0 THEN n \div d ELSE -((-n) \div d)



RECURSIVE Dec(_)
Dec(n) == IF n < 0 THEN "-" \o Dec(-n) ELSE ToString(n)

BinVal(op, a, b) ==
  IF a.t \in {"err", "undef"} THEN a ELSE IF b.t \in {"err", "undef"} THEN b
  ELSE IF a.t = "str" /\ b.t = "str" THEN (IF op = "+" THEN StrN(a.s \o b.s, IF a.n.k = "nan" \/ b.n.k = "nan" THEN NaN ELSE Unk) ELSE Err)
  ELSE IF a.t = "str" \/ b.t = "str" THEN
         \* 'a' * 2 is legal Python (repetition): outside the agreed subset, not generated
         (IF op = "*" /\ (a.t = "int" \/ b.t = "int") THEN Undef ELSE IF op = "%" /\ a.t = "str" THEN Undef ELSE Err)
  ELSE IF a.t = "int" /\ b.t = "int" THEN
         Bound(CASE op = "+" -> IntV(a.v + b.v)
                 [] op = "-" -> IntV(a.v - b.v)
                 [] op = "*" -> IntV(a.v * b.v)
                 [] op = "/" -> (IF b.v = 0 THEN Err ELSE Rat(a.v, b.v))
                 [] op = "%" -> (IF b.v = 0 THEN Err ELSE IntV(PyMod(a.v, b.v)))
                 [] op = "<<" -> (IF b.v < 0 THEN Err ELSE IF b.v > 12 THEN Undef ELSE IntV(a.v * (2 ^ b.v)))
                 [] op = ">>" -> (IF b.v < 0 THEN Err ELSE IF b.v > 12 THEN Undef ELSE IntV(a.v \div (2 ^ b.v)))
                 [] op = "&" -> (IF a.v >= 0 /\ b.v >= 0 THEN IntV(a.v & b.v) ELSE Undef)
                 [] op = "|" -> (IF a.v >= 0 /\ b.v >= 0 THEN IntV(a.v | b.v) ELSE Undef)
                 [] op = "^" -> (IF a.v >= 0 /\ b.v >= 0 THEN IntV(a.v ^^ b.v) ELSE Undef))
  ELSE \* at least one float
       IF op \in {"|", "^", "&", "<<", ">>"} THEN Err
       ELSE LET x == AsRat(a)  y == AsRat(b) IN
            CASE op = "+" -> Rat(x[1] * y[2] + y[1] * x[2], x[2] * y[2])
              [] op = "-" -> Rat(x[1] * y[2] - y[1] * x[2], x[2] * y[2])
              [] op = "*" -> Rat(x[1] * y[1], x[2] * y[2])
              [] op = "/" -> (IF y[1] = 0 THEN Err ELSE Rat(x[1] * y[2], x[2] * y[1]))
              [] op = "%" -> (IF y[1] = 0 THEN Err ELSE Rat(PyMod(x[1] * y[2], y[1] * x[2]), x[2] * y[2]))

UnVal(op, a) ==
  IF a.t \in {"err", "undef"} THEN a
  ELSE IF a.t = "str" THEN Err
  ELSE IF op = "+" THEN a
  ELSE IF op = "-" THEN (IF a.t = "int" THEN IntV(-a.v) ELSE FltV(-a.n, a.d))
  ELSE (IF a.t = "int" THEN IntV(-a.v - 1) ELSE Err)          \* ~

CastVal(fn, a) ==
  IF a.t \in {"err", "undef"} THEN a
  ELSE CASE fn = "int" -> (CASE a.t = "int" -> a [] a.t = "flt" -> IntV(Trunc(a.n, a.d)) [] a.t = "str" -> (IF a.n.k = "nan" THEN Err ELSE IF a.n.k = "unk" THEN Undef ELSE IntV(a.n.v)))
         [] fn = "float" -> (CASE a.t = "int" -> FltV(a.v, 1) [] a.t = "flt" -> a [] a.t = "str" -> (IF a.n.k = "nan" THEN Err ELSE IF a.n.k = "unk" THEN Undef ELSE FltV(a.n.v, 1)))
         [] fn = "str" -> (CASE a.t = "int" -> StrN(Dec(a.v), NumR(a.v)) [] a.t = "str" -> a [] a.t = "flt" -> Undef)

RECURSIVE Fold(_)
Fold(e) == CASE e.k = "lit" -> e.val
             [] e.k = "un" -> UnVal(e.op, Fold(e.e))
             [] e.k = "cast" -> CastVal(e.fn, Fold(e.e))
             [] e.k = "bin" -> BinVal(e.op, Fold(e.l), Fold(e.r))

Generated == {e \in Universe : Fold(e).t # "undef"}

\* model-level sanity: values stay inside the representable subset
InRange == \A e \in Generated : LET v == Fold(e) IN
             (v.t = "int" => Abs(v.v) < Lim) /\ (v.t = "flt" => IsPow2(v.d) /\ Abs(v.n) < Lim)

\* ---- references to other enum members.  Three enums; a member is referred to by its bare name inside its own enum
\* (B = A + 1) and as E.X.value from elsewhere.  The members of E0 and E1 have the SAME NAMES and different values:
\* what a reference denotes is decided by enum and name together, and by nothing the evaluator did before.
EnumTable == [E0 |-> [A |-> [text |-> "1",                    val |-> IntV(1)],
                      B |-> [text |-> "A + 1",                val |-> IntV(2)]],
              E1 |-> [A |-> [text |-> "E0.B.value + 1",       val |-> IntV(3)],
                      B |-> [text |-> "0x10 | E0.A.value",    val |-> IntV(17)]]]
\* the table is consistent with the fold semantics (each member's value is what its defining expression denotes)
RefLit(en, x) == Lit(en \o "." \o x \o ".value", EnumTable[en][x].val)
TableConsistent ==
  /\ EnumTable.E0.B.val = BinVal("+", EnumTable.E0.A.val, IntV(1))
  /\ EnumTable.E1.A.val = BinVal("+", EnumTable.E0.B.val, IntV(1))
  /\ EnumTable.E1.B.val = BinVal("|", IntV(16), EnumTable.E0.A.val)
RefLeaves == {RefLit(en, x) : en \in {"E0", "E1"}, x \in {"A", "B"}}
RefOps == {"+", "-", "*", "|", "<<", "/"}
RefExprs == {[k |-> "bin", op |-> o, l |-> a, r |-> b] : o \in RefOps, a \in RefLeaves, b \in RefLeaves}
             \cup {[k |-> "cast", fn |-> f, e |-> a] : f \in {"str", "float"}, a \in RefLeaves}
             \cup {[k |-> "bin", op |-> o, l |-> [k |-> "bin", op |-> "+", l |-> a, r |-> b], r |-> Lit("2", IntV(2))] : o \in {"*", "<<"}, a \in RefLeaves, b \in RefLeaves}
RefGenerated == {e \in RefExprs : Fold(e).t # "undef"}
EmitRefs == \A e \in RefGenerated : PrintT("REFCASE " \o ToJson([text |-> Text(e), val |-> Fold(e)]))
EmitEnums == PrintT("ENUMS " \o ToJson(EnumTable))

Case(e) == [text |-> Text(e), val |-> Fold(e)]
\* integers beyond the 53 bits a double holds exactly (Python's integers are unbounded).  Only operations whose value
\* can be written down without arithmetic on the big number are modelled; the value is kept as its decimal text.
BigLits == { [text |-> "9007199254740993", dec |-> "9007199254740993"],
             [text |-> "0x20000000000001", dec |-> "9007199254740993"],
             [text |-> "18446744073709551615", dec |-> "18446744073709551615"],
             [text |-> "0xffffffffffffffff", dec |-> "18446744073709551615"],
             [text |-> "123456789012345678901234567891", dec |-> "123456789012345678901234567891"] }
BigInt(d) == [t |-> "int", dec |-> d]
BigCases == UNION { { [text |-> b.text, val |-> BigInt(b.dec)],
                      [text |-> "+" \o b.text, val |-> BigInt(b.dec)],
                      [text |-> "-" \o b.text, val |-> BigInt("-" \o b.dec)],
                      [text |-> "(" \o b.text \o ")", val |-> BigInt(b.dec)],
                      [text |-> "int(" \o b.text \o ")", val |-> BigInt(b.dec)],
                      [text |-> "int(-" \o b.text \o ")", val |-> BigInt("-" \o b.dec)],
                      [text |-> "int(int(" \o b.text \o "))", val |-> BigInt(b.dec)],
                      [text |-> "int('" \o b.dec \o "')", val |-> BigInt(b.dec)],
                      [text |-> "int(str(" \o b.text \o "))", val |-> BigInt(b.dec)],
                      [text |-> "str(" \o b.text \o ")", val |-> [t |-> "str", s |-> b.dec]] } : b \in BigLits }
\* floats that are exact in a double but take more than fifteen decimals to write out (2^-20, 3 * 2^-20): the value of
\* each expression is written down without arithmetic on them (TLC's integers would overflow on their products)
Tiny == "0.00000095367431640625"
TinyCases == { [text |-> Tiny \o " + 0", val |-> FltV(1, 1048576)], [text |-> Tiny \o " * 1", val |-> FltV(1, 1048576)], [text |-> Tiny \o " - 0", val |-> FltV(1, 1048576)],
               [text |-> Tiny \o " / 1", val |-> FltV(1, 1048576)], [text |-> Tiny \o " * 3", val |-> FltV(3, 1048576)], [text |-> "-" \o Tiny, val |-> FltV(-1, 1048576)],
               [text |-> "float(" \o Tiny \o ")", val |-> FltV(1, 1048576)], [text |-> "1 / 1048576", val |-> FltV(1, 1048576)], [text |-> "3 / 1048576 + 0", val |-> FltV(3, 1048576)],
               [text |-> "(" \o Tiny \o " + 0) * 2", val |-> FltV(1, 524288)] }
EmitTiny == \A c \in TinyCases : PrintT("CASE " \o ToJson(c))
EmitBig == \A c \in BigCases : PrintT("CASE " \o ToJson(c))
Emit == \A e \in Generated : PrintT("CASE " \o ToJson(Case(e)))
=============================================================================
