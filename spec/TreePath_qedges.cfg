\* query histories against every tree with <= MaxN entries
CONSTANTS
  MaxN = 4
  MaxKids = 3
  MaxQ = 3
INIT Init
NEXT Next
VIEW View
ACTION_CONSTRAINT EmitEdge
CHECK_DEADLOCK FALSE
