--------------------------- MODULE ConstFoldEmit ---------------------------
EXTENDS ConstFold
ASSUME InRange
ASSUME Emit
ASSUME TableConsistent
ASSUME EmitEnums
ASSUME EmitRefs
ASSUME EmitBig
ASSUME EmitTiny
ASSUME PrintT("UNIVERSE " \o ToString(Cardinality(Universe)) \o " generated " \o ToString(Cardinality(Generated)))
=============================================================================
