CONSTANTS
  MaxLines = 3
  MaxInd = 2
  Pool <- AllBodies
  MaxRewrites = 1
INIT Init
NEXT Next
INVARIANT IndentsBalance
INVARIANT ValidIndent
PROPERTY LayoutInsensitive
CHECK_DEADLOCK FALSE
