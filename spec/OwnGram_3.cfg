CONSTANTS
  N = 3
  Offsets = {0, 13}
