CONSTANTS
  N = 3
