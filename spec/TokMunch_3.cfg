CONSTANTS
  MaxRun = 3
  Lookup = "longest"
INIT Init
NEXT Next
INVARIANT MunchAgrees
INVARIANT TypeOK
PROPERTY Progress
CHECK_DEADLOCK FALSE
