CONSTANTS
  MaxLines = 3
  Consistent = FALSE
INIT Init
NEXT Next
INVARIANT BlocksAgree
CHECK_DEADLOCK FALSE
