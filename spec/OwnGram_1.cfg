CONSTANTS
  N = 1
  Offsets = {0, 3, 6, 9, 12, 15, 18, 21, 24, 27}
