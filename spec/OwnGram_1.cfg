CONSTANTS
  N = 1
