CONSTANTS
  QuoteFix = TRUE
  MaxSteps = 5
INIT Init
NEXT Next
INVARIANT EmitCase
CHECK_DEADLOCK FALSE
