CONSTANTS
  N = 3
  ParenFix = TRUE
  Rich = TRUE
