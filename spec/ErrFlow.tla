------------------------------ MODULE ErrFlow ------------------------------
(***************************************************************************)
(* Exception flow of the tranp pipeline: where an exception may be raised, *)
(* which call sites wrap foreign exceptions into the application hierarchy *)
(* (Errors.Error) and what finally leaves the public entry points          *)
(* (Modules.load, ITranspiler.transpile, the interactive loop).            *)
(*                                                                         *)
(* Stages in pipeline order (one input = one behaviour):                   *)
(*   parse      SyntaxParserOfLark.__load_entry: text -> tree              *)
(*              any exception of the parser is wrapped into Errors.Syntax, *)
(*              for on-disk and (since the repair, see known_findings)     *)
(*              for in-memory modules                                      *)
(*   deps       Modules.__load_dependencies: imported modules are located  *)
(*              and loaded (a missing file raises FileNotFoundError)       *)
(*   preprocess the preprocessors (expand / extend / resolve unknown /     *)
(*              store) outside of any tree walk: not wrapped               *)
(*   nodeapi    node properties / queries evaluated while flattening a     *)
(*              tree for a walk, outside of any handler: not wrapped       *)
(*   handler    inside a handler of a tree walk (Procedure.__emit):        *)
(*              TypeError -> InvalidSchema, other foreign -> Fatal         *)
(*   render     error rendering (ErrorRender) of whatever escaped          *)
(* The constant Wrapped says per stage and storage mode whether foreign    *)
(* exceptions are converted; "as coded" and "all wrapped" are two configs. *)
(***************************************************************************)
EXTENDS Integers, Sequences, FiniteSets, TLC, Json

CONSTANTS Wrapped,     \* [stage -> [mode -> BOOLEAN]]
          ParseReports \* [mode -> {"Syntax", "Fatal"}]: what the parse stage's own wrapper turns EVERY parse failure into
                       \* ("Fatal": some failure passes that wrapper and is only caught by the blanket one further out)

Stages == <<"parse", "deps", "preprocess", "nodeapi", "handler">>
Modes == {"disk", "memory"}
Classes == {"App", "Foreign"}

VARIABLES mode, at, raised, escaped, rendered, op, reported
vars == <<mode, at, raised, escaped, rendered, op, reported>>

Init == /\ mode \in Modes /\ at = 1 /\ raised = "none" /\ escaped = "none" /\ rendered = "none" /\ reported = "none"
        /\ op = [name |-> "init"]

Escape(stage, md, cls) == IF cls = "Foreign" /\ Wrapped[stage][md] THEN "App" ELSE cls

\* the stage completes
Pass == /\ escaped = "none" /\ at <= Len(Stages)
        /\ at' = at + 1
        /\ op' = [name |-> "pass", stage |-> Stages[at]]
        /\ UNCHANGED <<mode, raised, escaped, rendered, reported>>

\* an exception is raised inside the stage and travels to the caller of the pipeline
Raise(cls) == /\ escaped = "none" /\ at <= Len(Stages)
              /\ raised' = cls
              /\ escaped' = Escape(Stages[at], mode, cls)
              \* the application error class the user sees: a failure of the parse stage is a syntax error, other stages report their own classes
              /\ reported' = IF Escape(Stages[at], mode, cls) # "App" THEN "Foreign"
                             ELSE IF Stages[at] = "parse" THEN ParseReports[mode] ELSE "App"
              /\ op' = [name |-> "raise", stage |-> Stages[at], cls |-> cls, escaped |-> Escape(Stages[at], mode, cls)]
              /\ UNCHANGED <<mode, at, rendered>>

\* whatever escaped is rendered for the user (the command line renders every Exception, the interactive
\* loop only application errors: a foreign one ends the loop)
Render == /\ escaped # "none" /\ rendered = "none"
          /\ rendered' = "text"
          /\ op' = [name |-> "render", escaped |-> escaped, loop_survives |-> escaped = "App"]
          /\ UNCHANGED <<mode, at, raised, escaped, reported>>

Next == Pass \/ (\E c \in Classes : Raise(c)) \/ Render
Spec == Init /\ [][Next]_vars

-----------------------------------------------------------------------------
(* C07 *)
EscapesAreApp == escaped \in {"none", "App"}
RenderTotal == [][op'.name = "render" => rendered' = "text"]_vars
LoopSurvives == [][op'.name = "render" => op'.loop_survives]_vars
\* unparsable text is reported as a syntax error whether the module lives on disk or only in memory
ParseErrorsAreApp == [][op'.name = "raise" /\ op'.stage = "parse" => op'.escaped = "App"]_vars
ParseErrorsAreSyntax == [][op'.name = "raise" /\ op'.stage = "parse" => reported' = "Syntax"]_vars

=============================================================================
