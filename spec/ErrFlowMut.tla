----------------------------- MODULE ErrFlowMut -----------------------------
(* Mutation descriptors for C07/C11: TLC enumerates (program, operator, position); the harness applies *)
(* them to the token sequences of valid programs (position is taken modulo the number of tokens).       *)
EXTENDS Integers, Sequences, TLC, Json
CONSTANTS NPrograms, NPositions
MutOps == {"delete", "duplicate", "swap", "indent", "dedent", "unbalance", "keyword", "truncate", "stray", "retype"}
\* annotations whose number of type arguments does not fit the constructor (they parse; the stages after the
\* parser meet them): constructor x number of arguments x trailing comma x where the annotation stands
RECURSIVE Rep(_, _)
Rep(x, n) == IF n = 0 THEN <<>> ELSE <<x>> \o Rep(x, n - 1)
RECURSIVE Join(_, _)
Join(xs, sep) == IF xs = <<>> THEN "" ELSE IF Len(xs) = 1 THEN xs[1] ELSE xs[1] \o sep \o Join(Tail(xs), sep)
Ctors == {"list", "dict", "tuple", "type", "int", "Callable"}
Fits(c, n) == (c = "list" /\ n = 1) \/ (c = "dict" /\ n = 2) \/ (c = "tuple" /\ n >= 1) \/ (c = "type" /\ n = 1) \/ (c = "int" /\ n = 0)
Ann(c, n, comma, arg) == IF n = 0 THEN c ELSE c \o "[" \o Join(Rep(arg, n), ", ") \o (IF comma THEN ", " ELSE "") \o "]"
Places == {"var", "param", "return", "base", "inner", "alias"}
AnnProgram(place, a) ==
  CASE place = "var" -> "x: " \o a \o " = v()\n"
    [] place = "param" -> "def f(p: " \o a \o ") -> None:\n\tpass\n"
    [] place = "return" -> "def f() -> " \o a \o ":\n\tpass\n"
    [] place = "base" -> "class A(" \o a \o "):\n\tpass\n"
    [] place = "inner" -> "x: list[" \o a \o "] = []\n"
    [] place = "alias" -> "from typing import TypeAlias\n\nT: TypeAlias = " \o a \o "\n"
ASSUME \A c \in Ctors, n \in 0..3, comma \in BOOLEAN, arg \in {"int", "str"}, place \in Places :
   (~Fits(c, n) /\ (comma => n > 0)) =>
     PrintT("ANN " \o ToJson([ctor |-> c, n |-> n, place |-> place, text |-> "def v() -> int:\n\treturn 1\n\n" \o AnnProgram(place, Ann(c, n, comma, arg))]))
\* ---- resource faults: valid Python whose nesting exceeds what a recursive reader can hold, and files whose bytes are no
\* text at all.  Both fail before the module is registered (read / parse stage) with an exception of the runtime, not of tranp
DeepShapes == {"paren", "minus", "attr", "list", "call"}
DeepDepths == {20, 200, 1000, 3000}
ASSUME \A sh \in DeepShapes, d \in DeepDepths : PrintT("DEEP " \o ToJson([shape |-> sh, depth |-> d]))
\* byte sequences (decimal) that are not valid UTF-8, and where they stand in the file
BadBytes == << <<195>>, <<226, 130>>, <<255>>, <<192, 128>>, <<237, 160, 128>> >>
BytePlaces == {"string", "comment", "name", "start"}
ASSUME \A i \in DOMAIN BadBytes, pl \in BytePlaces : PrintT("BYTES " \o ToJson([bytes |-> BadBytes[i], place |-> pl]))
ASSUME \A p \in 1..NPrograms, o \in MutOps, k \in 1..NPositions : PrintT("MUT " \o ToJson([program |-> p, op |-> o, pos |-> k]))
=============================================================================
