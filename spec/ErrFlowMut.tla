----------------------------- MODULE ErrFlowMut -----------------------------
(* Mutation descriptors for C07/C11: TLC enumerates (program, operator, position); the harness applies *)
(* them to the token sequences of valid programs (position is taken modulo the number of tokens).       *)
EXTENDS Integers, Sequences, TLC, Json
CONSTANTS NPrograms, NPositions
MutOps == {"delete", "duplicate", "swap", "indent", "dedent", "unbalance", "keyword", "truncate", "stray", "retype"}
ASSUME \A p \in 1..NPrograms, o \in MutOps, k \in 1..NPositions : PrintT("MUT " \o ToJson([program |-> p, op |-> o, pos |-> k]))
=============================================================================
