\* every ordered entry tree with <= MaxN entries; addressing laws as invariants
CONSTANTS
  MaxN = 6
  MaxKids = 4
  MaxQ = 0
INIT Init
NEXT Next
VIEW View
INVARIANT TypeOK
INVARIANT Bijection
INVARIANT IdsDocumentOrder
INVARIANT RelativesAgree
CHECK_DEADLOCK FALSE
