----------------------------- MODULE MCTranp -----------------------------
(* Module graphs for exhaustive exploration of Tranp.tla *)
EXTENDS Tranp

ChainMods == {"a", "b", "c"}
ChainImports == [a |-> <<"b">>, b |-> <<"c">>, c |-> <<>>]
ChainTargets == <<"a", "b", "c">>

PairMods == {"b", "c"}
PairImports == [b |-> <<"c">>, c |-> <<>>]
PairTargets == <<"b", "c">>

DiamondMods == {"a", "b", "c", "d"}
DiamondImports == [a |-> <<"b", "c">>, b |-> <<"d">>, c |-> <<"d">>, d |-> <<>>]
DiamondTargets == <<"d", "a", "c", "b">>

V2 == 1..2
Body2 == [v \in V2 |-> v]
V3 == 1..3
\* three variants with three different bodies (a stale tree of one of them is visible in the output)
V124 == {1, 2, 4}
Body124 == [v \in V124 |-> v]
Body3 == [v \in V3 |-> IF v = 3 THEN 1 ELSE v]     \* variant 3 = variant 1 with a different layout
=============================================================================
