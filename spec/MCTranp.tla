----------------------------- MODULE MCTranp -----------------------------
(* Module graphs for exhaustive exploration of Tranp.tla *)
EXTENDS Tranp

ChainMods == {"a", "b", "c"}
ChainImports == [a |-> <<"b">>, b |-> <<"c">>, c |-> <<>>]
ChainTargets == <<"a", "b", "c">>

DiamondMods == {"a", "b", "c", "d"}
DiamondImports == [a |-> <<"b", "c">>, b |-> <<"d">>, c |-> <<"d">>, d |-> <<>>]
DiamondTargets == <<"d", "a", "c", "b">>

V2 == 1..2
=============================================================================
