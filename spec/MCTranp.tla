----------------------------- MODULE MCTranp -----------------------------
(* Module graphs for exhaustive exploration of Tranp.tla *)
EXTENDS Tranp

ChainMods == {"a", "b", "c"}
ChainImports == [a |-> <<"b">>, b |-> <<"c">>, c |-> <<>>]
ChainTargets == <<"a", "b", "c">>

PairMods == {"b", "c"}
PairImports == [b |-> <<"c">>, c |-> <<>>]
PairTargets == <<"b", "c">>

DiamondMods == {"a", "b", "c", "d"}
DiamondImports == [a |-> <<"b", "c">>, b |-> <<"d">>, c |-> <<"d">>, d |-> <<>>]
DiamondTargets == <<"d", "a", "c", "b">>

\* twins: a imports two leaves that are written from the same family of contents - what b holds today c may hold
\* tomorrow (the contents of two files can be exchanged); the leaves start with different contents
TwinsMods == {"a", "b", "c"}
TwinsImports == [a |-> <<"b", "c">>, b |-> <<>>, c |-> <<>>]
TwinsTargets == <<"a", "b", "c">>
TwinsInit == /\ src = [m \in Mods |-> IF m = "c" THEN 2 ELSE 1]
             /\ mtime = [m \in Mods |-> 1]
             /\ ast = [m \in Mods |-> None] /\ sym = [m \in Mods |-> None] /\ parser = "none"
             /\ out = [m \in Mods |-> None]
             /\ ntorn = 0
             /\ op = [name |-> "init"]

\* the contents of two files exchanged in one step (files renamed across each other, a directory restored from a
\* backup, ...): both get a new modification time
Swap(m1, m2) ==
  /\ m1 # m2 /\ src[m1] # src[m2] /\ MaxT = 0
  /\ src' = [src EXCEPT ![m1] = src[m2], ![m2] = src[m1]]
  /\ mtime' = [mtime EXCEPT ![m1] = mtime[m1] + 1, ![m2] = mtime[m2] + 1]
  /\ op' = [name |-> "swap", m1 |-> m1, m2 |-> m2]
  /\ UNCHANGED <<ast, sym, parser, out, ntorn>>
\* only the two leaves share a family of contents
TwinsNext == Next \/ Swap("b", "c")

\* variant 5: the top module of the pair is BLANK (no statement at all), the leaf gets a comment - a module may be edited to
\* nothing and back
V125 == {1, 2, 5}
Body125 == [v \in V125 |-> v]
V2 == 1..2
Body2 == [v \in V2 |-> v]
V3 == 1..3
\* three variants with three different bodies (a stale tree of one of them is visible in the output)
V124 == {1, 2, 4}
Body124 == [v \in V124 |-> v]
Body3 == [v \in V3 |-> IF v = 3 THEN 1 ELSE v]     \* variant 3 = variant 1 with a different layout
=============================================================================
