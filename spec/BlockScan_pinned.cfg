CONSTANTS
  QuoteFix = FALSE
  MaxSteps = 4
INIT Init
NEXT Next
INVARIANT CodedIsIntended
CHECK_DEADLOCK FALSE
