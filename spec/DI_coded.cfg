\* Exhaustive exploration of the container as coded at the pinned commit
CONSTANTS
  MaxC = 3
  MaxOps = 5
  MaxInst = 6
  CombineFixed = FALSE
  Sym <- MCSym
  SymFacs <- MCSymFacs
  InvokeFns <- MCInvokeFns
  Params <- MCParams
  Templates <- MCTemplates
  ExtraVals <- MCExtraVals
  InvokeFixed = FALSE
INIT Init
NEXT Next
VIEW View
CONSTRAINT Bounded
INVARIANT TypeOK
INVARIANT Layered
INVARIANT InstanceOfBinding
PROPERTY InstanceStable
PROPERTY ResolveReturnsHeld
PROPERTY RebindDiscards
PROPERTY RebindTotal
PROPERTY CombineRightWins
PROPERTY OperandsUnaffected
PROPERTY UnknownRaises
PROPERTY OnlyValueError
PROPERTY InvokePrefixRule
PROPERTY InvokeMismatchRaises
CHECK_DEADLOCK FALSE
