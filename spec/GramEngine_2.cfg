CONSTANTS
  N = 2
  ParenFix = TRUE
  Rich = FALSE
  MaxLen = 3
  RegexMatch <- SmallRegexMatch
