------------------------------ MODULE OwnGram ------------------------------
(***************************************************************************)
(* Source model restricted to the sub-language of data/syntax/py_gram.lark *)
(* (the Python grammar shipped for tranp's own parsing engine): expression *)
(* skeletons with exactly N constructs, rendered with the parentheses the  *)
(* precedence ladder of THAT grammar requires (it is stricter than         *)
(* Python's in places: unary minus and `not` take no second prefix         *)
(* operator, a ternary operand is never a bare ternary or lambda), so      *)
(* every generated sentence is derivable from py_gram and is valid Python. *)
(* Canon(e) is the structure CPython's ast assigns.                        *)
(***************************************************************************)
EXTENDS Integers, Sequences, FiniteSets, TLC, Json

CONSTANTS N

BoolOps == {"or", "and"}
CmpOps == {"<", ">", "==", "<=", ">=", "!=", "in", "not in", "is", "is not"}
BinOps == {"+", "-", "*", "/", "%"}
Leaf == [k |-> "leaf"]

Splits2(n) == {<<i, n - i>> : i \in 0..n}
RECURSIVE E(_)
E(n) ==
  IF n = 0 THEN {Leaf}
  ELSE UNION {{[k |-> "bool", op |-> o, l |-> x, r |-> y] : o \in BoolOps, x \in E(i), y \in E(n - 1 - i)} : i \in 0..(n - 1)}
       \cup {[k |-> "not", e |-> x] : x \in E(n - 1)}
       \cup UNION {{[k |-> "cmp", op |-> o, l |-> x, r |-> y] : o \in CmpOps, x \in E(i), y \in E(n - 1 - i)} : i \in 0..(n - 1)}
       \cup UNION {{[k |-> "bin", op |-> o, l |-> x, r |-> y] : o \in BinOps, x \in E(i), y \in E(n - 1 - i)} : i \in 0..(n - 1)}
       \cup {[k |-> "neg", e |-> x] : x \in E(n - 1)}
       \cup UNION {UNION {{[k |-> "tern", c |-> c, a |-> x, b |-> y] : c \in E(i), x \in E(j), y \in E(n - 1 - i - j)} : j \in 0..(n - 1 - i)} : i \in 0..(n - 1)}
       \cup {[k |-> "attr", e |-> x] : x \in E(n - 1)}
       \cup {[k |-> "call0", e |-> x] : x \in E(n - 1)}
       \cup UNION {{[k |-> kk, e |-> x, a |-> y] : kk \in {"call1", "callkw", "callstar", "index"}, x \in E(i), y \in E(n - 1 - i)} : i \in 0..(n - 1)}
       \cup UNION {{[k |-> kk, l |-> x, r |-> y] : kk \in {"list2", "tuple2"}, x \in E(i), y \in E(n - 1 - i)} : i \in 0..(n - 1)}
       \cup {[k |-> "list1", e |-> x] : x \in E(n - 1)}
       \cup {[k |-> "dict1", e |-> x] : x \in E(n - 1)}     \* keys of a dict literal are string literals in py_gram
       \cup {[k |-> kk, e |-> x] : kk \in {"lambda", "lambda0", "lambda2"}, x \in E(n - 1)}
       \cup {[k |-> "walrus", e |-> x] : x \in E(n - 1)}
       \* comparison chain: two operators, three operands (its own family)
       \cup (IF n >= 2 THEN {[k |-> "chain", op1 |-> o1, op2 |-> o2, a |-> Leaf, b |-> Leaf, c |-> Leaf] : o1 \in {"<", "=="}, o2 \in {"<=", "!="}} ELSE {})

\* leaves in text order cycle through a pool of spellings: names that begin with a keyword or a literal, literals of
\* every terminal class (several digits, decimals, both quote kinds with escapes), the three constants
V(n) == [k |-> "var", name |-> n]
I(t, v) == [k |-> "int", text |-> t, v |-> v]
F(t) == [k |-> "float", text |-> t]
S(t, v) == [k |-> "str", text |-> t, s |-> v]
C(t) == [k |-> "const", text |-> t]
LeafPool == << V("a"), V("b"), I("1", 1), V("c"), S("'s'", "s"), V("Truex"), F("1.5"), V("notx"), I("10", 10), C("True"),
               V("in_1"), S("\"d\"", "d"), V("Nonesuch"), F("0.25"), V("isx"), I("0", 0), C("None"), V("orb"), S("'a\\'b'", "a'b"), V("andy"),
               F("10.0"), V("iffy"), I("207", 207), C("False"), V("lambda_"), S("\"q\\\"r\"", "q\"r"), V("_u"), S("''", ""), V("elsex"), V("x1") >>
RECURSIVE Label(_, _)
LeafNode(i) == LeafPool[(i % Len(LeafPool)) + 1]
Label(x, i) ==
  CASE x.k = "leaf" -> [e |-> LeafNode(i), n |-> i + 1]
    [] x.k \in {"bool", "cmp", "bin", "list2", "tuple2"} ->
         (LET L == Label(x.l, i)  R == Label(x.r, L.n) IN [e |-> [x EXCEPT !.l = L.e, !.r = R.e], n |-> R.n])
    [] x.k \in {"not", "neg", "attr", "call0", "list1", "dict1", "lambda", "lambda0", "lambda2", "walrus"} ->
         (LET X == Label(x.e, i) IN [e |-> [x EXCEPT !.e = X.e], n |-> X.n])
    [] x.k \in {"call1", "callkw", "callstar", "index"} ->
         (LET X == Label(x.e, i)  A == Label(x.a, X.n) IN [e |-> [x EXCEPT !.e = X.e, !.a = A.e], n |-> A.n])
    [] x.k = "tern" -> (LET A == Label(x.a, i)  C1 == Label(x.c, A.n)  B == Label(x.b, C1.n) IN [e |-> [x EXCEPT !.a = A.e, !.c = C1.e, !.b = B.e], n |-> B.n])
    [] x.k = "chain" -> (LET A == Label(x.a, i)  B == Label(x.b, A.n)  C1 == Label(x.c, B.n) IN [e |-> [x EXCEPT !.a = A.e, !.b = B.e, !.c = C1.e], n |-> C1.n])
CONSTANTS Offsets          \* the pool position of the first leaf; every offset gives the whole universe again
ExprsFrom(off) == {Label(s, off).e : s \in E(N)}
Exprs == ExprsFrom(0)

\* levels of py_gram's ladder
Prec(x) == CASE x.k \in {"lambda", "lambda0", "lambda2"} -> 1 [] x.k = "tern" -> 2
             [] x.k = "bool" -> (IF x.op = "or" THEN 3 ELSE 4) [] x.k = "not" -> 5
             [] x.k \in {"cmp", "chain"} -> 6
             [] x.k = "bin" -> (IF x.op \in {"+", "-"} THEN 11 ELSE 12)
             [] x.k = "neg" -> 13
             [] OTHER -> 16
RECURSIVE Text(_)
P(x, need) == IF Prec(x) < need THEN "(" \o Text(x) \o ")" ELSE Text(x)
\* a callee / receiver must be a reference chain: literals and strings get no postfix in the generated sentences
Postfixable(x) == x.k \in {"var", "attr", "call0", "call1", "callkw", "callstar", "index"}
Q(x) == IF Postfixable(x) THEN Text(x) ELSE "(" \o Text(x) \o ")"
Text(x) ==
  CASE x.k = "var" -> x.name [] x.k \in {"int", "float", "str", "const"} -> x.text
    [] x.k = "bool" -> P(x.l, Prec(x)) \o " " \o x.op \o " " \o P(x.r, Prec(x) + 1)
    [] x.k = "not" -> "not " \o P(x.e, 6)
    [] x.k = "cmp" -> P(x.l, 11) \o " " \o x.op \o " " \o P(x.r, 11)
    [] x.k = "chain" -> Text(x.a) \o " " \o x.op1 \o " " \o Text(x.b) \o " " \o x.op2 \o " " \o Text(x.c)
    [] x.k = "bin" -> P(x.l, Prec(x)) \o " " \o x.op \o " " \o P(x.r, Prec(x) + 1)
    [] x.k = "neg" -> "-" \o P(x.e, 16)
    [] x.k = "tern" -> P(x.a, 3) \o " if " \o P(x.c, 3) \o " else " \o P(x.b, 3)
    [] x.k = "attr" -> Q(x.e) \o ".m"
    [] x.k = "call0" -> Q(x.e) \o "()"
    [] x.k = "call1" -> Q(x.e) \o "(" \o P(x.a, 1) \o ")"
    [] x.k = "callkw" -> Q(x.e) \o "(k=" \o P(x.a, 1) \o ")"
    [] x.k = "callstar" -> Q(x.e) \o "(*" \o P(x.a, 3) \o ")"
    [] x.k = "index" -> Q(x.e) \o "[" \o P(x.a, 2) \o "]"
    [] x.k = "list1" -> "[" \o P(x.e, 1) \o "]"
    [] x.k = "list2" -> "[" \o P(x.l, 1) \o ", " \o P(x.r, 1) \o "]"
    [] x.k = "tuple2" -> "(" \o P(x.l, 1) \o ", " \o P(x.r, 1) \o ")"
    [] x.k = "dict1" -> "{'k': " \o P(x.e, 1) \o "}"
    [] x.k = "lambda" -> "lambda p: " \o P(x.e, 2)
    [] x.k = "lambda0" -> "lambda: " \o P(x.e, 2)
    [] x.k = "lambda2" -> "lambda p, q: " \o P(x.e, 2)
    [] x.k = "walrus" -> "(w := " \o P(x.e, 3) \o ")"

\* structure as CPython's ast sees it
RECURSIVE Canon(_)
Canon(x) ==
  CASE x.k = "var" -> <<"var", x.name>> [] x.k = "int" -> <<"int", x.v>> [] x.k = "str" -> <<"str", x.s>>
    [] x.k = "float" -> <<"float", x.text>> [] x.k = "const" -> <<"const", x.text>>
    [] x.k \in {"bool", "cmp", "bin"} -> <<x.k, x.op, Canon(x.l), Canon(x.r)>>
    [] x.k = "chain" -> <<"chain", <<x.op1, x.op2>>, <<Canon(x.a), Canon(x.b), Canon(x.c)>>>>
    [] x.k = "not" -> <<"not", Canon(x.e)>>
    [] x.k = "neg" -> <<"un", "-", Canon(x.e)>>
    [] x.k = "tern" -> <<"tern", Canon(x.c), Canon(x.a), Canon(x.b)>>
    [] x.k = "attr" -> <<"attr", Canon(x.e), "m">>
    [] x.k = "call0" -> <<"call", Canon(x.e), <<>>>>
    [] x.k = "call1" -> <<"call", Canon(x.e), <<<<"pos", Canon(x.a)>>>>>>
    [] x.k = "callkw" -> <<"call", Canon(x.e), <<<<"kw", "k", Canon(x.a)>>>>>>
    [] x.k = "callstar" -> <<"call", Canon(x.e), <<<<"star", Canon(x.a)>>>>>>
    [] x.k = "index" -> <<"index", Canon(x.e), Canon(x.a)>>
    [] x.k = "list1" -> <<"list", <<Canon(x.e)>>>>
    [] x.k = "list2" -> <<"list", <<Canon(x.l), Canon(x.r)>>>>
    [] x.k = "tuple2" -> <<"tuple", <<Canon(x.l), Canon(x.r)>>>>
    [] x.k = "dict1" -> <<"dict", <<<<<<"str", "k">>, Canon(x.e)>>>>>>
    [] x.k = "lambda" -> <<"lambda", <<"p">>, Canon(x.e)>>
    [] x.k = "lambda0" -> <<"lambda", <<>>, Canon(x.e)>>
    [] x.k = "lambda2" -> <<"lambda", <<"p", "q">>, Canon(x.e)>>
    [] x.k = "walrus" -> <<"walrus", "w", Canon(x.e)>>

\* an expression that may stand left of `=` (a name, an attribute, a subscript - whatever chain leads to it) as the target
\* of an assignment: the statement's target is the very tree the expression has on its own
Targetable(x) == x.k \in {"var", "attr", "index"}
EmitAssign == \A off \in Offsets : \A x \in {y \in ExprsFrom(off) : Targetable(y)} :
   PrintT("ASSIGN " \o ToJson([text |-> Text(x) \o " = v9", canon |-> <<"assign", Canon(x), <<"var", "v9">>>>, top |-> "assign-" \o x.k, off |-> off]))
Emit == \A off \in Offsets : \A x \in ExprsFrom(off) : PrintT("CASE " \o ToJson([text |-> Text(x), canon |-> Canon(x), top |-> x.k, off |-> off]))
=============================================================================
