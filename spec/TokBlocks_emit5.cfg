CONSTANTS
  MaxLines = 5
  Consistent = TRUE
INIT Init
NEXT Next
INVARIANT EmitCase
CHECK_DEADLOCK FALSE
