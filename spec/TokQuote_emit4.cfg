CONSTANTS
  MaxBody = 4
  EscapedSkip = "one"
INIT Init
NEXT Next
INVARIANT EmitCase
CHECK_DEADLOCK FALSE
