CONSTANTS
  NOps = 2
