CONSTANTS
  QuoteFix = TRUE
  MaxSteps = 0
INIT Init
NEXT Next
CHECK_DEADLOCK FALSE
