----------------------------- MODULE BlockScan -----------------------------
(***************************************************************************)
(* Fragment splitting helpers of rog-works/tranp                           *)
(* (rogw/tranp/view/helper/block.py: BlockParser.break_separator,          *)
(* break_last_block, _skip_other_block).                                   *)
(*                                                                         *)
(* Fragments are GENERATED BALANCED by a small action system (atoms,       *)
(* quoted strings, delimiters, bracket groups of the four kinds), so TLC   *)
(* enumerates every fragment of up to MaxSteps grammar steps.  For each    *)
(* complete fragment two semantics are defined:                            *)
(*   Intended: brackets and quotes nest; inside a quoted string nothing    *)
(*             counts (C18's statement)                                    *)
(*   Coded   : the scanner as written.  At the pinned commit one closer    *)
(*             stack was shared by brackets and quotes (QuoteFix = FALSE); *)
(*             the repaired scanner treats string literals as opaque      *)
(* C18's laws are stated on the results; TLC reports where Coded deviates  *)
(* from Intended at design level; the harness replays the real functions   *)
(* against both.                                                           *)
(***************************************************************************)
EXTENDS Integers, Sequences, FiniteSets, TLC, Json

CONSTANTS MaxSteps,
          QuoteFix     \* TRUE: the scanner as repaired (string literals are opaque); FALSE: as at the pinned commit

VARIABLES text,    \* sequence of one-character strings
          nest,    \* closers of the groups still open (generation side)
          last,    \* "start" | "atom" | "delim" | "open"
          steps
vars == <<text, nest, last, steps>>

Opens == <<"(", "[", "{", "<">>
CloserOf == [x \in {"(", "[", "{", "<", "\"", "'"} |-> CASE x = "(" -> ")" [] x = "[" -> "]" [] x = "{" -> "}" [] x = "<" -> ">" [] x = "\"" -> "\"" [] x = "'" -> "'"]
Delims == {",", ":", "=", " "}
\* atoms: identifier, number, quoted strings whose content holds delimiters / brackets / the other quote
Atoms == { <<"a">>, <<"b", "1">>, <<"7">>,
           <<"\"", "x", "\"">>, <<"\"", ",", "\"">>, <<"'", ":", " ", "'">>,
           <<"\"", "(", "\"">>, <<"'", "]", "'">>, <<"\"", "'", "\"">>, <<"\"", "<", "x", ">", "\"">> }

Init == text = <<>> /\ nest = <<>> /\ last = "start" /\ steps = 0

AddAtom(a) == /\ last \in {"start", "delim", "open"} /\ steps < MaxSteps
              /\ text' = text \o a /\ last' = "atom" /\ steps' = steps + 1 /\ UNCHANGED nest
AddDelim(d) == /\ last = "atom" /\ steps < MaxSteps
               /\ text' = Append(text, d) /\ last' = "delim" /\ steps' = steps + 1 /\ UNCHANGED nest
\* a group may follow an atom directly (call / subscript / template) or stand alone
Open(i) == /\ last \in {"start", "delim", "open", "atom"} /\ steps < MaxSteps /\ Len(nest) < 2
           /\ text' = Append(text, Opens[i]) /\ nest' = Append(nest, CloserOf[Opens[i]]) /\ last' = "open" /\ steps' = steps + 1
Close == /\ last \in {"atom", "open"} /\ nest # <<>>
         /\ text' = Append(text, nest[Len(nest)]) /\ nest' = SubSeq(nest, 1, Len(nest) - 1) /\ last' = "atom"
         /\ steps' = steps        \* closing is forced, not a free step
\* whole groups that follow an atom or another group directly, with delimiters at their own top level: call after
\* subscript, call of a call result, template arguments before a call - a[0](b,c), f(x = 1)(b,c), T<A>(b,c)
GroupAtoms == { <<"(", "b", ",", "c", ")">>, <<"[", "0", "]">>, <<"(", "x", " ", "=", " ", "1", ")">>, <<"<", "A", ":", "B", ">">> }
AddGroup(g) == /\ last = "atom" /\ steps < MaxSteps
               /\ text' = text \o g /\ last' = "atom" /\ steps' = steps + 1 /\ UNCHANGED nest
\* whole groups that stand alone behind a delimiter (also the blank), an opener or at the start, with delimiters inside:
\* a <b,c>   x = {k: v}   f((b c), d)
StandaloneGroups == { <<"<", "b", ",", "c", ">">>, <<"{", "k", ":", " ", "v", "}">> }
AddStandalone(g) == /\ last \in {"start", "delim", "open"} /\ steps < MaxSteps
                    /\ text' = text \o g /\ last' = "atom" /\ steps' = steps + 1 /\ UNCHANGED nest
Next == (\E g \in StandaloneGroups : AddStandalone(g)) \/ (\E a \in Atoms : AddAtom(a)) \/ (\E d \in Delims : AddDelim(d)) \/ (\E i \in 1..4 : Open(i)) \/ Close \/ (\E g \in GroupAtoms : AddGroup(g))
Complete == nest = <<>> /\ last = "atom"

-----------------------------------------------------------------------------
(* Intended semantics: nesting depth with quote awareness *)
IsQuote(c) == c \in {"\"", "'"}
IsOpen(c) == c \in {"(", "[", "{", "<"}
IsClose(c) == c \in {")", "]", "}", ">"}

\* per position: TRUE iff the character at i is at top level (outside every bracket group and quoted string)
RECURSIVE TopLevelFrom(_, _, _, _, _)
TopLevelFrom(t, i, depth, q, acc) ==
  IF i > Len(t) THEN acc
  ELSE LET c == t[i] IN
       IF q # "" THEN TopLevelFrom(t, i + 1, depth, IF c = q THEN "" ELSE q, Append(acc, FALSE))
       ELSE IF IsQuote(c) THEN TopLevelFrom(t, i + 1, depth, c, Append(acc, FALSE))
       ELSE IF IsOpen(c) THEN TopLevelFrom(t, i + 1, depth + 1, "", Append(acc, FALSE))
       ELSE IF IsClose(c) THEN TopLevelFrom(t, i + 1, depth - 1, "", Append(acc, FALSE))
       ELSE TopLevelFrom(t, i + 1, depth, "", Append(acc, depth = 0))
TopLevel(t) == TopLevelFrom(t, 1, 0, "", <<>>)

\* cut positions: top-level delimiter characters, except one in the last position (boundary rule of the code)
CutsIntended(t, d) == {i \in 1..Len(t) : t[i] = d /\ TopLevel(t)[i] /\ i < Len(t)}

RECURSIVE StripL(_), StripR(_)
StripL(s) == IF s # <<>> /\ s[1] = " " THEN StripL(Tail(s)) ELSE s
StripR(s) == IF s # <<>> /\ s[Len(s)] = " " THEN StripR(SubSeq(s, 1, Len(s) - 1)) ELSE s
Strip(s) == StripR(StripL(s))

RECURSIVE PiecesFrom(_, _, _)
\* pieces between consecutive cuts (ascending), stripped of blanks; a trailing empty remainder is dropped
PiecesFrom(t, cuts, begin) ==
  IF cuts = {} THEN (IF begin <= Len(t) THEN <<Strip(SubSeq(t, begin, Len(t)))>> ELSE <<>>)
  ELSE LET c == CHOOSE x \in cuts : \A y \in cuts : x <= y IN
       <<Strip(SubSeq(t, begin, c - 1))>> \o PiecesFrom(t, cuts \ {c}, c + 1)
SplitIntended(t, d) == PiecesFrom(t, CutsIntended(t, d), 1)

-----------------------------------------------------------------------------
(* Coded semantics: break_separator with _skip_other_block *)
Pairs == <<"[", "]", "(", ")", "{", "}", "<", ">", "\"", "\"", "'", "'">>    \* ''.join(_all_pair)
PairIndex(c) == LET s == {i \in 1..Len(Pairs) : Pairs[i] = c} IN IF s = {} THEN 0 ELSE CHOOSE i \in s : \A j \in s : i <= j   \* str.find + 1
OpenTokens == {"[", "(", "{", "<", "\"", "'"}

\* _skip_other_block(text, other_tokens, begin): returns the index after the block (1-based: first unread)
RECURSIVE SkipFrom(_, _, _)
SkipFrom(t, i, closes) ==
  IF i > Len(t) THEN i
  ELSE LET c == t[i]
           pi == PairIndex(c)
           closes2 == IF pi = 0 THEN closes
                      ELSE IF closes # <<>> /\ closes[Len(closes)] = c THEN SubSeq(closes, 1, Len(closes) - 1)
                      ELSE IF QuoteFix /\ closes # <<>> /\ closes[Len(closes)] \in {"\"", "'"} THEN closes
                      ELSE IF pi % 2 = 1 THEN Append(closes, Pairs[pi + 1])      \* an opener (even 0-based index)
                      ELSE closes
       IN IF closes2 = <<>> THEN i + 1 ELSE SkipFrom(t, i + 1, closes2)

RECURSIVE CodedFrom(_, _, _, _, _)
CodedFrom(t, d, i, begin, blocks) ==
  IF i > Len(t) THEN (IF begin < i THEN Append(blocks, Strip(SubSeq(t, begin, Len(t)))) ELSE blocks)
  ELSE IF t[i] \in OpenTokens THEN CodedFrom(t, d, SkipFrom(t, i, <<>>), begin, blocks)
  ELSE IF t[i] = d /\ i < Len(t) THEN CodedFrom(t, d, i + 1, i + 1, Append(blocks, Strip(SubSeq(t, begin, i - 1))))
  ELSE CodedFrom(t, d, i + 1, begin, blocks)
SplitCoded(t, d) == CodedFrom(t, d, 1, 1, <<>>)

\* break_last_block(text, brackets): counts only the given pair, ignores quotes and other brackets
RECURSIVE LastBlockFrom(_, _, _, _, _, _, _)
LastBlockFrom(t, br, i, begin, stack, ranges, q) ==
  IF i > Len(t) THEN ranges
  ELSE IF QuoteFix /\ (q # "" \/ t[i] \in {"\"", "'"})
       THEN LastBlockFrom(t, br, i + 1, begin, stack, ranges, IF t[i] = q THEN "" ELSE IF q # "" THEN q ELSE t[i])
  ELSE IF t[i] = br[1] /\ stack = 0 THEN LastBlockFrom(t, br, i + 1, i + 1, 1, ranges, q)
  ELSE IF t[i] = br[1] THEN LastBlockFrom(t, br, i + 1, begin, stack + 1, ranges, q)
  ELSE IF t[i] = br[2] /\ stack = 1 THEN LastBlockFrom(t, br, i + 1, begin, 0, Append(ranges, <<begin, i>>), q)
  ELSE IF t[i] = br[2] /\ stack > 1 THEN LastBlockFrom(t, br, i + 1, begin, stack - 1, ranges, q)
  ELSE LastBlockFrom(t, br, i + 1, begin, stack, ranges, q)
LastBlockCoded(t, br) == LET rs == LastBlockFrom(t, br, 1, 1, 0, <<>>, "") IN
                         IF rs = <<>> THEN <<>>
                         ELSE LET r == rs[Len(rs)] IN <<SubSeq(t, 1, r[1] - 2), SubSeq(t, r[1], r[2] - 1)>>

\* intended: the last top-level group of that kind (quote-aware): prefix before its opener, inside
RECURSIVE GroupsFrom(_, _, _, _, _, _, _)
GroupsFrom(t, br, i, depth, q, begin, acc) ==
  IF i > Len(t) THEN acc
  ELSE LET c == t[i] IN
       IF q # "" THEN GroupsFrom(t, br, i + 1, depth, IF c = q THEN "" ELSE q, begin, acc)
       ELSE IF IsQuote(c) THEN GroupsFrom(t, br, i + 1, depth, c, begin, acc)
       ELSE IF c = br[1] THEN GroupsFrom(t, br, i + 1, depth + 1, "", IF depth = 0 THEN i + 1 ELSE begin, acc)
       ELSE IF c = br[2] THEN GroupsFrom(t, br, i + 1, depth - 1, "", begin, IF depth = 1 THEN Append(acc, <<begin, i>>) ELSE acc)
       ELSE GroupsFrom(t, br, i + 1, depth, "", begin, acc)
LastBlockIntended(t, br) == LET rs == GroupsFrom(t, br, 1, 0, "", 1, <<>>) IN
                            IF rs = <<>> THEN <<>>
                            ELSE LET r == rs[Len(rs)] IN <<SubSeq(t, 1, r[1] - 2), SubSeq(t, r[1], r[2] - 1)>>

-----------------------------------------------------------------------------
(* C18's laws on the intended semantics (checked by TLC on every complete fragment) *)
RECURSIVE JoinSeqs(_, _)
JoinSeqs(ps, d) == IF ps = <<>> THEN <<>> ELSE IF Len(ps) = 1 THEN ps[1] ELSE ps[1] \o <<d>> \o JoinSeqs(Tail(ps), d)
Squeeze(s) == SelectSeq(s, LAMBDA c : c # " ")          \* "up to surrounding blanks"
Balanced(s) == LET tl == TopLevelFrom(s, 1, 0, "", <<>>) IN
               \* never negative and back to depth 0, quotes closed: re-scan with an explicit depth check
               LET RECURSIVE Chk(_, _, _)
                   Chk(i, depth, q) == IF i > Len(s) THEN depth = 0 /\ q = ""
                                       ELSE LET c == s[i] IN
                                            IF q # "" THEN Chk(i + 1, depth, IF c = q THEN "" ELSE q)
                                            ELSE IF IsQuote(c) THEN Chk(i + 1, depth, c)
                                            ELSE IF IsOpen(c) THEN Chk(i + 1, depth + 1, "")
                                            ELSE IF IsClose(c) THEN (depth > 0 /\ Chk(i + 1, depth - 1, ""))
                                            ELSE Chk(i + 1, depth, "")
               IN Chk(1, 0, "")

LawRejoin == Complete => \A d \in Delims \ {" "} : Squeeze(JoinSeqs(SplitIntended(text, d), d)) = Squeeze(text)
LawPiecesBalanced == Complete => \A d \in Delims : \A i \in DOMAIN SplitIntended(text, d) : Balanced(SplitIntended(text, d)[i])
LawGeneratedBalanced == Complete => Balanced(text)
\* design-level comparison: where does the scanner as coded deviate from the intended semantics?
CodedIsIntended == Complete => \A d \in Delims : SplitCoded(text, d) = SplitIntended(text, d)

-----------------------------------------------------------------------------
Str(s) == LET RECURSIVE J(_) J(x) == IF x = <<>> THEN "" ELSE x[1] \o J(Tail(x)) IN J(s)
Strs(ps) == [i \in DOMAIN ps |-> Str(ps[i])]
HasGroup(br) == \E i \in DOMAIN text : text[i] = br[1] /\ TopLevelFrom(text, 1, 0, "", <<>>) # <<>>
\* nesting level after k characters (k = 0 .. Len): every bracket group and every quoted string counts one level; brackets
\* inside a string count nothing.  A piece text[a+1 .. b] is balanced iff Levels[a] = Levels[b] and no level in between
\* is lower; it is one whole group iff, on top of that, the level stays higher strictly inside.  (Sequence index k + 1.)
RECURSIVE LevelsFrom(_, _, _, _, _)
LevelsFrom(t, i, depth, q, acc) ==
  IF i > Len(t) THEN acc
  ELSE LET c == t[i] IN
       IF q # "" THEN (IF c = q THEN LevelsFrom(t, i + 1, depth - 1, "", Append(acc, depth - 1)) ELSE LevelsFrom(t, i + 1, depth, q, Append(acc, depth)))
       ELSE IF IsQuote(c) THEN LevelsFrom(t, i + 1, depth + 1, c, Append(acc, depth + 1))
       ELSE IF IsOpen(c) THEN LevelsFrom(t, i + 1, depth + 1, "", Append(acc, depth + 1))
       ELSE IF IsClose(c) THEN LevelsFrom(t, i + 1, depth - 1, "", Append(acc, depth - 1))
       ELSE LevelsFrom(t, i + 1, depth, "", Append(acc, depth))
Levels(t) == LevelsFrom(t, 1, 0, "", <<0>>)
\* the two readings of "balanced" agree on every piece of the intended split
LawLevelsAgree == Complete => /\ Levels(text)[Len(text) + 1] = 0
                              /\ \A k \in DOMAIN Levels(text) : Levels(text)[k] >= 0
\* per character: TRUE iff it is a quote character or stands inside a quoted string
RECURSIVE QuotedFrom(_, _, _, _)
QuotedFrom(t, i, q, acc) ==
  IF i > Len(t) THEN acc
  ELSE LET c == t[i] IN
       IF q # "" THEN QuotedFrom(t, i + 1, IF c = q THEN "" ELSE q, Append(acc, TRUE))
       ELSE IF IsQuote(c) THEN QuotedFrom(t, i + 1, c, Append(acc, TRUE))
       ELSE QuotedFrom(t, i + 1, "", Append(acc, FALSE))
Quoted(t) == QuotedFrom(t, 1, "", <<>>)
Case == [text |-> Str(text), levels |-> Levels(text), quoted |-> Quoted(text),
         split |-> [d \in Delims |-> [intended |-> Strs(SplitIntended(text, d)), coded |-> Strs(SplitCoded(text, d))]],
         last |-> [b \in {"()", "[]", "{}", "<>"} |->
                    LET br == CASE b = "()" -> <<"(", ")">> [] b = "[]" -> <<"[", "]">> [] b = "{}" -> <<"{", "}">> [] b = "<>" -> <<"<", ">">> IN
                    [intended |-> Strs(LastBlockIntended(text, br)), coded |-> Strs(LastBlockCoded(text, br))]]]
EmitCase == Complete => PrintT("CASE " \o ToJson(Case))

(* composite users: a parameter `type name [= default]` decomposed with break_separator on "=" and " " *)
(* (CppViewHelper.Param.parse) must give back exactly type, name and default                            *)
ParamTypes == {"int", "int*", "const std::string&", "std::vector<int>", "std::map<std::string, int>", "std::function<int(int, int)>", "const std::map<A, B<C, D>>&"}
ParamNames == {"n", "p_1"}
ParamDefaults == {"", "0", "nullptr", "{1, 2}", "f(1, 2)", "std::map<int, int>{}", "\"a = b\"", "\"x y\"", "g<int, int>(a)", "a == b", "'('"}
ParamCases == {[type |-> t, name |-> n, default |-> d] : t \in ParamTypes, n \in ParamNames, d \in ParamDefaults}
EmitParams == \A c \in ParamCases : PrintT("PARAM " \o ToJson(c))
=============================================================================
