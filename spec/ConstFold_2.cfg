CONSTANTS
  Depth = 2
  Leaves2 <- SmallLeaves
