CONSTANTS
  MaxLines = 2
  MaxInd = 2
  Pool <- AllBodies
  MaxRewrites = 3
INIT Init
NEXT Next
INVARIANT EmitCase
CHECK_DEADLOCK FALSE
