CONSTANTS
  Mods <- ChainMods
  Imports <- ChainImports
  Targets <- ChainTargets
  Variants <- V3
  BodyOf <- Body3
  MaxOps = 14
  NWalks = 12
  MaxT = 0
  AstHash = TRUE
  MaxTorn = 0
  TransitiveKey = FALSE
  DeepHeader = FALSE
  StoreGated = TRUE
  WithCache = FALSE
  WithOutputs = TRUE
INIT WInit
NEXT WNext
VIEW WView
CONSTRAINT Bounded
ACTION_CONSTRAINT WEmit
CHECK_DEADLOCK FALSE
