CONSTANTS
  Depth = 4
