CONSTANTS
  Depth = 1
  Leaves2 <- SmallLeaves
