CONSTANTS
  Depth = 2
