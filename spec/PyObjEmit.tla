----------------------------- MODULE PyObjEmit ------------------------------
EXTENDS PyObj
ASSUME PrintT("DISPATCH " \o ToString(DispatchIsDynamic))
ASSUME PrintT("SUPER " \o ToString(SuperReachesParent))
ASSUME PrintT("BASEUNAFFECTED " \o ToString(BaseUnaffected))
ASSUME EmitArgs
ASSUME EmitClasses
ASSUME EmitProgs
ASSUME PrintT("UNIVERSE " \o ToString(Cardinality(Variants)) \o " class tables x " \o ToString(Cardinality(Programs)) \o " op sequences")
=============================================================================
