------------------------------- MODULE Tranp -------------------------------
(***************************************************************************)
(* Root model of rog-works/tranp as a file-processing system: source       *)
(* files, the three on-disk caches, the output directory with its meta     *)
(* headers, and runs of the command-line runner (one process per run).     *)
(*                                                                         *)
(* Contents are abstracted by what they were DERIVED FROM: a symbol table  *)
(* or an output text of module m is the function [d \in Closure(m) |->     *)
(* variant of d it was computed from].  The module family the harness      *)
(* generates is built so that this "may depend on" is exact (each module   *)
(* re-exports an un-annotated value whose type comes from its imports).    *)
(*                                                                         *)
(* Keys are modelled AS THE CODE COMPUTES THEM:                            *)
(*   AST cache      : module + mtime of the source (+ grammar mtime, fixed)*)
(*   symbol cache   : hash of own content + content of DIRECT imports      *)
(*                    (Module.identity)            [TransitiveKey = FALSE] *)
(*   output header  : hash of the module's OWN source                      *)
(*                    (MetaHeader / Runner.can_transpile)  [DeepHeader = FALSE] *)
(* The two constants switch to the sound variants, to show the abstraction *)
(* separates the coded design from a correct one.                          *)
(***************************************************************************)
EXTENDS Integers, Sequences, FiniteSets, TLC, Json

CONSTANTS Mods,          \* module names
          Imports,       \* [Mods -> sequence of directly imported modules]   (acyclic)
          Targets,       \* sequence of modules given to the runner, in order
          Variants,      \* e.g. 1..3
          BodyOf,        \* [Variants -> class]: variants in one class differ in layout only (same emitted text, other file hash)
          MaxOps,
          AstHash,       \* TRUE = the tree cache is keyed by the content hash of the source too (repaired), FALSE = by modification time only (pinned commit)
          MaxT,          \* 0: every edit advances the modification time; k > 0: an edit sets any time in 1..k other than the current one
          MaxTorn,       \* max number of cache files damaged by an interrupted write
          TransitiveKey, \* FALSE = as coded
          DeepHeader,    \* FALSE = as coded
          StoreGated,    \* TRUE = symbol store honours CacheSetting.enabled (repaired), FALSE = as at the pinned commit
          WithCache,     \* TRUE: cache actions enabled (C05 configuration)
          WithOutputs    \* TRUE: output directory / forced runs / deletions enabled (C06 configuration)

VARIABLES src,      \* [Mods -> Variants]       current content of each source file
          mtime,    \* [Mods -> Nat]            modification time (strictly increases on edit)
          ast,      \* [Mods -> None | [mt, v, torn]]          AST cache file of m
          sym,      \* [Mods -> None | [key, built, torn]]     symbol cache file of m
          parser,   \* "none" | "ok" | "torn"                  parser cache file
          out,      \* [Mods -> None | [hdr, body]]            output file of m
          ntorn,
          op        \* label: last operation with its observable result

vars == <<src, mtime, ast, sym, parser, out, ntorn, op>>
View == <<src, mtime, ast, sym, parser, out, ntorn>>

None == [none |-> TRUE]
SeqSet(s) == {s[i] : i \in DOMAIN s}

RECURSIVE Closure(_)
Closure(m) == {m} \cup UNION {Closure(d) : d \in SeqSet(Imports[m])}

\* what a cold run derives for m from the current sources
Cold(m) == [d \in Closure(m) |-> BodyOf[src[d]]]

\* symbol cache key as coded: own + direct imports (or the whole closure when TransitiveKey)
SymKey(m) == IF TransitiveKey THEN [d \in Closure(m) |-> src[d]]
             ELSE [d \in {m} \cup SeqSet(Imports[m]) |-> src[d]]
Hdr(m) == IF DeepHeader THEN [d \in Closure(m) |-> src[d]] ELSE [d \in {m} |-> src[m]]

-----------------------------------------------------------------------------
(* One process: Modules.load over the targets, as a fold.  Process state:   *)
(*   db   : [loaded modules -> derivation vector]  (the symbol table)       *)
(*   a,s,p: the cache files as this process leaves them                     *)
(*   reads/writes: did the process touch the cache directory                *)
(*   err  : "" | "fail"                                                     *)

\*   parsed: the source variant whose tree this process works with, per parsed module
PInit == [db |-> <<>>, a |-> ast, s |-> sym, p |-> parser, reads |-> FALSE, writes |-> FALSE, err |-> "", parsed |-> <<>>]

Merge(f, g) == [x \in DOMAIN f \cup DOMAIN g |-> IF x \in DOMAIN f THEN f[x] ELSE g[x]]

\* SyntaxParserOfLark.__load_parser (once per process, on first parse)
LoadParser(ps, enabled) ==
  IF ~enabled THEN ps
  ELSE IF ps.p = "torn" THEN [ps EXCEPT !.err = "fail", !.reads = TRUE]
  ELSE IF ps.p = "ok" THEN [ps EXCEPT !.reads = TRUE]
  ELSE [ps EXCEPT !.p = "ok", !.writes = TRUE]

\* SyntaxParserOfLark.__load_entry: hit <=> a file for (m, mtime) exists; a miss evicts the module's other
\* files - the glob `<module>-*.json` also matches the module's symbol file - and writes a new one
\* (keyed by content the stored tree is used only when it was built from the present content)
AstHit(ps, m) == ps.a[m] # None /\ ps.a[m].mt = mtime[m] /\ (AstHash => ps.a[m].v = src[m])
LoadAst(ps, m, enabled) ==
  IF ps.err # "" THEN ps
  ELSE IF ~enabled THEN [ps EXCEPT !.parsed = Merge((m :> src[m]), @)]
  ELSE IF AstHit(ps, m)
       THEN IF ps.a[m].torn THEN [ps EXCEPT !.err = "fail", !.reads = TRUE] ELSE [ps EXCEPT !.reads = TRUE, !.parsed = Merge((m :> ps.a[m].v), @)]
       ELSE [ps EXCEPT !.a[m] = [mt |-> mtime[m], v |-> src[m], torn |-> FALSE], !.s[m] = None, !.writes = TRUE, !.parsed = Merge((m :> src[m]), @)]

RECURSIVE MergeAll(_, _)
MergeAll(db, ds) == IF ds = <<>> THEN <<>> ELSE Merge(db[Head(ds)], MergeAll(db, Tail(ds)))

\* ModuleLoader.preprocess: RestoreSymbols (stop on hit) or compute ... StoreSymbols
Preprocess(ps, m, enabled) ==
  IF ps.err # "" THEN ps
  ELSE IF enabled /\ ps.s[m] # None /\ ps.s[m].key = SymKey(m)
       THEN IF ps.s[m].torn THEN [ps EXCEPT !.err = "fail", !.reads = TRUE]
            ELSE [ps EXCEPT !.db = Merge((m :> ps.s[m].built), @), !.reads = TRUE]
       ELSE LET built == Merge((m :> BodyOf[ps.parsed[m]]), MergeAll(ps.db, Imports[m]))
                ps1 == [ps EXCEPT !.db = Merge((m :> built), @)]
            IN IF (enabled \/ ~StoreGated) /\ (ps.s[m] = None \/ ps.s[m].key # SymKey(m))
               THEN [ps1 EXCEPT !.s[m] = [key |-> SymKey(m), built |-> built, torn |-> FALSE], !.writes = TRUE]
               ELSE ps1

RECURSIVE Load(_, _, _), LoadSeq(_, _, _)
\* Modules.load: parse m, then its imports depth-first in order, then preprocess m
Load(ps, m, enabled) ==
  IF ps.err # "" \/ m \in DOMAIN ps.db THEN ps
  ELSE Preprocess(LoadSeq(LoadAst(ps, m, enabled), Imports[m], enabled), m, enabled)
LoadSeq(ps, ms, enabled) == IF ms = <<>> THEN ps ELSE LoadSeq(Load(ps, Head(ms), enabled), Tail(ms), enabled)

\* Runner._run_impl: select targets, then for each: load, transpile, write
NeedsRun(m, force) == force \/ out[m] = None \/ out[m].hdr # Hdr(m)
RECURSIVE RunTargets(_, _, _, _)
RunTargets(st, ts, enabled, force) ==
  \* st = [ps, o]: process state and output directory
  IF ts = <<>> \/ st.ps.err # "" THEN st
  ELSE LET m == Head(ts) IN
       IF ~NeedsRun(m, force) THEN RunTargets(st, Tail(ts), enabled, force)
       ELSE LET ps1 == Load(st.ps, m, enabled) IN
            IF ps1.err # "" THEN [st EXCEPT !.ps = ps1]
            ELSE RunTargets([ps |-> ps1, o |-> [st.o EXCEPT ![m] = [hdr |-> Hdr(m), body |-> ps1.db[m]]]], Tail(ts), enabled, force)

-----------------------------------------------------------------------------
Init == /\ src = [m \in Mods |-> 1]
        /\ mtime = [m \in Mods |-> 1]
        /\ ast = [m \in Mods |-> None] /\ sym = [m \in Mods |-> None] /\ parser = "none"
        /\ out = [m \in Mods |-> None]
        /\ ntorn = 0
        /\ op = [name |-> "init"]

Edit(m, v, t) ==
  /\ v # src[m]
  /\ IF MaxT = 0 THEN t = mtime[m] + 1 ELSE t \in 1..MaxT /\ t # mtime[m]
  /\ src' = [src EXCEPT ![m] = v]
  /\ mtime' = [mtime EXCEPT ![m] = t]
  /\ op' = [name |-> "edit", m |-> m, v |-> v, t |-> t]
  /\ UNCHANGED <<ast, sym, parser, out, ntorn>>

\* `op` is outside the VIEW, so TLC never fingerprints it; a function value inside it would stay unevaluated and cannot be
\* written when the state queue is paged to disk.  Comparing the value with itself makes TLC evaluate it.
Force(f) == IF f = f THEN f ELSE f

Run(enabled, force) ==
  /\ (WithOutputs \/ force)      \* the cache configuration (C05) always forces, so that every run shows all texts
  /\ LET ps0 == LoadParser(PInit, enabled)
         st == RunTargets([ps |-> ps0, o |-> out], Targets, enabled, force)
         selected == {m \in SeqSet(Targets) : NeedsRun(m, force)}
     IN /\ ast' = st.ps.a /\ sym' = st.ps.s /\ parser' = st.ps.p
        /\ out' = st.o
        /\ op' = [name |-> "run", enabled |-> enabled, force |-> force,
                  res |-> IF st.ps.err = "" THEN "ok" ELSE "fail",
                  selected |-> selected,
                  texts |-> Force([m \in {x \in selected : st.ps.err = "" \/ st.o[x] # out[x]} |-> st.o[m].body]),
                  touched |-> [reads |-> st.ps.reads, writes |-> st.ps.writes]]
  /\ UNCHANGED <<src, mtime, ntorn>>

ClearCache ==
  /\ WithCache
  /\ ast' = [m \in Mods |-> None] /\ sym' = [m \in Mods |-> None] /\ parser' = "none"
  /\ op' = [name |-> "clear"]
  /\ UNCHANGED <<src, mtime, out, ntorn>>

\* crash residue of an interrupted write: the file exists under its final name with a prefix of its content
Truncate(kind, m) ==
  /\ WithCache /\ ntorn < MaxTorn
  /\ ntorn' = ntorn + 1
  /\ CASE kind = "ast" -> ast[m] # None /\ ~ast[m].torn /\ ast' = [ast EXCEPT ![m].torn = TRUE] /\ UNCHANGED <<sym, parser>>
       [] kind = "sym" -> sym[m] # None /\ ~sym[m].torn /\ sym' = [sym EXCEPT ![m].torn = TRUE] /\ UNCHANGED <<ast, parser>>
       [] kind = "parser" -> parser = "ok" /\ parser' = "torn" /\ UNCHANGED <<ast, sym>>
  /\ op' = [name |-> "truncate", kind |-> kind, m |-> m]
  /\ UNCHANGED <<src, mtime, out>>

DeleteOutput(m) ==
  /\ WithOutputs /\ out[m] # None
  /\ out' = [out EXCEPT ![m] = None]
  /\ op' = [name |-> "delete", m |-> m]
  /\ UNCHANGED <<src, mtime, ast, sym, parser, ntorn>>

\* an output left behind by another version of the application: its header differs from every current header
OldVersion(m) ==
  /\ WithOutputs /\ out[m] # None /\ out[m].hdr # (m :> 0)
  /\ out' = [out EXCEPT ![m].hdr = (m :> 0)]
  /\ op' = [name |-> "oldversion", m |-> m]
  /\ UNCHANGED <<src, mtime, ast, sym, parser, ntorn>>

AnyMod == CHOOSE m \in Mods : TRUE
Next ==
  \/ \E m \in Mods, v \in Variants, t \in 1..(IF MaxT = 0 THEN MaxOps + 1 ELSE MaxT) : Edit(m, v, t)
  \/ \E enabled \in (IF WithCache THEN BOOLEAN ELSE {FALSE}), force \in BOOLEAN : Run(enabled, force)
     \* the runner configuration (C06) isolates the header mechanism: caching is switched off there
  \/ ClearCache
  \/ \E m \in Mods : Truncate("ast", m) \/ Truncate("sym", m) \/ DeleteOutput(m) \/ OldVersion(m)
  \/ Truncate("parser", AnyMod)

Spec == Init /\ [][Next]_vars

\* ---- random walks: one pseudo-randomly chosen enabled operation per state (TLC evaluates RandomElement once per
\* expansion, so breadth-first search produces one successor per state: a long behaviour whose every edge is emitted).
\* Used to drive the real code along behaviours far longer than exhaustive search reaches.
Descs ==
  {[name |-> "edit", m |-> m, v |-> v, t |-> t] : m \in Mods, v \in Variants, t \in 1..(IF MaxT = 0 THEN MaxOps + 1 ELSE MaxT)}
  \cup {[name |-> "run", enabled |-> e, force |-> f] : e \in (IF WithCache THEN BOOLEAN ELSE {FALSE}), f \in BOOLEAN}
  \cup {[name |-> "clear"]}
  \cup {[name |-> "truncate", kind |-> k, m |-> m] : k \in {"ast", "sym"}, m \in Mods}
  \cup {[name |-> "truncate", kind |-> "parser", m |-> AnyMod]}
  \cup {[name |-> "delete", m |-> m] : m \in Mods}
  \cup {[name |-> "oldversion", m |-> m] : m \in Mods}
Guard(d) ==
  CASE d.name = "edit" -> d.v # src[d.m] /\ (IF MaxT = 0 THEN d.t = mtime[d.m] + 1 ELSE d.t # mtime[d.m])
    [] d.name = "run" -> WithOutputs \/ d.force
    [] d.name = "clear" -> WithCache
    [] d.name = "truncate" -> WithCache /\ ntorn < MaxTorn /\
         (CASE d.kind = "ast" -> ast[d.m] # None /\ ~ast[d.m].torn [] d.kind = "sym" -> sym[d.m] # None /\ ~sym[d.m].torn [] OTHER -> parser = "ok")
    [] d.name = "delete" -> WithOutputs /\ out[d.m] # None
    [] d.name = "oldversion" -> WithOutputs /\ out[d.m] # None /\ out[d.m].hdr # (d.m :> 0)
Do(d) ==
  CASE d.name = "edit" -> Edit(d.m, d.v, d.t)
    [] d.name = "run" -> Run(d.enabled, d.force)
    [] d.name = "clear" -> ClearCache
    [] d.name = "truncate" -> Truncate(d.kind, d.m)
    [] d.name = "delete" -> DeleteOutput(d.m)
    [] d.name = "oldversion" -> OldVersion(d.m)
\* runs are twice as likely as any other operation (they are where the properties are observed)
Weighted == {<<d, i>> : d \in {x \in Descs : Guard(x)}, i \in 1..2} \ {<<d, 2>> : d \in {x \in Descs : x.name # "run"}}
RandomNext == Weighted # {} /\ Do(RandomElement(Weighted)[1])
Bounded == TLCGet("level") <= MaxOps

-----------------------------------------------------------------------------
(* C05 *)

\* whatever the cache directory holds, a successful run produces what a run on an empty cache produces
WarmEqualsCold == [][op'.name = "run" /\ op'.res = "ok" => \A m \in DOMAIN op'.texts : op'.texts[m] = Cold(m)]_vars

\* with caching disabled no cache file is read or written
DisabledIsInert == [][op'.name = "run" /\ ~op'.enabled =>
      /\ ~op'.touched.reads /\ ~op'.touched.writes
      /\ ast' = ast /\ sym' = sym /\ parser' = parser]_vars

\* a damaged cache file never yields different output: the run fails or produces the cold result
TornNeverWrong == [][op'.name = "run" /\ ntorn > 0 /\ op'.res = "ok" => \A m \in DOMAIN op'.texts : op'.texts[m] = Cold(m)]_vars

\* the cache is coherent: every intact file that a run would accept holds what a cold run would compute
CacheCoherent == \A m \in Mods :
   /\ (ast[m] # None /\ ~ast[m].torn /\ AstHit([a |-> ast], m)) => ast[m].v = src[m]      \* a tree the load would accept was built from the present content
   /\ (sym[m] # None /\ ~sym[m].torn /\ sym[m].key = SymKey(m)) => sym[m].built = Cold(m)

(* C06 *)

\* after a non-forced run every target's output equals what a forced run would write now
RunEqualsForced == [][op'.name = "run" /\ op'.res = "ok" =>
      \A m \in SeqSet(Targets) : out'[m] = [hdr |-> Hdr(m), body |-> Cold(m)]]_vars

\* files that need no regeneration are left untouched
Untouched == [][op'.name = "run" => \A m \in Mods : m \notin op'.selected => out'[m] = out[m]]_vars

\* a module is regenerated whenever its recorded header differs from the current one
RegeneratesOnHeaderChange == [][op'.name = "run" /\ op'.res = "ok" =>
      \A m \in SeqSet(Targets) : (out[m] = None \/ out[m].hdr # Hdr(m)) => m \in op'.selected]_vars

TypeOK == /\ \A m \in Mods : src[m] \in Variants
          /\ parser \in {"none", "ok", "torn"}

Emit == PrintT("EDGE " \o ToJson([from |-> View, op |-> op', to |-> View']))
=============================================================================
