CONSTANTS
  K = 1
  Few = FALSE
