---------------------------- MODULE PyScopeEmit ----------------------------
EXTENDS PyScope
ASSUME PoolsInjective
ASSUME Valid(Injective)
ASSUME BindsBySlotOnly
ASSUME Emit
ASSUME PrintT("ASSIGNMENTS " \o ToString(Cardinality(Assignments)) \o " of " \o ToString(Cardinality(OneMerge) + 1))
=============================================================================
