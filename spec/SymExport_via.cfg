CONSTANTS
  MaxDepth = 1
  MaxWidth = 2
  ViaFree = TRUE
