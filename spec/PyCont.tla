------------------------------- MODULE PyCont -------------------------------
(***************************************************************************)
(* Source model, layer L2: value semantics of container, string and tuple  *)
(* operations.  A program is                                               *)
(*     def f(a: int, b: int) -> tuple[list[int], list[int], dict[str,int], *)
(*                                    dict[str,int], str, int, bool]:      *)
(*         <initialisation of xs ys d e s n bb> ; <op> ; ... ; <op>        *)
(*         return (xs, ys, d, e, s, n, bb)                                 *)
(* The state is the tuple of locals; every operation of the pool is a      *)
(* state transformer with Python's meaning (Apply) and a guard: where the  *)
(* guard fails Python raises IndexError / KeyError or the emitted C++ has  *)
(* no defined behaviour, so the (program, argument) pair is outside the    *)
(* agreement subset and is not run ("undef").  Lists are sequences, dicts  *)
(* are functions from a finite set of keys (no order), strings sequences   *)
(* of one-character strings.                                               *)
(***************************************************************************)
EXTENDS Integers, Sequences, FiniteSets, TLC, Json

CONSTANTS K                   \* operations per program

\* arithmetic chains that mix a float local (gf = 1.5) with the int parameters, assigned to a local WITHOUT annotation:
\* the C++ type of that local is whatever tranp infers for the chain.  Values are kept as twice the value (an integer).
FlText == << "gf * a * b", "a * gf * b", "a * b * gf", "gf + a - b", "a - b + gf", "gf - a - b", "gf * a + b", "a + b * gf",
             "gf * a * b * 3", "a * b + gf - a", "(gf * a) * b", "a * (b * gf)" >>
FlVal2(i, a, b) ==
  CASE i \in {1, 2, 3, 11, 12} -> 3 * a * b
    [] i = 4 -> 3 + 2 * a - 2 * b
    [] i = 5 -> 2 * a - 2 * b + 3
    [] i = 6 -> 3 - 2 * a - 2 * b
    [] i = 7 -> 3 * a + 2 * b
    [] i = 8 -> 2 * a + 3 * b
    [] i = 9 -> 9 * a * b
    [] i = 10 -> 2 * a * b + 3 - 2 * a

Keys == {"k", "jj", "zzz"}
Chr == {"a", "b", ",", "x"}

\* ---- helpers
RECURSIVE JoinS(_, _)
JoinS(ss, sep) == IF Len(ss) = 0 THEN "" ELSE IF Len(ss) = 1 THEN ss[1] ELSE ss[1] \o sep \o JoinS(Tail(ss), sep)
Str(cs) == JoinS(cs, "")
RECURSIVE Digits(_)
Digits(n) == IF n < 10 THEN <<ToString(n)>> ELSE Digits(n \div 10) \o <<ToString(n % 10)>>
IntChars(n) == IF n < 0 THEN <<"-">> \o Digits(0 - n) ELSE Digits(n)
Contains(xs, v) == \E i \in DOMAIN xs : xs[i] = v
RECURSIVE Sum(_), WSum(_, _), Filter(_, _)
Sum(xs) == IF xs = <<>> THEN 0 ELSE Head(xs) + Sum(Tail(xs))
WSum(xs, i) == IF xs = <<>> THEN 0 ELSE i * Head(xs) + WSum(Tail(xs), i + 1)       \* sum of index * element
Filter(xs, a) == IF xs = <<>> THEN <<>> ELSE (IF Head(xs) > a THEN <<Head(xs)>> ELSE <<>>) \o Filter(Tail(xs), a)
InsertAt(xs, i, v) == SubSeq(xs, 1, i) \o <<v>> \o SubSeq(xs, i + 1, Len(xs))       \* i is 0-based
RemoveAt(xs, i) == SubSeq(xs, 1, i) \o SubSeq(xs, i + 2, Len(xs))                    \* i is 0-based
Find(cs, c) == IF \E i \in DOMAIN cs : cs[i] = c THEN (CHOOSE i \in DOMAIN cs : cs[i] = c /\ \A j \in 1..(i - 1) : cs[j] # c) - 1 ELSE -1
DSum(d) == LET RECURSIVE S(_)
               S(ks) == IF ks = {} THEN 0 ELSE LET k == CHOOSE x \in ks : TRUE IN d[k] + S(ks \ {k})
           IN S(DOMAIN d)
DWSum(d) == LET RECURSIVE S(_)
                S(ks) == IF ks = {} THEN 0 ELSE LET k == CHOOSE x \in ks : TRUE IN d[k] * Len(k) + S(ks \ {k})
            IN S(DOMAIN d)
DKLen(d) == LET RECURSIVE S(_)
                S(ks) == IF ks = {} THEN 0 ELSE LET k == CHOOSE x \in ks : TRUE IN Len(k) + S(ks \ {k})
            IN S(DOMAIN d)
DPut(d, k, v) == [x \in DOMAIN d \cup {k} |-> IF x = k THEN v ELSE d[x]]
DDel(d, k) == [x \in DOMAIN d \ {k} |-> d[x]]
Empty == [x \in {} |-> 0]
Max(x, y) == IF x > y THEN x ELSE y
Min(x, y) == IF x < y THEN x ELSE y
Abs(x) == IF x < 0 THEN 0 - x ELSE x
\* products x * y over all ordered pairs of elements with x > y, in the order of two nested loops
RECURSIVE PairRow(_, _), PairRows(_, _)
PairRow(x, ys) == IF ys = <<>> THEN <<>> ELSE (IF x > Head(ys) THEN <<x * Head(ys)>> ELSE <<>>) \o PairRow(x, Tail(ys))
PairRows(rest, all) == IF rest = <<>> THEN <<>> ELSE PairRow(Head(rest), all) \o PairRows(Tail(rest), all)
PairProducts(xs) == PairRows(xs, xs)
Occ2(cs, c1, c2) == {i \in 1..(Len(cs) - 1) : cs[i] = c1 /\ cs[i + 1] = c2}
Find2(cs, c1, c2) == IF Occ2(cs, c1, c2) = {} THEN -1 ELSE (CHOOSE i \in Occ2(cs, c1, c2) : \A j \in Occ2(cs, c1, c2) : i <= j) - 1
RFind2(cs, c1, c2) == IF Occ2(cs, c1, c2) = {} THEN -1 ELSE (CHOOSE i \in Occ2(cs, c1, c2) : \A j \in Occ2(cs, c1, c2) : i >= j) - 1
\* sum of (index * 10 + element) over the elements other than a, the index counting every element
RECURSIVE WSumSkip(_, _, _)
WSumSkip(xs, i, a) == IF xs = <<>> THEN 0 ELSE (IF Head(xs) = a THEN 0 ELSE i * 10 + Head(xs)) + WSumSkip(Tail(xs), i + 1, a)
RECURSIVE RangeSeq(_, _, _)
RangeSeq(lo, hi, step) == IF lo >= hi THEN <<>> ELSE <<lo>> \o RangeSeq(lo + step, hi, step)     \* range(lo, hi, step), step > 0
SumRange(lo, hi, step) == Sum(RangeSeq(lo, hi, step))

\* ---- operations: [k, ...parameters]; V = value sources, I = small indices
V == {"a", "b", "n", "1"}
Val(st, v) == CASE v = "a" -> st.a [] v = "b" -> st.b [] v = "n" -> st.n [] v = "1" -> 1
Ops ==
     {[k |-> "append", v |-> v] : v \in V}
  \cup {[k |-> "popn"], [k |-> "clear"], [k |-> "len"], [k |-> "copy"], [k |-> "copymut"], [k |-> "suml"], [k |-> "enum"], [k |-> "whilepop"], [k |-> "popelse"],
        [k |-> "extendys"], [k |-> "extendlit"], [k |-> "fill3"], [k |-> "fill0"], [k |-> "fillanno"], [k |-> "fillannolen"], [k |-> "map"], [k |-> "mapmul"], [k |-> "filter"], [k |-> "enumcomp"], [k |-> "zipcomp"], [k |-> "rangeidx"], [k |-> "lenfilter"]}
  \cup {[k |-> "popi", i |-> i] : i \in 0..1}
  \cup {[k |-> "insert", i |-> i, v |-> v] : i \in 0..1, v \in {"a", "n"}}
  \cup {[k |-> "inop", v |-> v, neg |-> g] : v \in {"a", "n"}, g \in BOOLEAN}
  \cup {[k |-> "get", i |-> i] : i \in 0..2}
  \cup {[k |-> "set", i |-> i, v |-> v] : i \in 0..1, v \in {"a", "n"}}
  \cup {[k |-> "augset", i |-> i] : i \in 0..1}
  \cup {[k |-> "slice", lo |-> r[1], hi |-> r[2]] : r \in {<<1, -1>>, <<0, 2>>, <<1, 2>>}}          \* hi = -1: open end
  \cup {[k |-> "nested"], [k |-> "nestedapp"], [k |-> "dictlist"]}
  \* dicts
  \cup {[k |-> "dset", key |-> key, v |-> v] : key \in Keys, v \in {"a", "n"}}
  \cup {[k |-> kk, key |-> key] : kk \in {"daug", "dpop", "dget", "din", "dgetitem", "ddel"}, key \in Keys}
  \cup {[k |-> "dclear"], [k |-> "dlen"], [k |-> "dcopy"], [k |-> "dcopymut"], [k |-> "ditems"], [k |-> "dvalues"], [k |-> "dkeys"], [k |-> "dcomp"], [k |-> "dintkey"]}
  \* strings
  \cup {[k |-> "sadd", c |-> c] : c \in {"x", ","}}
  \cup {[k |-> "saddstr", v |-> v] : v \in {"a", "n"}}
  \cup {[k |-> "slen"], [k |-> "sidx"], [k |-> "seq"], [k |-> "strlist"], [k |-> "strcomp"]}
  \cup {[k |-> "sstarts", p |-> p] : p \in {<<"a", "b">>, <<"b">>}}
  \cup {[k |-> "sends", p |-> p] : p \in {<<"c">>, <<"x">>}}
  \cup {[k |-> "sfind", c |-> c] : c \in {"b", "x"}}
  \cup {[k |-> "sslice", lo |-> r[1], hi |-> r[2]] : r \in {<<1, -1>>, <<0, 2>>, <<1, 3>>}}
  \* tuples, scalars, calls
  \cup {[k |-> "tuple"], [k |-> "tupleidx"], [k |-> "untuple"], [k |-> "ternary"], [k |-> "max"], [k |-> "min"], [k |-> "abs"], [k |-> "addn"], [k |-> "closure"], [k |-> "closurecall"], [k |-> "lambdacall"], [k |-> "closurenest"], [k |-> "lambdalocal"], [k |-> "defarg"],
        [k |-> "castint"], [k |-> "caststr"], [k |-> "castsamemul"], [k |-> "castsamesub"], [k |-> "castsamenot"], [k |-> "tryraise"], [k |-> "breakcont"], [k |-> "range3"], [k |-> "srfind2"], [k |-> "sfind2"], [k |-> "dgetplus"], [k |-> "dgetneg"], [k |-> "dpopdefault"], [k |-> "enumcontinue"], [k |-> "kwreorder"], [k |-> "kwskip"], [k |-> "swap"], [k |-> "dblcomp"], [k |-> "dblcompcond"], [k |-> "closureloop"], [k |-> "chaincmp"], [k |-> "andor"], [k |-> "range1"], [k |-> "range2"], [k |-> "range2len"], [k |-> "range3ab"], [k |-> "rangecomp1"], [k |-> "rangecomp2"]}
  \cup {[k |-> "flchain", i |-> i] : i \in DOMAIN FlText}

Undef == [undef |-> TRUE]
IsUndef(st) == "undef" \in DOMAIN st

\* Python's meaning of one operation (st is a record of the locals and the two parameters)
Apply(op, st) ==
  LET xs == st.xs  d == st.d  s == st.s  k == op.k IN
  CASE k = "append" -> [st EXCEPT !.xs = Append(xs, Val(st, op.v))]
    [] k = "popn" -> IF Len(xs) > 0 THEN [st EXCEPT !.n = xs[Len(xs)], !.xs = SubSeq(xs, 1, Len(xs) - 1)] ELSE Undef
    [] k = "popi" -> IF Len(xs) > op.i THEN [st EXCEPT !.xs = RemoveAt(xs, op.i)] ELSE Undef
    [] k = "insert" -> IF Len(xs) >= op.i THEN [st EXCEPT !.xs = InsertAt(xs, op.i, Val(st, op.v))] ELSE Undef
    [] k = "extendys" -> [st EXCEPT !.xs = xs \o st.ys]
    [] k = "extendlit" -> [st EXCEPT !.xs = xs \o <<st.a, st.b>>]
    [] k = "clear" -> [st EXCEPT !.xs = <<>>]
    [] k = "inop" -> [st EXCEPT !.bb = IF op.neg THEN ~Contains(xs, Val(st, op.v)) ELSE Contains(xs, Val(st, op.v))]
    [] k = "fill3" -> [st EXCEPT !.xs = <<st.a, st.a, st.a>>]
    [] k = "fill0" -> [st EXCEPT !.xs = <<>>]
    \* an ANNOTATED local declared by a fill (count first or value first): a list of that many elements, not of two
    [] k = "fillanno" -> [st EXCEPT !.n = st.n + 30 + st.a]
    [] k = "fillannolen" -> [st EXCEPT !.n = st.n + Len(xs) * 100 + Len(xs) * st.b]
    [] k = "len" -> [st EXCEPT !.n = Len(xs)]
    [] k = "copy" -> [st EXCEPT !.ys = xs]
    [] k = "copymut" -> [st EXCEPT !.ys = Append(xs, 1)]                                     \* ys = xs.copy(); ys.append(1): xs unchanged
    [] k = "get" -> IF Len(xs) > op.i THEN [st EXCEPT !.n = xs[op.i + 1]] ELSE Undef
    [] k = "set" -> IF Len(xs) > op.i THEN [st EXCEPT !.xs = [xs EXCEPT ![op.i + 1] = Val(st, op.v)]] ELSE Undef
    [] k = "augset" -> IF Len(xs) > op.i THEN [st EXCEPT !.xs = [xs EXCEPT ![op.i + 1] = @ + st.a]] ELSE Undef
    [] k = "map" -> [st EXCEPT !.ys = [i \in DOMAIN xs |-> xs[i] + st.a]]
    [] k = "mapmul" -> [st EXCEPT !.ys = [i \in DOMAIN xs |-> xs[i] * 2]]
    [] k = "filter" -> [st EXCEPT !.ys = Filter(xs, st.a)]
    [] k = "enumcomp" -> IF Len(xs) > 0 THEN [st EXCEPT !.ys = [i \in DOMAIN xs |-> (i - 1) * xs[i]]] ELSE Undef   \* the emitted loop header reads *begin()
    [] k = "zipcomp" -> [st EXCEPT !.ys = <<st.a * st.b, st.b * 2>>]                           \* ys = [p * q for p, q in [(a, b), (b, 2)]]
    [] k = "lenfilter" -> [st EXCEPT !.n = Len(Filter(xs, st.a))]
    [] k = "suml" -> [st EXCEPT !.n = st.n + Sum(xs)]
    [] k = "enum" -> [st EXCEPT !.n = st.n + WSum(xs, 0)]
    [] k = "rangeidx" -> [st EXCEPT !.n = st.n + WSum(xs, 0)]
    [] k = "whilepop" -> [st EXCEPT !.n = st.n + Sum(xs), !.xs = <<>>]
    [] k = "popelse" -> IF Len(xs) > 0 THEN [st EXCEPT !.n = xs[Len(xs)], !.xs = SubSeq(xs, 1, Len(xs) - 1)] ELSE [st EXCEPT !.n = 0]
    [] k = "slice" -> LET hi == IF op.hi = -1 THEN Len(xs) ELSE op.hi IN
                      IF Len(xs) >= Max(op.lo, hi) THEN [st EXCEPT !.ys = SubSeq(xs, op.lo + 1, hi)] ELSE Undef
    [] k = "nested" -> [st EXCEPT !.n = st.b + 2]                                             \* yy = [[a], [b, a]]; n = yy[1][0] + len(yy[1])
    [] k = "nestedapp" -> [st EXCEPT !.n = 2]                                                 \* yy[0].append(b); n = len(yy[0])
    [] k = "dictlist" -> [st EXCEPT !.n = 2]                                                  \* dl = {'p': [a]}; dl['p'].append(b); n = len(dl['p'])
    [] k = "dset" -> [st EXCEPT !.d = DPut(d, op.key, Val(st, op.v))]
    [] k = "daug" -> IF op.key \in DOMAIN d THEN [st EXCEPT !.d = DPut(d, op.key, d[op.key] + st.b)] ELSE Undef
    [] k = "dpop" -> IF op.key \in DOMAIN d THEN [st EXCEPT !.n = d[op.key], !.d = DDel(d, op.key)] ELSE Undef
    [] k = "dget" -> [st EXCEPT !.n = IF op.key \in DOMAIN d THEN d[op.key] ELSE st.b]
    [] k = "din" -> [st EXCEPT !.bb = op.key \in DOMAIN d]
    [] k = "dgetitem" -> IF op.key \in DOMAIN d THEN [st EXCEPT !.n = d[op.key]] ELSE Undef
    [] k = "ddel" -> IF op.key \in DOMAIN d THEN [st EXCEPT !.d = DDel(d, op.key)] ELSE Undef
    [] k = "dclear" -> [st EXCEPT !.d = Empty]
    [] k = "dlen" -> [st EXCEPT !.n = Cardinality(DOMAIN d)]
    [] k = "dcopy" -> [st EXCEPT !.e = d]
    [] k = "dcopymut" -> [st EXCEPT !.e = DPut(d, "q", 1)]                                   \* e = d.copy(); e['q'] = 1: d unchanged
    [] k = "ditems" -> [st EXCEPT !.n = st.n + DWSum(d)]
    [] k = "dvalues" -> [st EXCEPT !.n = st.n + DSum(d)]
    [] k = "dkeys" -> [st EXCEPT !.n = st.n + DKLen(d)]
    [] k = "dcomp" -> [st EXCEPT !.e = [x \in DOMAIN d |-> d[x] + 1]]
    [] k = "dintkey" -> [st EXCEPT !.n = st.b]                                                \* di = {a: b}; n = di[a]
    [] k = "sadd" -> [st EXCEPT !.s = Append(s, op.c)]
    [] k = "saddstr" -> [st EXCEPT !.s = s \o IntChars(Val(st, op.v))]
    [] k = "slen" -> [st EXCEPT !.n = Len(s)]
    [] k = "sidx" -> IF Len(s) > 0 THEN [st EXCEPT !.s = <<s[1]>>] ELSE Undef
    [] k = "seq" -> [st EXCEPT !.bb = (s = <<"a", "b">>)]
    [] k = "strlist" -> [st EXCEPT !.n = 1 + Len(s)]                                          \* ss = ['x', s]; n = len(ss[0]) + len(ss[1])
    [] k = "strcomp" -> [st EXCEPT !.n = Sum([i \in DOMAIN xs |-> Len(IntChars(xs[i]))])]     \* ss = [str(x) for x in xs]; n = total length
    [] k = "sstarts" -> [st EXCEPT !.bb = Len(s) >= Len(op.p) /\ SubSeq(s, 1, Len(op.p)) = op.p]
    [] k = "sends" -> [st EXCEPT !.bb = Len(s) >= Len(op.p) /\ SubSeq(s, Len(s) - Len(op.p) + 1, Len(s)) = op.p]
    [] k = "sfind" -> [st EXCEPT !.n = Find(s, op.c)]
    [] k = "sslice" -> LET hi == IF op.hi = -1 THEN Len(s) ELSE op.hi IN
                       IF Len(s) >= Max(op.lo, hi) THEN [st EXCEPT !.s = SubSeq(s, op.lo + 1, hi)] ELSE Undef
    [] k = "tuple" -> [st EXCEPT !.n = st.a + Len(s)]                                         \* t = (a, s); q, r = t; n = q + len(r)
    [] k = "tupleidx" -> [st EXCEPT !.n = st.a]                                               \* t = (a, s); n = t[0]
    [] k = "untuple" -> [st EXCEPT !.n = st.b, !.bb = TRUE]                                   \* n, bb = pair(b) with a nested function returning a tuple
    [] k = "ternary" -> [st EXCEPT !.n = IF st.a > st.b THEN st.a ELSE st.b]
    [] k = "max" -> [st EXCEPT !.n = Max(st.a, st.n)]
    [] k = "min" -> [st EXCEPT !.n = Min(st.n, st.b)]
    [] k = "abs" -> [st EXCEPT !.n = Abs(st.a - st.b)]
    [] k = "addn" -> [st EXCEPT !.n = st.n * 2 - st.b]
    [] k = "closurenest" -> [st EXCEPT !.n = st.a + 2 * st.b]                                 \* def outer(ok): def inner(ik): return ik + ok ; return inner(ok) + a ; n = outer(b)
    [] k = "lambdalocal" -> [st EXCEPT !.n = st.b + st.a]                                     \* inc: Callable[[int], int] = lambda q: q + a ; n = inc(b)
    [] k = "closurecall" -> [st EXCEPT !.n = 2 * st.b + 2 * st.a]                            \* def tw(tf, tk): def inner(ik): return tf(tf(ik)) + tk ; return inner(tk) ; n = tw(lambda v: v + a, b)
    [] k = "lambdacall" -> [st EXCEPT !.n = st.a + 2 * st.b]                                  \* def co(cf, cx): return ap(lambda cv: cf(cf(cv)), cx) ; n = co(lambda w: w + b, a)
    [] k = "closure" -> [st EXCEPT !.n = st.b + st.a]                                         \* def h(x): return x + a ; n = h(b)
    [] k = "defarg" -> [st EXCEPT !.n = (st.b + 5) + (st.b + 1)]                              \* def h(x, y = 5): return x + y ; n = h(b) + h(b, y=1)
    \* a conversion to the type the argument already has still groups like a call: its argument is one operand
    [] k = "castsamemul" -> [st EXCEPT !.n = (st.a + st.b) * 3]                               \* n = int(a + b) * 3
    [] k = "castsamesub" -> [st EXCEPT !.n = st.b - (st.a - st.b)]                            \* n = b - int(a - b)
    [] k = "castsamenot" -> [st EXCEPT !.bb = ~(st.a > st.b \/ st.bb)]                        \* bb = not bool(a > b or bb)
    [] k = "castint" -> [st EXCEPT !.n = 12 + st.a]                                           \* n = int('12') + a
    [] k = "caststr" -> [st EXCEPT !.s = IntChars(st.a) \o IntChars(st.n)]                    \* s = str(a) + str(n)
    [] k = "tryraise" -> [st EXCEPT !.n = IF st.a > 0 THEN 5 ELSE st.n]                       \* try: if a > 0: raise ... except: n = 5
    [] k = "breakcont" -> [st EXCEPT !.n = st.n + Sum(SelectSeq(SubSeq(xs, 1, IF Contains(xs, 7) THEN (CHOOSE i \in DOMAIN xs : xs[i] = 7 /\ \A j \in 1..(i - 1) : xs[j] # 7) - 1 ELSE Len(xs)), LAMBDA x : x # st.a))]
    [] k = "range3" -> [st EXCEPT !.n = st.n + 6]                                             \* for i in range(0, 6, 2): n += i
    [] k = "srfind2" -> [st EXCEPT !.n = RFind2(s, "b", ",")]                                   \* s.rfind('b,'): last position where the two characters occur TOGETHER
    [] k = "sfind2" -> [st EXCEPT !.n = Find2(s, "b", ",")]
    [] k = "dgetplus" -> [st EXCEPT !.n = (IF "k" \in DOMAIN d THEN d["k"] ELSE st.b) + 1]
    [] k = "dgetneg" -> [st EXCEPT !.n = 0 - (IF "jj" \in DOMAIN d THEN d["jj"] ELSE 9) * 2]
    [] k = "dpopdefault" -> [st EXCEPT !.n = IF "zzz" \in DOMAIN d THEN d["zzz"] ELSE st.b, !.d = DDel(d, "zzz")]
    [] k = "enumcontinue" -> [st EXCEPT !.n = st.n + WSumSkip(xs, 0, st.a)]
    [] k = "flchain" -> [st EXCEPT !.n = st.n + FlVal2(op.i, st.a, st.b)]
    [] k = "kwreorder" -> [st EXCEPT !.n = st.b * 100 + 2 * 10 + 1]                            \* def kw(gx, gy=5, gz=7): gx*100 + gy*10 + gz ; n = kw(b, gz=1, gy=2)
    [] k = "kwskip" -> [st EXCEPT !.n = st.b * 100 + 5 * 10 + 1]                               \* n = ks(b, gz=1): gy keeps its default
    [] k = "swap" -> IF Len(xs) >= 2 THEN [st EXCEPT !.xs = [xs EXCEPT ![1] = xs[2], ![2] = xs[1]]] ELSE Undef
    [] k = "dblcomp" -> [st EXCEPT !.n = Len(xs) * Len(xs)]
    [] k = "dblcompcond" -> [st EXCEPT !.ys = PairProducts(xs)]
    [] k = "closureloop" -> [st EXCEPT !.n = st.n + Sum(xs) + Len(xs)]                         \* for cx in xs: def addc(z): return z + cx ; n += addc(1)
    [] k = "chaincmp" -> [st EXCEPT !.bb = (st.a < st.b /\ st.b < 7)]
    [] k = "andor" -> [st EXCEPT !.bb = (st.a = st.b \/ ~(st.a > 1 /\ st.b > 1))]
    [] k = "range1" -> [st EXCEPT !.n = st.n + SumRange(0, st.b, 1)]
    [] k = "range2" -> [st EXCEPT !.n = st.n + SumRange(st.a, st.b, 1)]                       \* empty when a >= b
    [] k = "range2len" -> [st EXCEPT !.n = st.n + Sum(SubSeq(xs, 2, Len(xs)))]                \* for i in range(1, len(xs)): n += xs[i]
    [] k = "range3ab" -> [st EXCEPT !.n = st.n + SumRange(st.a, st.b + 4, 2)]
    [] k = "rangecomp1" -> [st EXCEPT !.ys = RangeSeq(0, st.b, 1)]
    [] k = "rangecomp2" -> [st EXCEPT !.ys = [i \in DOMAIN RangeSeq(st.a, st.b, 1) |-> RangeSeq(st.a, st.b, 1)[i] * 2]]

\* ---- text of one operation (statements at one tab of indentation)
Key(k) == "'" \o k \o "'"
Line(t) == "\t" \o t \o "\n"
VT(v) == v
Text(op) ==
  LET k == op.k IN
  CASE k = "append" -> Line("xs.append(" \o VT(op.v) \o ")")
    [] k = "popn" -> Line("n = xs.pop()")
    [] k = "popi" -> Line("xs.pop(" \o ToString(op.i) \o ")")
    [] k = "insert" -> Line("xs.insert(" \o ToString(op.i) \o ", " \o VT(op.v) \o ")")
    [] k = "extendys" -> Line("xs.extend(ys)")
    [] k = "extendlit" -> Line("xs.extend([a, b])")
    [] k = "clear" -> Line("xs.clear()")
    [] k = "inop" -> Line("bb = " \o VT(op.v) \o (IF op.neg THEN " not in xs" ELSE " in xs"))
    [] k = "fill3" -> Line("xs = [a] * 3")
    [] k = "fill0" -> Line("xs = [a] * 0")
    [] k = "fillanno" -> Line("fa: list[int] = [a] * 3") \o Line("n += len(fa) * 10 + fa[0]")
    [] k = "fillannolen" -> Line("fb: list[int] = len(xs) * [b]") \o Line("n += len(fb) * 100") \o Line("for fv in fb:") \o Line("\tn += fv")
    [] k = "len" -> Line("n = len(xs)")
    [] k = "copy" -> Line("ys = xs.copy()")
    [] k = "copymut" -> Line("ys = xs.copy()") \o Line("ys.append(1)")
    [] k = "get" -> Line("n = xs[" \o ToString(op.i) \o "]")
    [] k = "set" -> Line("xs[" \o ToString(op.i) \o "] = " \o VT(op.v))
    [] k = "augset" -> Line("xs[" \o ToString(op.i) \o "] += a")
    [] k = "map" -> Line("ys = [x + a for x in xs]")
    [] k = "mapmul" -> Line("ys = [x * 2 for x in xs]")
    [] k = "filter" -> Line("ys = [x for x in xs if x > a]")
    [] k = "enumcomp" -> Line("ys = [ei * ex for ei, ex in enumerate(xs)]")
    [] k = "zipcomp" -> Line("ts: list[tuple[int, int]] = [(a, b), (b, 2)]") \o Line("ys = [tp * tq for tp, tq in ts]")
    [] k = "lenfilter" -> Line("n = len([x for x in xs if x > a])")
    [] k = "suml" -> Line("for x in xs:") \o Line("\tn += x")
    [] k = "enum" -> Line("for i, x in enumerate(xs):") \o Line("\tn += i * x")
    [] k = "rangeidx" -> Line("for i in range(len(xs)):") \o Line("\tn += xs[i] * i")
    [] k = "whilepop" -> Line("while len(xs) > 0:") \o Line("\tn += xs.pop()")
    [] k = "popelse" -> Line("n = xs.pop() if len(xs) > 0 else 0")
    [] k = "slice" -> Line("ys = xs[" \o (IF op.lo = 0 THEN "" ELSE ToString(op.lo)) \o ":" \o (IF op.hi = -1 THEN "" ELSE ToString(op.hi)) \o "]")
    [] k = "nested" -> Line("yy: list[list[int]] = [[a], [b, a]]") \o Line("n = yy[1][0] + len(yy[1])")
    [] k = "nestedapp" -> Line("yz: list[list[int]] = [[a], [b, a]]") \o Line("yz[0].append(b)") \o Line("n = len(yz[0])")
    [] k = "dictlist" -> Line("dl: dict[str, list[int]] = {'p': [a]}") \o Line("dl['p'].append(b)") \o Line("n = len(dl['p'])")
    [] k = "dset" -> Line("d[" \o Key(op.key) \o "] = " \o VT(op.v))
    [] k = "daug" -> Line("d[" \o Key(op.key) \o "] += b")
    [] k = "dpop" -> Line("n = d.pop(" \o Key(op.key) \o ")")
    [] k = "dget" -> Line("n = d.get(" \o Key(op.key) \o ", b)")
    [] k = "din" -> Line("bb = " \o Key(op.key) \o " in d")
    [] k = "dgetitem" -> Line("n = d[" \o Key(op.key) \o "]")
    [] k = "ddel" -> Line("del d[" \o Key(op.key) \o "]")
    [] k = "dclear" -> Line("d.clear()")
    [] k = "dlen" -> Line("n = len(d)")
    [] k = "dcopy" -> Line("e = d.copy()")
    [] k = "dcopymut" -> Line("e = d.copy()") \o Line("e['q'] = 1")
    [] k = "ditems" -> Line("for dk, dv in d.items():") \o Line("\tn += dv * len(dk)")
    [] k = "dvalues" -> Line("for dw in d.values():") \o Line("\tn += dw")
    [] k = "dkeys" -> Line("for dj in d.keys():") \o Line("\tn += len(dj)")
    [] k = "dcomp" -> Line("e = {ck: cv + 1 for ck, cv in d.items()}")
    [] k = "dintkey" -> Line("di: dict[int, int] = {a: b}") \o Line("n = di[a]")
    [] k = "sadd" -> Line("s = s + '" \o op.c \o "'")
    [] k = "saddstr" -> Line("s += str(" \o VT(op.v) \o ")")
    [] k = "slen" -> Line("n = len(s)")
    [] k = "sidx" -> Line("s = s[0]")
    [] k = "seq" -> Line("bb = s == 'ab'")
    [] k = "strlist" -> Line("sl = ['x', s]") \o Line("n = len(sl[0]) + len(sl[1])")
    [] k = "strcomp" -> Line("sc = [str(x) for x in xs]") \o Line("n = 0") \o Line("for se in sc:") \o Line("\tn += len(se)")
    [] k = "sstarts" -> Line("bb = s.startswith('" \o Str(op.p) \o "')")
    [] k = "sends" -> Line("bb = s.endswith('" \o Str(op.p) \o "')")
    [] k = "sfind" -> Line("n = s.find('" \o op.c \o "')")
    [] k = "sslice" -> Line("s = s[" \o (IF op.lo = 0 THEN "" ELSE ToString(op.lo)) \o ":" \o (IF op.hi = -1 THEN "" ELSE ToString(op.hi)) \o "]")
    [] k = "tuple" -> Line("t = (a, s)") \o Line("tq, tr = t") \o Line("n = tq + len(tr)")
    [] k = "tupleidx" -> Line("tu = (a, s)") \o Line("n = tu[0]")
    [] k = "untuple" -> Line("def pair(px: int) -> tuple[int, bool]:") \o Line("\treturn (px, True)") \o Line("n, bb = pair(b)")
    [] k = "ternary" -> Line("n = a if a > b else b")
    [] k = "max" -> Line("n = max(a, n)")
    [] k = "min" -> Line("n = min(n, b)")
    [] k = "abs" -> Line("n = abs(a - b)")
    [] k = "addn" -> Line("n = n * 2 - b")
    [] k = "closurenest" -> Line("def outer(ok: int) -> int:") \o Line("\tdef inner(ik: int) -> int:") \o Line("\t\treturn ik + ok") \o Line("\treturn inner(ok) + a") \o Line("n = outer(b)")
    [] k = "lambdalocal" -> Line("inc: Callable[[int], int] = lambda lq: lq + a") \o Line("n = inc(b)")
    [] k = "closurecall" -> Line("n = tw(lambda lv: lv + a, b)")
    [] k = "lambdacall" -> Line("n = co(lambda lw: lw + b, a)")
    [] k = "closure" -> Line("def h(hx: int) -> int:") \o Line("\treturn hx + a") \o Line("n = h(b)")
    [] k = "defarg" -> Line("def g(gx: int, gy: int = 5) -> int:") \o Line("\treturn gx + gy") \o Line("n = g(b) + g(b, gy=1)")
    [] k = "castsamemul" -> Line("n = int(a + b) * 3")
    [] k = "castsamesub" -> Line("n = b - int(a - b)")
    [] k = "castsamenot" -> Line("bb = not bool(a > b or bb)")
    [] k = "castint" -> Line("n = int('12') + a")
    [] k = "caststr" -> Line("s = str(a) + str(n)")
    [] k = "tryraise" -> Line("try:") \o Line("\tif a > 0:") \o Line("\t\traise RuntimeError('m')") \o Line("except RuntimeError as ex:") \o Line("\tn = 5")
    [] k = "breakcont" -> Line("for bx in xs:") \o Line("\tif bx == a:") \o Line("\t\tcontinue") \o Line("\tif bx == 7:") \o Line("\t\tbreak") \o Line("\tn += bx")
    [] k = "range3" -> Line("for ri in range(0, 6, 2):") \o Line("\tn += ri")
    [] k = "srfind2" -> Line("n = s.rfind('b,')")
    [] k = "sfind2" -> Line("n = s.find('b,')")
    [] k = "dgetplus" -> Line("n = d.get('k', b) + 1")
    [] k = "dgetneg" -> Line("n = -d.get('jj', 9) * 2")
    [] k = "dpopdefault" -> Line("n = d.pop('zzz', b)")
    [] k = "flchain" -> Line("gf: float = 1.5") \o Line("gm = " \o FlText[op.i]) \o Line("n += int(gm * 2)")
    [] k = "enumcontinue" -> Line("for ci, cv in enumerate(xs):") \o Line("\tif cv == a:") \o Line("\t\tcontinue") \o Line("\tn += ci * 10 + cv")
    [] k = "kwreorder" -> Line("def kw(gx: int, gy: int = 5, gz: int = 7) -> int:") \o Line("\treturn gx * 100 + gy * 10 + gz") \o Line("n = kw(b, gz=1, gy=2)")
    [] k = "kwskip" -> Line("def ks(gx: int, gy: int = 5, gz: int = 7) -> int:") \o Line("\treturn gx * 100 + gy * 10 + gz") \o Line("n = ks(b, gz=1)")
    [] k = "swap" -> Line("xs[0], xs[1] = xs[1], xs[0]")
    [] k = "dblcomp" -> Line("n = len([1 for dx in xs for dy in xs])")
    [] k = "dblcompcond" -> Line("ys = [ex * ey for ex in xs for ey in xs if ex > ey]")
    [] k = "closureloop" -> Line("for cx in xs:") \o Line("\tdef addc(cz: int) -> int:") \o Line("\t\treturn cz + cx") \o Line("\tn += addc(1)")
    [] k = "chaincmp" -> Line("bb = a < b < 7")
    [] k = "andor" -> Line("bb = a == b or not (a > 1 and b > 1)")
    [] k = "range1" -> Line("for r1 in range(b):") \o Line("\tn += r1")
    [] k = "range2" -> Line("for r2 in range(a, b):") \o Line("\tn += r2")
    [] k = "range2len" -> Line("for r3 in range(1, len(xs)):") \o Line("\tn += xs[r3]")
    [] k = "range3ab" -> Line("for r4 in range(a, b + 4, 2):") \o Line("\tn += r4")
    [] k = "rangecomp1" -> Line("ys = [r5 for r5 in range(b)]")
    [] k = "rangecomp2" -> Line("ys = [r6 * 2 for r6 in range(a, b)]")

\* ---- initial states (written with the parameters, so that the values vary with the argument vector)
InitText == <<
  Line("xs: list[int] = [b, a, 7]") \o Line("ys: list[int] = [1]") \o Line("d: dict[str, int] = {'k': a, 'jj': b}") \o Line("e: dict[str, int] = {}") \o Line("s: str = 'ab,a'") \o Line("n: int = 0") \o Line("bb: bool = False"),
  Line("xs: list[int] = []") \o Line("ys: list[int] = []") \o Line("d: dict[str, int] = {}") \o Line("e: dict[str, int] = {}") \o Line("s: str = ''") \o Line("n: int = 5") \o Line("bb: bool = True"),
  Line("xs: list[int] = [a]") \o Line("ys: list[int] = [b, b]") \o Line("d: dict[str, int] = {'zzz': 7}") \o Line("e: dict[str, int] = {'k': 1}") \o Line("s: str = 'b'") \o Line("n: int = a") \o Line("bb: bool = False") >>
InitSt(ii, a, b) ==
  CASE ii = 1 -> [xs |-> <<b, a, 7>>, ys |-> <<1>>, d |-> [x \in {"k", "jj"} |-> IF x = "k" THEN a ELSE b], e |-> Empty, s |-> <<"a", "b", ",", "a">>, n |-> 0, bb |-> FALSE, a |-> a, b |-> b]
    [] ii = 2 -> [xs |-> <<>>, ys |-> <<>>, d |-> Empty, e |-> Empty, s |-> <<>>, n |-> 5, bb |-> TRUE, a |-> a, b |-> b]
    [] ii = 3 -> [xs |-> <<a>>, ys |-> <<b, b>>, d |-> [x \in {"zzz"} |-> 7], e |-> [x \in {"k"} |-> 1], s |-> <<"b">>, n |-> a, bb |-> FALSE, a |-> a, b |-> b]

Args == << <<2, 3>>, <<0, 0>>, <<3, 1>>, <<-1, 4>> >>

RECURSIVE Run(_, _)
Run(ops, st) == IF ops = <<>> \/ IsUndef(st) THEN st ELSE Run(Tail(ops), Apply(Head(ops), st))

Head1 == "def f(a: int, b: int) -> tuple[list[int], list[int], dict[str, int], dict[str, int], str, int, bool]:\n"
\* module-level helpers the programs call: a closure / a lambda whose only use of a callable parameter of the enclosing
\* function is calling it
Prelude == "from collections.abc import Callable\n"
           \o "def tw(tf: Callable[[int], int], tk: int) -> int:\n\tdef inner(ik: int) -> int:\n\t\treturn tf(tf(ik)) + tk\n\treturn inner(tk)\n"
           \o "def ap(af: Callable[[int], int], ax: int) -> int:\n\treturn af(ax)\n"
           \o "def co(cf: Callable[[int], int], cx: int) -> int:\n\treturn ap(lambda cv: cf(cf(cv)), cx)\n"
Ret == Line("return (xs, ys, d, e, s, n, bb)")
ProgText(ii, ops) == Head1 \o InitText[ii] \o JoinS([i \in DOMAIN ops |-> Text(ops[i])], "") \o Ret

DictJson(d) == {[k |-> x, v |-> d[x]] : x \in DOMAIN d}
Show(st) == IF IsUndef(st) THEN [undef |-> TRUE]
            ELSE [undef |-> FALSE, xs |-> st.xs, ys |-> st.ys, d |-> DictJson(st.d), e |-> DictJson(st.e), s |-> Str(st.s), n |-> st.n, bb |-> st.bb]
Outcomes(ii, ops) == [j \in DOMAIN Args |-> Show(Run(ops, InitSt(ii, Args[j][1], Args[j][2])))]

\* operations that declare a name (annotated local, nested function) occur at most once per program
Declaring == {"closurenest", "lambdalocal", "fillanno", "fillannolen", "flchain", "kwreorder", "kwskip", "closureloop", "zipcomp", "nested", "nestedapp", "dictlist", "dintkey", "untuple", "closure", "defarg"}
Programs == {p \in [1..K -> Ops] : \A i, j \in 1..K : (i < j /\ p[i].k \in Declaring) => p[j].k # p[i].k}
\* every value stays inside the agreement subset (|v| < 2^20) and no operation leaves the state space
Bounded == \A ii \in DOMAIN InitText : \A p \in Programs : \A j \in DOMAIN Args :
             LET st == Run(p, InitSt(ii, Args[j][1], Args[j][2])) IN
             IsUndef(st) \/ (Abs(st.n) < 1048576 /\ \A i \in DOMAIN st.xs : Abs(st.xs[i]) < 1048576)
\* copies are values: an operation on the copy never changes the original (no aliasing)
CopiesAreValues == \A ii \in DOMAIN InitText : \A j \in DOMAIN Args :
             LET st == InitSt(ii, Args[j][1], Args[j][2]) IN
             Apply([k |-> "copymut"], st).xs = st.xs /\ Apply([k |-> "dcopymut"], st).d = st.d

EmitProgs == \A ii \in DOMAIN InitText : \A p \in Programs :
   PrintT("PROG " \o ToJson([init |-> ii, ops |-> [i \in DOMAIN p |-> p[i].k], prelude |-> Prelude, text |-> ProgText(ii, p), outcomes |-> Outcomes(ii, p)]))
EmitArgs == PrintT("ARGS " \o ToJson(Args))
=============================================================================
