CONSTANTS
  Mods <- TwinsMods
  Imports <- TwinsImports
  Targets <- TwinsTargets
  Variants <- V2
  BodyOf <- Body2
  MaxOps = 6
  MaxT = 0
  AstHash = TRUE
  MaxTorn = 1
  TransitiveKey = TRUE
  DeepHeader = FALSE
  StoreGated = TRUE
  WithCache = TRUE
  WithOutputs = FALSE
INIT TwinsInit
NEXT TwinsNext
VIEW View
CONSTRAINT Bounded
INVARIANT TypeOK
CHECK_DEADLOCK FALSE
PROPERTY WarmEqualsCold
PROPERTY DisabledIsInert
PROPERTY TornNeverWrong
INVARIANT CacheCoherent
