CONSTANTS
  Mods <- ChainMods
  Imports <- ChainImports
  Targets <- ChainTargets
  Variants <- V2
  BodyOf <- Body2
  MaxOps = 5
  MaxT = 0
  AstHash = TRUE
  MaxTorn = 1
  TransitiveKey = FALSE
  DeepHeader = FALSE
  StoreGated = TRUE
  WithCache = TRUE
  WithOutputs = FALSE
INIT Init
NEXT Next
VIEW View
CONSTRAINT Bounded
ACTION_CONSTRAINT Emit
CHECK_DEADLOCK FALSE
