CONSTANTS
  MaxLines = 2
  MaxInd = 2
  Pool <- AllBodies
  MaxRewrites = 2
INIT Init
NEXT Next
INVARIANT IndentsBalance
INVARIANT ValidIndent
PROPERTY LayoutInsensitive
CHECK_DEADLOCK FALSE
