CONSTANTS
  Mods <- DiamondMods
  Imports <- DiamondImports
  Targets <- DiamondTargets
  Variants <- V3
  BodyOf <- Body3
  MaxOps = 6
  MaxT = 0
  AstHash = TRUE
  MaxTorn = 0
  TransitiveKey = FALSE
  DeepHeader = FALSE
  StoreGated = TRUE
  WithCache = FALSE
  WithOutputs = TRUE
INIT Init
NEXT Next
VIEW View
CONSTRAINT Bounded
INVARIANT TypeOK
CHECK_DEADLOCK FALSE
PROPERTY RunEqualsForced
PROPERTY Untouched
PROPERTY RegeneratesOnHeaderChange
