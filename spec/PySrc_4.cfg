CONSTANTS
  NOps = 4
