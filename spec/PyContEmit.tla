----------------------------- MODULE PyContEmit -----------------------------
EXTENDS PyCont
ASSUME PrintT("BOUNDED " \o ToString(Bounded))
ASSUME PrintT("COPIES " \o ToString(CopiesAreValues))
ASSUME EmitArgs
ASSUME EmitProgs
ASSUME PrintT("UNIVERSE " \o ToString(Cardinality(Ops)) \o " ops, " \o ToString(Cardinality(Programs)) \o " op sequences")
=============================================================================
