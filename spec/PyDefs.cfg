CONSTANTS
  MaxDepth = 4
