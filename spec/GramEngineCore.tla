--------------------------- MODULE GramEngineCore ---------------------------
(***************************************************************************)
(* The matching engine of tranp's own parser, independent of where rule    *)
(* sets and sentences come from (see GramEngine.tla for the description).  *)
(* RegexMatch(e, w): the word w matches the regular expression e in full.  *)
(***************************************************************************)
EXTENDS Integers, Sequences, FiniteSets, TLC

CONSTANT RegexMatch(_, _)

RECURSIVE TermsOf(_)
TermsOf(m) == IF m.t = "pat" THEN (IF m.role = "Terminal" /\ m.comp = "Equals" THEN {m.e} ELSE {})
              ELSE UNION {TermsOf(m.es[i]) : i \in DOMAIN m.es}
\* Rules.keywords: every terminal expression (string or regexp) of the rule set; a token equal to one of them
\* matches only string terminals (the regexp bodies are in the list too, as in the code - harmless)
RECURSIVE AllTerminals(_)
AllTerminals(m) == IF m.t = "pat" THEN (IF m.role = "Terminal" THEN {m.e} ELSE {}) ELSE UNION {AllTerminals(m.es[i]) : i \in DOMAIN m.es}
Keywords(rules) == UNION {AllTerminals(rules[n].m) : n \in DOMAIN rules}

Ng == [ok |-> FALSE, steps |-> 0, kids |-> <<>>, spin |-> FALSE]
Ok(n, kids, spin) == [ok |-> TRUE, steps |-> n, kids |-> kids, spin |-> spin]
EmptyTok == <<"tok", "__empty__", "">>
IsTok(x) == x[1] = "tok"
TokOf(name, word) == <<"tok", name, word>>
TreeOf(name, kids) == <<"tree", name, kids>>

\* _compare_token
Compare(rules, word, p) == IF p.comp = "Equals" THEN p.e = word
                           ELSE word \notin Keywords(rules) /\ RegexMatch(p.e, word)
\* _match_terminal: the token at distance c from the end
MTerm(rules, ts, c, p) == IF Len(ts) <= c THEN [ok |-> FALSE, word |-> ""]
                          ELSE LET w == ts[Len(ts) - c] IN [ok |-> Compare(rules, w, p), word |-> w]

\* _unwrap_children
RECURSIVE UnwrapKids(_, _)
UnwrapKids(rules, kids) ==
  IF kids = <<>> THEN <<>>
  ELSE LET h == Head(kids)
           u == IF h[2] \in DOMAIN rules THEN rules[h[2]].unwrap ELSE "*"
           hs == IF IsTok(h) THEN <<h>>
                 ELSE IF u = "1" /\ Len(h[3]) = 1 THEN <<h[3][1]>>
                 ELSE IF u = "*" THEN h[3]
                 ELSE <<h>>
       IN hs \o UnwrapKids(rules, Tail(kids))

RECURSIVE MSym(_, _, _, _), MEntry(_, _, _, _, _), MOr(_, _, _, _, _), MAnd(_, _, _, _, _, _, _, _), MRep(_, _, _, _, _, _, _, _)
\* _match_symbol: result kids = <<the entry for this symbol>>
MSym(rules, ts, c, sym) ==
  LET p == rules[sym].m IN
  IF p.t = "pat" /\ p.role = "Terminal"
  THEN LET T == MTerm(rules, ts, c, p) IN IF T.ok THEN Ok(1, <<TokOf(sym, T.word)>>, FALSE) ELSE Ng
  ELSE LET X == MEntry(rules, ts, c, p, TRUE) IN
       IF X.ok THEN Ok(X.steps, <<TreeOf(sym, UnwrapKids(rules, X.kids))>>, X.spin) ELSE [Ng EXCEPT !.spin = X.spin]
\* _match_entry
MEntry(rules, ts, c, p, allowRep) ==
  IF p.t = "grp"
  THEN IF p.rep # "off" /\ allowRep THEN MRep(rules, ts, c, p, 0, 0, <<>>, FALSE)
       ELSE IF p.op = "Or" THEN MOr(rules, ts, c, p, 1)
       ELSE MAnd(rules, ts, c, p, Len(p.es), 0, <<>>, FALSE)
  ELSE IF p.role = "Terminal"
       THEN (IF MTerm(rules, ts, c, p).ok THEN Ok(1, <<>>, FALSE) ELSE Ng)        \* an anonymous terminal leaves no entry
       ELSE MSym(rules, ts, c, p.e)
\* _match_or: first alternative that matches
MOr(rules, ts, c, p, i) ==
  IF i > Len(p.es) THEN Ng
  ELSE LET X == MEntry(rules, ts, c, p.es[i], TRUE) IN
       IF X.ok \/ X.spin THEN X ELSE MOr(rules, ts, c, p, i + 1)
\* _match_and: entries from the last to the first
MAnd(rules, ts, c, p, i, steps, kids, spin) ==
  IF i = 0 THEN Ok(steps, kids, spin)
  ELSE LET X == MEntry(rules, ts, c + steps, p.es[i], TRUE) IN
       IF X.spin /\ ~X.ok THEN [Ng EXCEPT !.spin = TRUE]
       ELSE IF ~X.ok THEN Ng
       ELSE MAnd(rules, ts, c, p, i - 1, steps + X.steps, X.kids \o kids, spin \/ X.spin)
\* _match_repeat
MRep(rules, ts, c, p, steps, found, kids, spin) ==
  LET Done == IF found = 0
              THEN (CASE p.rep \in {"*", "?"} -> Ok(0, <<>>, spin) [] p.rep = "[]" -> Ok(0, <<EmptyTok>>, spin) [] OTHER -> [Ng EXCEPT !.spin = spin])
              ELSE Ok(steps, kids, spin)
  IN IF ~(c + steps < Len(ts)) THEN Done
     ELSE LET X == MEntry(rules, ts, c + steps, p, FALSE) IN
          IF X.spin THEN [Ng EXCEPT !.spin = TRUE]
          ELSE IF ~X.ok THEN Done
          ELSE IF p.rep \in {"?", "[]"} THEN Ok(steps + X.steps, X.kids \o kids, spin)
          ELSE IF X.steps = 0 THEN [Ng EXCEPT !.spin = TRUE]      \* the round consumed nothing and tokens remain: the loop never ends
          ELSE MRep(rules, ts, c, p, steps + X.steps, found + 1, X.kids \o kids, spin)


\* parse: the whole token list must be consumed
ParseToks(rules, ts, entry) ==
  LET X == MSym(rules, ts, 0, entry) IN
  IF X.spin THEN [v |-> "spin"]
  ELSE IF X.ok /\ X.steps = Len(ts) THEN [v |-> "accept", tree |-> X.kids[1]]
  ELSE [v |-> "reject"]
=============================================================================
