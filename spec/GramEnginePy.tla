---------------------------- MODULE GramEnginePy ----------------------------
(***************************************************************************)
(* The engine of GramEngineCore.tla evaluated on REAL data: the rule set    *)
(* is py_rules() as shipped (serialised by the harness: for every symbol   *)
(* its unwrap marker and its pattern structure), the sentences are token   *)
(* lists produced by the real tokenizer, and which token matches which     *)
(* regular-expression terminal in full is supplied as a table (regular     *)
(* expressions are not modelled).  For every sentence the specification's  *)
(* engine computes verdict and tree; the harness compares them with what   *)
(* SyntaxParser returns for the same tokens.                               *)
(***************************************************************************)
EXTENDS GramEngineCore, Json, IOUtils, Sequences

Data == JsonDeserialize(IOEnv.ENGINE_DATA)
RulesSeq == Data.rules                                  \* sequence of [name, unwrap, m]
Names == {RulesSeq[i].name : i \in DOMAIN RulesSeq}
Rules == [n \in Names |-> LET r == RulesSeq[CHOOSE i \in DOMAIN RulesSeq : RulesSeq[i].name = n] IN [unwrap |-> r.unwrap, m |-> r.m]]
MatchPairs == {<<Data.matches[i][1], Data.matches[i][2]>> : i \in DOMAIN Data.matches}
DataRegexMatch(e, w) == <<e, w>> \in MatchPairs
Sents == Data.sentences                                 \* sequence of [id, toks]

Result(i) == LET R == ParseToks(Rules, Sents[i].toks, "entry") IN
             [id |-> Sents[i].id, v |-> R.v, tree |-> IF R.v = "accept" THEN R.tree ELSE <<>>]
Emit == \A i \in DOMAIN Sents : PrintT("PYENGINE " \o ToJson(Result(i)))
ASSUME Emit
=============================================================================
