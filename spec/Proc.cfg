CONSTANTS
  MaxN = 4
  MaxP = 3
  MaxNest = 2
  MaxFail = 1
  MaxRuns = 2
SPECIFICATION Spec
INVARIANT TypeOK
INVARIANT NeverUnderflow
PROPERTY EventIsChildren
PROPERTY NoSiblingLeak
PROPERTY OneResult
PROPERTY NestedTransparent
PROPERTY NestedReturns
PROPERTY ReturnPushesOne
PROPERTY FreshAfterFailure
CHECK_DEADLOCK FALSE
