CONSTANTS
  QuoteFix = TRUE
  MaxSteps = 4
INIT Init
NEXT Next
INVARIANT LawRejoin
INVARIANT LawPiecesBalanced
INVARIANT LawGeneratedBalanced
CHECK_DEADLOCK FALSE
