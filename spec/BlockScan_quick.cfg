CONSTANTS
  QuoteFix = TRUE
  MaxSteps = 4
INIT Init
NEXT Next
INVARIANT LawRejoin
INVARIANT LawPiecesBalanced
INVARIANT LawGeneratedBalanced
INVARIANT LawLevelsAgree
CHECK_DEADLOCK FALSE
