CONSTANTS
  Wrapped <- WrappedAll
INIT Init
NEXT Next
INVARIANT EscapesAreApp
PROPERTY RenderTotal
PROPERTY LoopSurvives
PROPERTY ParseErrorsAreApp
CHECK_DEADLOCK FALSE
