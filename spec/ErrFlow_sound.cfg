CONSTANTS
  Wrapped <- WrappedAll
  ParseReports <- ReportsSyntax
INIT Init
NEXT Next
INVARIANT EscapesAreApp
PROPERTY RenderTotal
PROPERTY LoopSurvives
PROPERTY ParseErrorsAreApp
PROPERTY ParseErrorsAreSyntax
CHECK_DEADLOCK FALSE
