---------------------------- MODULE MetaGramEmit ----------------------------
EXTENDS MetaGram
ASSUME PrintT("ROUNDTRIP " \o ToString(RoundTripAll))
ASSUME PrintT("ROUNDTRIPNORM " \o ToString(RoundTripNormAll))
ASSUME PrintT("EXACTCOUNTEREXAMPLES " \o ToString(Cardinality(ExactCounterexamples)))
ASSUME PrintT("STABLE " \o ToString(PrettyStableAll))
ASSUME PrintT("COUNTEREXAMPLES " \o ToJson(RoundTripCounterexamples))
ASSUME Emit
ASSUME EmitGramLark
ASSUME PrintT("OUTAGREES " \o ToString(OutAgrees))
ASSUME PrintT("GRAMLARK-ROUNDTRIPS " \o ToString(GramLarkRoundTrips))
ASSUME PrintT("UNIVERSE " \o ToString(Cardinality(Exprs)))
=============================================================================
