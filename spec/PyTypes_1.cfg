CONSTANTS
  Depth = 1
