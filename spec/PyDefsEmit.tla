----------------------------- MODULE PyDefsEmit -----------------------------
EXTENDS PyDefs
ASSUME PrintT("CLOSURE " \o ToString(ClosureByPositionOnly))
ASSUME PrintT("CONSTRUCTOR " \o ToString(ConstructorDirectlyInClass))
ASSUME Emit
ASSUME EmitLists
=============================================================================
