CONSTANTS
  N = 4
  ParenFix = TRUE
  Rich = TRUE
