----------------------------- MODULE TreePath -----------------------------
(***************************************************************************)
(* Tree addressing and node resolution of rog-works/tranp:                 *)
(*   syntax/ast/finder.py (full_pathfy, pluck), syntax/ast/path.py,        *)
(*   syntax/ast/cache.py (EntryCache: ids, child map, group_by),           *)
(*   syntax/node/query.py (Nodes: by/parent/children/siblings/ancestor),   *)
(*   syntax/node/resolver.py (NodeResolver: instance cache, first          *)
(*   accepting class in registration order).                               *)
(*                                                                         *)
(* Phase "build": entry trees are built by actions, so TLC enumerates      *)
(* every ordered tree up to MaxN entries over the tag vocabulary (two      *)
(* inner tags, a token tag without node class, the empty placeholder).     *)
(* Phase "query": node queries run against the tree; the resolver's        *)
(* instance cache and the query memo are state.                            *)
(***************************************************************************)
EXTENDS Integers, Sequences, FiniteSets, TLC, Json

CONSTANTS MaxN,      \* max entries of a tree
          MaxKids,   \* max children per entry
          MaxQ       \* max queries per behaviour

VARIABLES tag,     \* tag[n]: entry tag of entry n (1 = root); entries are numbered in creation order
          kids,    \* kids[n]: sequence of child entries, in order
          par,     \* par[n]: parent entry (0 for the root)
          phase,   \* "build" | "query"
          insts,   \* resolver instance cache: path string -> class name
          memo,    \* query memo keys
          nq,      \* queries so far
          op       \* label of the last step

vars == <<tag, kids, par, phase, insts, memo, nq, op>>
View == <<tag, kids, par, phase, insts, memo, nq>>

InnerTags == {"a", "ab"}           \* entries that may have children (one tag is a proper prefix of the other, like list and list_comp in the grammar)
LeafTags == {"tra", "__empty__"}   \* token without own node class (its tag holds the root tag and an inner tag as substrings) / empty placeholder
Entries == DOMAIN tag
Root == 1

-----------------------------------------------------------------------------
(* addressing: finder.py / path.py *)

IndexOf(s, x) == CHOOSE i \in DOMAIN s : s[i] = x
SameTagSiblings(n) == IF par[n] = 0 THEN {n} ELSE {k \in {kids[par[n]][i] : i \in DOMAIN kids[par[n]]} : tag[k] = tag[n]}

\* one path element: the bare tag when it is unique among the siblings, else tag[position among ALL siblings]
Elem(n) == IF Cardinality(SameTagSiblings(n)) = 1 THEN tag[n]
           ELSE tag[n] \o "[" \o ToString(IndexOf(kids[par[n]], n) - 1) \o "]"

RECURSIVE PathOf(_)
PathOf(n) == IF n = Root THEN tag[n] ELSE PathOf(par[n]) \o "." \o Elem(n)

RECURSIVE PreOrder(_), PreKids(_)
PreKids(s) == IF s = <<>> THEN <<>> ELSE PreOrder(Head(s)) \o PreKids(Tail(s))
PreOrder(n) == <<n>> \o PreKids(kids[n])
DocOrder == PreOrder(Root)
\* EntryCache.index_of: position of insertion = document order, 0-based
IdOf(n) == IndexOf(DocOrder, n) - 1

\* pluck as coded: an indexed element selects the child at that position (whatever its tag),
\* a bare element the LAST child carrying the tag
RECURSIVE ChainOf(_)
ChainOf(n) == IF n = Root THEN <<>> ELSE Append(ChainOf(par[n]), n)   \* entries from below the root down to n
PluckStep(e, n) ==   \* child of e addressed the way the element of n is spelled
  IF Cardinality(SameTagSiblings(n)) = 1
  THEN LET cands == {i \in DOMAIN kids[e] : tag[kids[e][i]] = tag[n]} IN
       IF cands = {} THEN 0 ELSE kids[e][CHOOSE i \in cands : \A j \in cands : j <= i]
  ELSE LET pos == IndexOf(kids[par[n]], n) IN IF pos \in DOMAIN kids[e] THEN kids[e][pos] ELSE 0
RECURSIVE PluckAlong(_, _)
PluckAlong(e, chain) == IF chain = <<>> THEN e
                        ELSE LET nxt == PluckStep(e, Head(chain)) IN IF nxt = 0 THEN 0 ELSE PluckAlong(nxt, Tail(chain))
Pluck(n) == PluckAlong(Root, ChainOf(n))

-----------------------------------------------------------------------------
(* relatives: query.py *)

Resolvable(t) == t \in {"r", "a", "ab", "__empty__"}     \* tags with a registered node class ("tra" falls back)
RECURSIVE NearestResolvable(_)
NearestResolvable(n) == IF n = 0 THEN 0 ELSE IF Resolvable(tag[n]) THEN n ELSE NearestResolvable(par[n])
ParentOf(n) == NearestResolvable(par[n])                  \* 0 = NodeNotFound
ChildrenOf(n) == kids[n]
SiblingsOf(n) == IF n = Root THEN <<>> ELSE kids[par[n]]   \* includes n itself; root: NodeNotFound
RECURSIVE AncestorOf(_, _)
AncestorOf(n, t) == IF n = 0 THEN 0 ELSE IF tag[n] = t THEN n ELSE AncestorOf(par[n], t)   \* starts at n itself

\* the node class of an entry is a function of the tree alone: first accepting class in registration order
Classify(n) == CASE tag[n] = "r" -> "Root"
                 [] tag[n] = "a" -> (IF par[n] # 0 /\ tag[par[n]] = "r" THEN "A1" ELSE "A2")
                 [] tag[n] = "ab" -> (IF kids[n] # <<>> THEN "B1" ELSE "B2")
                 [] tag[n] = "__empty__" -> "Empty"
                 [] OTHER -> "Terminal"

-----------------------------------------------------------------------------
Init == /\ tag = <<"r">> /\ kids = <<<<>>>> /\ par = <<0>>
        /\ phase = "build" /\ insts = <<>> /\ memo = {} /\ nq = 0
        /\ op = [name |-> "init"]

AddChild(p, t) ==
  /\ phase = "build" /\ Len(tag) < MaxN /\ Len(kids[p]) < MaxKids
  /\ tag[p] \in InnerTags \cup {"r"}
  /\ tag' = Append(tag, t)
  /\ kids' = Append([kids EXCEPT ![p] = Append(@, Len(tag) + 1)], <<>>)
  /\ par' = Append(par, p)
  /\ op' = [name |-> "add", p |-> p, t |-> t]
  /\ UNCHANGED <<phase, insts, memo, nq>>

StartQueries == /\ phase = "build" /\ phase' = "query" /\ op' = [name |-> "start"]
                /\ UNCHANGED <<tag, kids, par, insts, memo, nq>>

SeqSet(s) == {s[i] : i \in DOMAIN s}
\* resolving entries instantiates them once; the cache never changes an entry's class afterwards.
\* Deciding the class of a not yet instantiated "ab" entry looks at its children through the node API, which
\* instantiates them too (a matcher may look down, never up): the set of entries instantiated by a query is
\* the closure of its results under that rule.
RECURSIVE Closure(_)
Closure(ns) == LET fresh == {n \in ns : PathOf(n) \notin DOMAIN insts /\ tag[n] = "ab"}
                   more == ns \cup UNION {SeqSet(kids[n]) : n \in fresh}
               IN IF more = ns THEN ns ELSE Closure(more)
Resolved(ns0) == LET ns == Closure(ns0) IN
                 [p \in {PathOf(n) : n \in ns} \cup DOMAIN insts |->
                   IF p \in DOMAIN insts THEN insts[p] ELSE Classify(CHOOSE n \in ns : PathOf(n) = p)]
Paths(s) == [i \in DOMAIN s |-> PathOf(s[i])]

Query(kind, n, t) ==
  /\ phase = "query" /\ nq < MaxQ
  /\ nq' = nq + 1
  /\ LET res == CASE kind = "by" -> <<n>>
                  [] kind = "parent" -> (IF ParentOf(n) = 0 THEN <<>> ELSE <<ParentOf(n)>>)
                  [] kind = "children" -> ChildrenOf(n)
                  [] kind = "siblings" -> SiblingsOf(n)
                  [] kind = "ancestor" -> (IF AncestorOf(n, t) = 0 THEN <<>> ELSE <<AncestorOf(n, t)>>)
         notfound == (kind = "parent" /\ res = <<>>) \/ (kind = "siblings" /\ n = Root) \/ (kind = "ancestor" /\ res = <<>>)
     IN /\ insts' = Resolved(SeqSet(res))
        /\ memo' = IF kind \in {"parent", "children", "ancestor"} /\ ~notfound THEN memo \cup {<<kind, PathOf(n), t>>} ELSE memo
        /\ op' = [name |-> kind, path |-> PathOf(n), t |-> t,
                  res |-> IF notfound THEN "NodeNotFound" ELSE "ok",
                  paths |-> Paths(res), classes |-> [i \in DOMAIN res |-> Classify(res[i])]]
  /\ UNCHANGED <<tag, kids, par, phase>>

Next ==
  \/ \E p \in Entries, t \in InnerTags \cup LeafTags : AddChild(p, t)
  \/ StartQueries
  \/ \E n \in Entries : \E kind \in {"by", "parent", "children", "siblings"} : Query(kind, n, "")
  \/ \E n \in Entries, t \in {"r", "a", "ab"} : Query("ancestor", n, t)

Spec == Init /\ [][Next]_vars

-----------------------------------------------------------------------------
(* C10 *)

\* every entry has exactly one full path; looking the path up returns that very entry
Bijection == /\ \A n \in Entries : Pluck(n) = n
             /\ \A m, n \in Entries : m # n => PathOf(m) # PathOf(n)

\* ids follow document order: a parent precedes its children, an earlier sibling's subtree precedes a later one
IdsDocumentOrder == /\ \A n \in Entries : n # Root => IdOf(par[n]) < IdOf(n)
                    /\ \A p \in Entries : \A i, j \in DOMAIN kids[p] : i < j => IdOf(kids[p][i]) < IdOf(kids[p][j])
                    /\ {IdOf(n) : n \in Entries} = 0..(Len(tag) - 1)

\* parent / children / siblings / ancestor agree with each other and with the tree
RelativesAgree ==
  /\ \A p, c \in Entries : (\E i \in DOMAIN ChildrenOf(p) : ChildrenOf(p)[i] = c) <=> par[c] = p
  /\ \A n \in Entries : n # Root => (n \in SeqSet(SiblingsOf(n)) /\ \A s \in SeqSet(SiblingsOf(n)) : par[s] = par[n])
  /\ \A n \in Entries : ParentOf(n) # 0 => \E k \in 1..Len(ChainOf(n)) \cup {0} : TRUE
  /\ \A n \in Entries : \A t \in {"r", "a", "ab"} : AncestorOf(n, t) # 0 => tag[AncestorOf(n, t)] = t
  /\ \A n \in Entries : Resolvable(tag[n]) /\ n # Root /\ Resolvable(tag[par[n]]) => ParentOf(n) = par[n]

\* the class recorded for a path is the class the tree dictates, whatever was queried before
CacheIsClassify == \A p \in DOMAIN insts : \E n \in Entries : PathOf(n) = p /\ insts[p] = Classify(n)
CacheMonotone == [][\A p \in DOMAIN insts : p \in DOMAIN insts' /\ insts'[p] = insts[p]]_vars

TypeOK == /\ Len(tag) = Len(kids) /\ Len(tag) = Len(par)
          /\ \A n \in Entries : tag[n] \in InnerTags \cup LeafTags \cup {"r"}

-----------------------------------------------------------------------------
(* emitters for spec -> code replay *)
\* one JSON case per built tree: structure + everything the spec says about addressing and relatives
TreeCase == [tag |-> tag, kids |-> kids, par |-> par,
             paths |-> [n \in Entries |-> PathOf(n)], ids |-> [n \in Entries |-> IdOf(n)],
             classes |-> [n \in Entries |-> Classify(n)],
             parent |-> [n \in Entries |-> IF ParentOf(n) = 0 THEN "" ELSE PathOf(ParentOf(n))]]
EmitTree == op'.name = "add" => PrintT("TREE " \o ToJson(TreeCase'))
EmitEdge == phase' = "query" => PrintT("EDGE " \o ToJson([from |-> View, op |-> op', to |-> View']))
=============================================================================
