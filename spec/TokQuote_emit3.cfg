CONSTANTS
  MaxBody = 3
  EscapedSkip = "one"
INIT Init
NEXT Next
INVARIANT EmitCase
CHECK_DEADLOCK FALSE
