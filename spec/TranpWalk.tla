----------------------------- MODULE TranpWalk -----------------------------
(* Several random walks through Tranp.tla in one TLC run: the walk number is part of the state, so that walks do not
   merge; every edge is emitted for replay on the real code. *)
EXTENDS MCTranp
CONSTANT NWalks
VARIABLES walk, step          \* step makes every state of a walk new, so a walk is never cut short by revisiting a state
WInit == Init /\ walk \in 1..NWalks /\ step = 0
WNext == RandomNext /\ walk' = walk /\ step' = step + 1
WView == <<View, walk, step>>
WEmit == PrintT("EDGE " \o ToJson([from |-> View, op |-> op', to |-> View', walk |-> walk, step |-> step]))
=============================================================================
