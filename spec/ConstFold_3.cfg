CONSTANTS
  Depth = 2
  Leaves2 <- MidLeaves
