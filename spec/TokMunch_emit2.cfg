CONSTANTS
  MaxRun = 2
  Lookup = "longest"
INIT Init
NEXT Next
INVARIANT EmitCase
CHECK_DEADLOCK FALSE
