CONSTANTS
  Mods <- DiamondMods
  Imports <- DiamondImports
  Targets <- DiamondTargets
  Variants <- V2
  BodyOf <- Body2
  MaxOps = 6
  MaxT = 0
  AstHash = TRUE
  MaxTorn = 1
  TransitiveKey = TRUE
  DeepHeader = FALSE
  StoreGated = TRUE
  WithCache = TRUE
  WithOutputs = FALSE
INIT Init
NEXT Next
VIEW View
CONSTRAINT Bounded
INVARIANT TypeOK
CHECK_DEADLOCK FALSE
PROPERTY WarmEqualsCold
PROPERTY DisabledIsInert
PROPERTY TornNeverWrong
INVARIANT CacheCoherent
