CONSTANTS
  QuoteFix = TRUE
  MaxSteps = 4
INIT Init
NEXT Next
INVARIANT CodedIsIntended
CHECK_DEADLOCK FALSE
