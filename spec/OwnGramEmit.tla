---------------------------- MODULE OwnGramEmit ----------------------------
EXTENDS OwnGram
ASSUME Emit
ASSUME EmitAssign
ASSUME PrintT("UNIVERSE " \o ToString(Cardinality(Exprs)))
=============================================================================
