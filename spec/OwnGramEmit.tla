---------------------------- MODULE OwnGramEmit ----------------------------
EXTENDS OwnGram
ASSUME Emit
ASSUME PrintT("UNIVERSE " \o ToString(Cardinality(Exprs)))
=============================================================================
