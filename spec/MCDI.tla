------------------------------ MODULE MCDI ------------------------------
(* Small universe for exhaustive exploration of DI.tla: 3 symbols, 2 factories each   *)
(* (one with dependencies), 3 invoke-only functions with pass-through parameters.     *)
EXTENDS DI

MCSym == {"s1", "s2", "s3"}
MCSymFacs == [s1 |-> {"s1a", "s1b"}, s2 |-> {"s2a", "s2b"}, s3 |-> {"s3a", "s3b"}]
MCInvokeFns == {"g1", "g2", "g3", "s1a", "s2b", "s3a"}
MCParams == [s1a |-> <<>>, s1b |-> <<>>,
             s2a |-> <<>>, s2b |-> <<"s1">>,
             s3a |-> <<"s1", "s2">>, s3b |-> <<"s2">>,
             g1 |-> <<"s1", "str">>, g2 |-> <<"s1", "s2", "int">>, g3 |-> <<"str">>]
MCExtraVals == {<<>>, <<"str">>, <<"int">>, <<"str", "str">>}
MCTemplates == { [s \in MCSym |-> "none"],
                 [s1 |-> "s1a", s2 |-> "s2b", s3 |-> "none"],
                 [s1 |-> "s1b", s2 |-> "none",  s3 |-> "s3a"],
                 [s1 |-> "none",  s2 |-> "s2a", s3 |-> "s3b"] }
=============================================================================
