CONSTANTS
  Wrapped <- WrappedAsCoded
INIT TInit
NEXT TNext
INVARIANT Mark
POSTCONDITION Post
CHECK_DEADLOCK FALSE
