CONSTANTS
  Wrapped <- WrappedAsCoded
  ParseReports <- ReportsSyntax
INIT TInit
NEXT TNext
INVARIANT Mark
POSTCONDITION Post
CHECK_DEADLOCK FALSE
