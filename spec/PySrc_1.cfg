CONSTANTS
  NOps = 1
