------------------------------- MODULE PySrc -------------------------------
(***************************************************************************)
(* Source model, layer L0: typed expressions of the supported Python       *)
(* subset with, attached to every node BY DEFINITION,                      *)
(*   - its concrete text (Unparse: Python-minimal parentheses from the     *)
(*     precedence table below - this IS the statement "Python groups it    *)
(*     this way"),                                                         *)
(*   - the character interval [b, e) of the text it covers,                *)
(*   - its static type,                                                    *)
(*   - its value under each test environment (bounded ints / bools).       *)
(* tranp is compared against these attributes: node structure (C02),       *)
(* spans (C16), inferred types (C03), behaviour of the emitted C++ (C01),  *)
(* constant folding (C17: the literal-only sub-universe).                  *)
(*                                                                         *)
(* Universe: every well-typed expression with exactly N operators (all     *)
(* association shapes), leaves named in order of appearance.               *)
(***************************************************************************)
EXTENDS Integers, Sequences, FiniteSets, TLC, Json, Bitwise

CONSTANTS NOps          \* number of operators per expression

IntBin == {"+", "-", "*", "%", "|", "^", "&", "<<", ">>"}
CmpOps == {"==", "!=", "<", ">", "<=", ">="}
BoolBin == {"and", "or"}
Unary == {"-", "+", "~"}

\* Python's precedence levels (higher binds tighter)
Prec(e) == CASE e.k = "tern" -> 2
             [] e.k = "bool" -> (IF e.op = "or" THEN 3 ELSE 4)
             [] e.k = "not" -> 5
             [] e.k = "cmp" -> 6
             [] e.k = "bin" -> (CASE e.op = "|" -> 7 [] e.op = "^" -> 8 [] e.op = "&" -> 9
                                  [] e.op \in {"<<", ">>"} -> 10 [] e.op \in {"+", "-"} -> 11 [] OTHER -> 12)
             [] e.k = "un" -> 13
             [] OTHER -> 16

-----------------------------------------------------------------------------
(* typed skeletons with exactly n operators; leaves are placeholders *)
LeafI == [k |-> "leaf", t |-> "int"]
LeafB == [k |-> "leaf", t |-> "bool"]

RECURSIVE SkI(_), SkB(_)
\* exactly n operators: the operands' operator counts sum to n - 1
SkI(n) ==
  IF n = 0 THEN {LeafI}
  ELSE UNION {{[k |-> "bin", t |-> "int", op |-> o, l |-> x, r |-> y] : o \in IntBin, x \in SkI(i), y \in SkI(n - 1 - i)} : i \in 0..(n - 1)}
       \cup {[k |-> "un", t |-> "int", op |-> o, e |-> x] : o \in Unary, x \in SkI(n - 1)}
       \cup UNION {UNION {{[k |-> "tern", t |-> "int", c |-> c, a |-> x, b |-> y] : c \in SkB(i), x \in SkI(j), y \in SkI(n - 1 - i - j)}
                          : j \in 0..(n - 1 - i)} : i \in 0..(n - 1)}
SkB(n) ==
  IF n = 0 THEN {LeafB}
  ELSE UNION {{[k |-> "cmp", t |-> "bool", op |-> o, l |-> x, r |-> y] : o \in CmpOps, x \in SkI(i), y \in SkI(n - 1 - i)} : i \in 0..(n - 1)}
       \cup UNION {{[k |-> "bool", t |-> "bool", op |-> o, l |-> x, r |-> y] : o \in BoolBin, x \in SkB(i), y \in SkB(n - 1 - i)} : i \in 0..(n - 1)}
       \cup {[k |-> "not", t |-> "bool", e |-> x] : x \in SkB(n - 1)}
       \* `not` over an int expression tests it against 0 (truthiness): `not n % 2`
       \cup {[k |-> "not", t |-> "bool", e |-> x] : x \in SkI(n - 1)}
       \cup UNION {UNION {{[k |-> "tern", t |-> "bool", c |-> c, a |-> x, b |-> y] : c \in SkB(i), x \in SkB(j), y \in SkB(n - 1 - i - j)}
                          : j \in 0..(n - 1 - i)} : i \in 0..(n - 1)}

RECURSIVE Size(_)
Size(e) == CASE e.k = "leaf" -> 0
             [] e.k \in {"bin", "cmp", "bool"} -> 1 + Size(e.l) + Size(e.r)
             [] e.k \in {"un", "not"} -> 1 + Size(e.e)
             [] e.k = "tern" -> 1 + Size(e.c) + Size(e.a) + Size(e.b)

\* NOps = 4 stands for ONE family of four-operator expressions, not for all of them: an operand that needs parentheses and
\* whose own two operands need parentheses too - (x) o2 (y) under a unary sign, or on either side of a third operator
NestOps == {"+", "-", "*", "%", "|", "&"}
BinI(o, x, y) == [k |-> "bin", t |-> "int", op |-> o, l |-> x, r |-> y]
Nested4 ==
  LET inner == {BinI(o2, BinI(o3, LeafI, LeafI), BinI(o4, LeafI, LeafI)) : o2 \in NestOps, o3 \in NestOps, o4 \in NestOps} IN
  {BinI(o1, LeafI, x) : o1 \in NestOps, x \in inner} \cup {BinI(o1, x, LeafI) : o1 \in NestOps, x \in inner}
  \cup {[k |-> "un", t |-> "int", op |-> o, e |-> x] : o \in Unary, x \in inner}
Skeletons == IF NOps = 4 THEN Nested4 ELSE {e \in SkI(NOps) \cup SkB(NOps) : Size(e) = NOps}

-----------------------------------------------------------------------------
(* leaves named in order of appearance in the TEXT: ints a b c d, bools p q r s; every second int leaf *)
(* position 3 is the literal 2 so that literals occur                                                  *)
IntNames == <<"a", "b", "c", "d">>
BoolNames == <<"p", "q", "r", "s">>

\* Label returns [e, ni, nb]: leaves replaced by var / literal nodes
RECURSIVE Label(_, _, _)
Label(e, ni, nb) ==
  CASE e.k = "leaf" ->
         (IF e.t = "int"
          THEN [e |-> (IF ni = 2 THEN [k |-> "int", t |-> "int", v |-> 2] ELSE [k |-> "var", t |-> "int", name |-> IntNames[(ni % 4) + 1]]), ni |-> ni + 1, nb |-> nb]
          ELSE [e |-> [k |-> "var", t |-> "bool", name |-> BoolNames[(nb % 4) + 1]], ni |-> ni, nb |-> nb + 1])
    [] e.k \in {"bin", "cmp", "bool"} ->
         (LET L == Label(e.l, ni, nb)  R == Label(e.r, L.ni, L.nb)
          IN [e |-> [e EXCEPT !.l = L.e, !.r = R.e], ni |-> R.ni, nb |-> R.nb])
    [] e.k \in {"un", "not"} ->
         (LET X == Label(e.e, ni, nb) IN [e |-> [e EXCEPT !.e = X.e], ni |-> X.ni, nb |-> X.nb])
    [] e.k = "tern" ->
         \* text order of `a if c else b` is a, c, b
         (LET A == Label(e.a, ni, nb)  C == Label(e.c, A.ni, A.nb)  B == Label(e.b, C.ni, C.nb)
          IN [e |-> [e EXCEPT !.a = A.e, !.c = C.e, !.b = B.e], ni |-> B.ni, nb |-> B.nb])

Exprs == {Label(s, 0, 0).e : s \in Skeletons}

-----------------------------------------------------------------------------
(* Unparse with spans: returns the node annotated with s (its own text, parentheses excluded), and, for *)
(* every node, b / e = character interval inside the text of the ROOT expression                          *)
RECURSIVE Shift(_, _)
Shift(n, d) ==
  LET m == [n EXCEPT !.b = @ + d, !.e = @ + d] IN
  CASE n.k \in {"bin", "cmp", "bool"} -> [m EXCEPT !.l = Shift(n.l, d), !.r = Shift(n.r, d)]
    [] n.k \in {"un", "not"} -> [m EXCEPT !.e1 = Shift(n.e1, d)]
    [] n.k = "tern" -> [m EXCEPT !.c = Shift(n.c, d), !.a = Shift(n.a, d), !.b1 = Shift(n.b1, d)]
    [] OTHER -> m

\* text of a child in a context that requires `need`: parenthesised iff the child binds looser
Wrap(ch, paren) == IF paren THEN [s |-> "(" \o ch.s \o ")", off |-> 1] ELSE [s |-> ch.s, off |-> 0]

RECURSIVE Unp(_)
Unp(x) ==
  CASE x.k = "var" -> [k |-> "var", t |-> x.t, name |-> x.name, s |-> x.name, b |-> 0, e |-> Len(x.name)]
    [] x.k = "int" -> [k |-> "int", t |-> "int", v |-> x.v, s |-> ToString(x.v), b |-> 0, e |-> Len(ToString(x.v))]
    [] x.k \in {"bin", "bool"} ->
         (LET P == Prec(x)
              L == Unp(x.l)  R == Unp(x.r)
              wl == Wrap(L, Prec(x.l) < P)
              wr == Wrap(R, Prec(x.r) <= P)
              txt == wl.s \o " " \o x.op \o " " \o wr.s
              roff == Len(wl.s) + Len(x.op) + 2 + wr.off
          IN [k |-> x.k, t |-> x.t, op |-> x.op, s |-> txt, b |-> 0, e |-> Len(txt), l |-> Shift(L, wl.off), r |-> Shift(R, roff)])
    [] x.k = "cmp" ->
         \* an operand that is itself a comparison is always parenthesised: no chain is created by accident
         (LET L == Unp(x.l)  R == Unp(x.r)
              wl == Wrap(L, Prec(x.l) <= 6)
              wr == Wrap(R, Prec(x.r) <= 6)
              txt == wl.s \o " " \o x.op \o " " \o wr.s
              roff == Len(wl.s) + Len(x.op) + 2 + wr.off
          IN [k |-> "cmp", t |-> "bool", op |-> x.op, s |-> txt, b |-> 0, e |-> Len(txt), l |-> Shift(L, wl.off), r |-> Shift(R, roff)])
    [] x.k = "un" ->
         (LET X == Unp(x.e)
              w == Wrap(X, Prec(x.e) < 13)
              txt == x.op \o w.s
          IN [k |-> "un", t |-> "int", op |-> x.op, s |-> txt, b |-> 0, e |-> Len(txt), e1 |-> Shift(X, Len(x.op) + w.off)])
    [] x.k = "not" ->
         (LET X == Unp(x.e)
              w == Wrap(X, Prec(x.e) < 5)
              txt == "not " \o w.s
          IN [k |-> "not", t |-> "bool", s |-> txt, b |-> 0, e |-> Len(txt), e1 |-> Shift(X, 4 + w.off)])
    [] x.k = "tern" ->
         (LET A == Unp(x.a)  C == Unp(x.c)  B == Unp(x.b)
              wa == Wrap(A, Prec(x.a) <= 2)
              wc == Wrap(C, Prec(x.c) <= 2)
              wb == Wrap(B, Prec(x.b) < 2)
              txt == wa.s \o " if " \o wc.s \o " else " \o wb.s
              coff == Len(wa.s) + 4 + wc.off
              boff == Len(wa.s) + 4 + Len(wc.s) + 6 + wb.off
          IN [k |-> "tern", t |-> x.t, s |-> txt, b |-> 0, e |-> Len(txt), a |-> Shift(A, wa.off), c |-> Shift(C, coff), b1 |-> Shift(B, boff)])

-----------------------------------------------------------------------------
(* Eval: bounded ints (|v| < 2^20), bools; Undef outside the agreement subset of Python and C++ *)
Lim == 1048576
Envs == << [a |-> 5, b |-> 3, c |-> 1, d |-> 2, p |-> TRUE, q |-> FALSE, r |-> TRUE, s |-> FALSE],
           [a |-> 6, b |-> 2, c |-> 7, d |-> 0, p |-> FALSE, q |-> TRUE, r |-> TRUE, s |-> TRUE],
           [a |-> 0, b |-> 1, c |-> 2, d |-> 9, p |-> TRUE, q |-> TRUE, r |-> FALSE, s |-> FALSE],
           [a |-> 12, b |-> 4, c |-> 3, d |-> 5, p |-> FALSE, q |-> FALSE, r |-> FALSE, s |-> TRUE] >>

Undef == [ok |-> FALSE, v |-> 0]
Val(v) == [ok |-> TRUE, v |-> v]
\* two's complement bitwise operations through an offset that makes both operands non-negative
Off == 2097152      \* 2^21: a multiple of every bit position used
BitAnd(x, y) == ((x + Off) & (y + Off)) - (IF x < 0 /\ y < 0 THEN Off ELSE IF x < 0 \/ y < 0 THEN 0 ELSE Off)
\* (sign handling: the offset adds bit 21 to non-negative numbers and clears it for negatives in [-2^21, 0))
RECURSIVE Eval(_, _)
Eval(x, env) ==
  CASE x.k = "var" -> Val(env[x.name])
    [] x.k = "int" -> Val(x.v)
    [] x.k = "bin" ->
         (LET L == Eval(x.l, env)  R == Eval(x.r, env) IN
          IF ~L.ok \/ ~R.ok THEN Undef
          ELSE LET a == L.v  b == R.v
                   res == CASE x.op = "+" -> Val(a + b)
                            [] x.op = "-" -> Val(a - b)
                            [] x.op = "*" -> Val(a * b)
                            [] x.op = "%" -> (IF a >= 0 /\ b > 0 THEN Val(a % b) ELSE Undef)
                            [] x.op = "<<" -> (IF b >= 0 /\ b <= 8 /\ a >= 0 THEN Val(a * (2 ^ b)) ELSE Undef)
                            [] x.op = ">>" -> (IF b >= 0 /\ b <= 8 /\ a >= 0 THEN Val(a \div (2 ^ b)) ELSE Undef)
                            [] x.op = "&" -> (IF a >= 0 /\ b >= 0 THEN Val(a & b) ELSE Undef)
                            [] x.op = "|" -> (IF a >= 0 /\ b >= 0 THEN Val(a | b) ELSE Undef)
                            [] x.op = "^" -> (IF a >= 0 /\ b >= 0 THEN Val(a ^^ b) ELSE Undef)
               IN IF res.ok /\ (res.v >= Lim \/ res.v <= -Lim) THEN Undef ELSE res)
    [] x.k = "un" ->
         (LET X == Eval(x.e, env) IN
          IF ~X.ok THEN Undef
          ELSE CASE x.op = "-" -> Val(-X.v) [] x.op = "+" -> Val(X.v) [] x.op = "~" -> Val(-X.v - 1))
    [] x.k = "cmp" ->
         (LET L == Eval(x.l, env)  R == Eval(x.r, env) IN
          IF ~L.ok \/ ~R.ok THEN Undef
          ELSE CASE x.op = "==" -> Val(L.v = R.v) [] x.op = "!=" -> Val(L.v # R.v) [] x.op = "<" -> Val(L.v < R.v)
                 [] x.op = ">" -> Val(L.v > R.v) [] x.op = "<=" -> Val(L.v <= R.v) [] x.op = ">=" -> Val(L.v >= R.v))
    [] x.k = "bool" ->
         (LET L == Eval(x.l, env)  R == Eval(x.r, env) IN
          IF ~L.ok \/ ~R.ok THEN Undef ELSE IF x.op = "and" THEN Val(L.v /\ R.v) ELSE Val(L.v \/ R.v))
    [] x.k = "not" -> (LET X == Eval(x.e, env) IN IF ~X.ok THEN Undef ELSE IF x.e.t = "int" THEN Val(X.v = 0) ELSE Val(~X.v))
    [] x.k = "tern" ->
         (LET C == Eval(x.c, env) IN
          IF ~C.ok THEN Undef
          ELSE LET A == Eval(x.a, env)  B == Eval(x.b, env) IN
               \* both branches must be defined: C++ evaluates only one, Python too, but the model stays simple
               IF ~A.ok \/ ~B.ok THEN Undef ELSE IF C.v THEN A ELSE B)

-----------------------------------------------------------------------------
(* model-level facts checked by TLC over the whole universe *)
\* every node's interval lies inside its parent's, and slicing the root text at a leaf's interval gives the leaf
RECURSIVE Inside(_, _, _)
Inside(n, pb, pe) ==
  /\ pb <= n.b /\ n.e <= pe /\ n.b < n.e /\ n.e - n.b = Len(n.s)
  /\ CASE n.k \in {"bin", "cmp", "bool"} -> Inside(n.l, n.b, n.e) /\ Inside(n.r, n.b, n.e) /\ n.l.e <= n.r.b
       [] n.k \in {"un", "not"} -> Inside(n.e1, n.b, n.e)
       [] n.k = "tern" -> Inside(n.a, n.b, n.e) /\ Inside(n.c, n.b, n.e) /\ Inside(n.b1, n.b, n.e) /\ n.a.e <= n.c.b /\ n.c.e <= n.b1.b
       [] OTHER -> TRUE
ChildInsideParent == \A x \in Exprs : LET u == Unp(x) IN Inside(u, 0, Len(u.s))
\* types: arithmetic is int, tests are bool - by construction; no node is untyped
Total == \A x \in Exprs : x.t \in {"int", "bool"}

\* error quotation of a node: the source line with tabs shown as one blank, and under it carets over the columns
\* [begin, end) of the node (C16); Prefix is what precedes the expression on its line ("\treturn ")
Prefix == "\treturn "
RECURSIVE Spaces(_), Carets(_)
Spaces(n) == IF n <= 0 THEN "" ELSE " " \o Spaces(n - 1)
Carets(n) == IF n <= 0 THEN "" ELSE "^" \o Carets(n - 1)
Mark(b, e) == Spaces(Len(Prefix) + b) \o Carets(IF e - b < 1 THEN 1 ELSE e - b)
\* the general rule, for a node with span (bl, bc)..(el, ec) (0-based columns) whose first line has `linelen` characters:
\* the FIRST line is quoted; a node on one line is marked over [bc, ec), a node that continues on later lines from bc
\* to the end of the quoted line; at least one caret
MarkRange(bl, bc, el, ec, linelen) ==
  LET hi == IF bl = el THEN ec ELSE linelen IN <<bc, IF hi - bc < 1 THEN bc + 1 ELSE hi>>
\* the mark never leaves the quoted line when the span lies inside the text, and always shows at least one caret
MarkInsideLine == \A bc \in 0..6, ec \in 0..6, linelen \in 1..6, same \in BOOLEAN :
   LET r == MarkRange(0, bc, IF same THEN 0 ELSE 1, ec, linelen) IN
   r[2] > r[1] /\ ((bc < linelen /\ (~same \/ (bc <= ec /\ ec <= linelen))) => r[2] <= linelen)
EmitMarkTable == \A bc \in 0..6, ec \in 0..6, linelen \in 1..6, same \in BOOLEAN :
   PrintT("MARK " \o ToJson([bc |-> bc, ec |-> ec, linelen |-> linelen, same |-> same, range |-> MarkRange(0, bc, IF same THEN 0 ELSE 1, ec, linelen)]))
\* the own parser's quotation of a rejected text (ErrorCollector.summary): "(N) >>> <line>" and, under it, the
\* carets shifted by the width of that prefix - which grows with the number of digits of N
RECURSIVE Fill(_, _)
Fill(ch, n) == IF n <= 0 THEN "" ELSE ch \o Fill(ch, n - 1)
RECURSIVE Width(_)
Width(n) == IF n < 10 THEN 1 ELSE 1 + Width(n \div 10)
OwnQuotation(n, line, bc, ec) ==
  << "(" \o ToString(n) \o ") >>> " \o line,
     Fill(" ", Width(n) + 7 + bc) \o Fill("^", IF ec - bc < 1 THEN 1 ELSE ec - bc) >>
\* the carets stand under columns bc..ec of the quoted line, whatever the line number
CaretsUnderToken == \A n \in {1, 9, 10, 99, 100, 1000}, bc \in 0..3, w \in 0..2 :
   LET q == OwnQuotation(n, "abcdef", bc, bc + w)
       prefix == "(" \o ToString(n) \o ") >>> " IN
   q[2] = Fill(" ", Width(n) + 7) \o Fill(" ", bc) \o Fill("^", IF w < 1 THEN 1 ELSE w) /\ q[1] = prefix \o "abcdef"
EmitOwnTable == \A n \in {1, 2, 9, 10, 11, 99, 100, 101, 1000}, bc \in {0, 1, 4, 6}, w \in 0..2 :
   PrintT("OWNQ " \o ToJson([n |-> n, bc |-> bc, ec |-> bc + w, q |-> OwnQuotation(n, "b = = 22", bc, bc + w)]))
RECURSIVE Annot(_)
Annot(n) ==
  LET m == [n EXCEPT !.s = n.s] @@ [q |-> Mark(n.b, n.e)] IN
  CASE n.k \in {"bin", "cmp", "bool"} -> [m EXCEPT !.l = Annot(n.l), !.r = Annot(n.r)]
    [] n.k \in {"un", "not"} -> [m EXCEPT !.e1 = Annot(n.e1)]
    [] n.k = "tern" -> [m EXCEPT !.c = Annot(n.c), !.a = Annot(n.a), !.b1 = Annot(n.b1)]
    [] OTHER -> m

Case(x) == LET u == Annot(Unp(x)) IN
           [text |-> u.s, type |-> x.t, ast |-> u, line |-> " return " \o u.s,
            vals |-> [i \in 1..Len(Envs) |-> LET r == Eval(x, Envs[i]) IN [ok |-> r.ok, v |-> IF ~r.ok THEN "undef" ELSE IF x.t = "bool" THEN (IF r.v THEN "True" ELSE "False") ELSE ToString(r.v)]]]
Emit == \A x \in Exprs : PrintT("CASE " \o ToJson(Case(x)))
EnvsJson == PrintT("ENVS " \o ToJson(Envs))
=============================================================================
