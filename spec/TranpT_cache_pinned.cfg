CONSTANTS
  Mods <- PairMods
  Imports <- PairImports
  Targets <- PairTargets
  Variants <- V124
  BodyOf <- Body124
  MaxOps = 6
  MaxT = 2
  AstHash = FALSE
  MaxTorn = 1
  TransitiveKey = TRUE
  DeepHeader = FALSE
  StoreGated = TRUE
  WithCache = TRUE
  WithOutputs = FALSE
INIT Init
NEXT Next
VIEW View
CONSTRAINT Bounded
INVARIANT TypeOK
CHECK_DEADLOCK FALSE
PROPERTY WarmEqualsCold
PROPERTY DisabledIsInert
PROPERTY TornNeverWrong
INVARIANT CacheCoherent
