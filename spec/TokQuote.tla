----------------------------- MODULE TokQuote -----------------------------
(***************************************************************************)
(* C13, string literals: where a quoted token ends.                        *)
(*                                                                         *)
(* The lexer as a transition system, shaped like Lexer.parse_quote         *)
(* (tokenizer.py): the opening pair is the first of the quote table that   *)
(* matches (prefix "", "r"; quotes """ ' "), the closing quote is searched *)
(* with find(), a candidate is escaped when the body before it ends in an  *)
(* odd number of backslashes, and the search goes on behind an escaped     *)
(* candidate.  Against it Python's rule as a left-to-right scanner: a      *)
(* backslash takes the next character with it (raw strings too), the first *)
(* closing quote not taken that way ends the literal.                      *)
(*                                                                         *)
(* Texts:  s = <prefix><quote><body><quote><tail>  for every body over     *)
(* {x, \, ', ", #} up to MaxBody characters; a body may close the literal     *)
(* early, the rest is lexed on (names, further literals).  Supported: the   *)
(* texts Python lexes without an error token.                              *)
(***************************************************************************)
EXTENDS Integers, Sequences, FiniteSets, TLC, Json

CONSTANTS MaxBody,
          EscapedSkip    \* how far the search moves behind an escaped candidate: "one" character (sound), or the
                         \* length of the "close" (as tranp was coded before the repair; wrong for """)

BS == "\\"
SQ == "'"
DQ == "\""
HASH == "#"
BodyChars == {"x", BS, SQ, DQ, HASH}
NameChars == {"s", "c", "x", "r"}
Blank == " "
EOL == "\n"
T3 == <<DQ, DQ, DQ>>

\* tranp's quote table in its order: for prefix in "", "r": for quote in """, ', "
Opens == << T3, <<SQ>>, <<DQ>>, <<"r">> \o T3, <<"r", SQ>>, <<"r", DQ>> >>
CloseOf(o) == IF Len(o) >= 3 THEN T3 ELSE <<o[Len(o)]>>

VARIABLES text, pos, toks
vars == <<text, pos, toks>>

RECURSIVE Str(_)
Str(s) == IF s = <<>> THEN "" ELSE Head(s) \o Str(Tail(s))
Sub(s, i, n) == SubSeq(s, i, i + n - 1)
StartsAt(t, i, w) == i + Len(w) - 1 <= Len(t) /\ Sub(t, i, Len(w)) = w

RECURSIVE BodiesOf(_)
BodiesOf(n) == IF n = 0 THEN {<<>>} ELSE LET R == BodiesOf(n - 1) IN R \cup {Append(r, c) : r \in {x \in R : Len(x) = n - 1}, c \in BodyChars}
\* nothing, an operand, the end of the file, a comment with a quote in it (with and without its line break)
Tails == {<<EOL>>, <<Blank, "+", Blank, "c", EOL>>, <<>>, <<Blank, HASH, SQ, "x", EOL>>, <<HASH, DQ>>}
Texts == {<<"s", Blank, "=", Blank>> \o Opens[k] \o b \o CloseOf(Opens[k]) \o tl :
            k \in 1..Len(Opens), b \in BodiesOf(MaxBody), tl \in Tails}

Init == text \in Texts /\ pos = 1 /\ toks = <<>>

-----------------------------------------------------------------------------
At(i) == IF i <= Len(text) THEN text[i] ELSE ""
RECURSIVE SpanWhile(_, _)
SpanWhile(i, S) == IF i <= Len(text) /\ text[i] \in S THEN SpanWhile(i + 1, S) ELSE i
\* str.find: first position >= i where w starts, 0 if none
RECURSIVE Find(_, _)
Find(w, i) == IF i + Len(w) - 1 > Len(text) THEN 0 ELSE IF Sub(text, i, Len(w)) = w THEN i ELSE Find(w, i + 1)
\* number of backslashes directly before position i, not reaching below lo
RECURSIVE Trailing(_, _)
Trailing(i, lo) == IF i - 1 >= lo /\ text[i - 1] = BS THEN 1 + Trailing(i - 1, lo) ELSE 0

OpenAt(i) == LET ks == {k \in 1..Len(Opens) : StartsAt(text, i, Opens[k])} IN
             IF ks = {} THEN 0 ELSE CHOOSE k \in ks : \A j \in ks : k <= j

\* parse_quote's loop: (search position, end so far) -> end of the token
RECURSIVE CloseEnd(_, _, _, _)
CloseEnd(close, bodyStart, search, end) ==
  IF search > Len(text) THEN end
  ELSE LET idx == Find(close, search) IN
    IF idx = 0 THEN end
    ELSE LET escaped == Trailing(idx, bodyStart) % 2 = 1
             e == idx + Len(close) IN
         IF ~escaped THEN e
         ELSE CloseEnd(close, bodyStart, IF EscapedSkip = "one" THEN idx + 1 ELSE e, e)

LexQuote ==
  /\ OpenAt(pos) # 0
  /\ LET o == Opens[OpenAt(pos)]
         e == CloseEnd(CloseOf(o), pos + Len(o), pos + Len(o), pos + Len(o)) IN
       /\ pos' = e
       /\ toks' = Append(toks, [c |-> "string", s |-> Str(Sub(text, pos, e - pos))])
  /\ UNCHANGED text

LexSpace ==
  /\ At(pos) \in {Blank, EOL}
  /\ LET e == SpanWhile(pos, {Blank, EOL}) IN
       /\ pos' = e
       /\ toks' = IF EOL \in {text[i] : i \in pos..(e - 1)} THEN Append(toks, [c |-> "newline", s |-> ""]) ELSE toks
  /\ UNCHANGED text

\* a comment runs up to the line break (the comment domain is asked before the symbol and quote domains)
LexComment ==
  /\ At(pos) = HASH
  /\ pos' = SpanWhile(pos, BodyChars \cup NameChars \cup {Blank, "=", "+"})
  /\ UNCHANGED <<text, toks>>

LexSymbol ==
  /\ At(pos) \in {"=", "+"}
  /\ pos' = pos + 1 /\ toks' = Append(toks, [c |-> "op", s |-> At(pos)]) /\ UNCHANGED text

\* the quote domain is asked before the identifier domain: r" opens a literal, any other r is a name
LexName ==
  /\ OpenAt(pos) = 0 /\ At(pos) \in NameChars
  /\ LET e == SpanWhile(pos, NameChars) IN
       pos' = e /\ toks' = Append(toks, [c |-> "name", s |-> Str(Sub(text, pos, e - pos))])
  /\ UNCHANGED text

\* a backslash outside a literal: tranp's quote table has \' and \" as opening quotes (for its grammar files);
\* Python has no such token - such texts are not supported, the model stops there
LexStray ==
  /\ At(pos) = BS /\ pos' = Len(text) + 2 /\ toks' = Append(toks, [c |-> "error", s |-> BS]) /\ UNCHANGED text

LexEOF ==
  /\ pos = Len(text) + 1
  /\ pos' = pos + 1
  /\ toks' = IF toks # <<>> /\ toks[Len(toks)].c = "newline" THEN toks ELSE Append(toks, [c |-> "newline", s |-> ""])
  /\ UNCHANGED text

Next == LexSpace \/ LexComment \/ LexSymbol \/ LexQuote \/ LexName \/ LexStray \/ LexEOF
Spec == Init /\ [][Next]_vars
Done == pos = Len(text) + 2

-----------------------------------------------------------------------------
(* Python's rule *)
RECURSIVE SpanT(_, _, _)
SpanT(t, i, S) == IF i <= Len(t) /\ t[i] \in S THEN SpanT(t, i + 1, S) ELSE i
\* end of the literal whose body starts at i: left to right, a backslash takes the next character; 0 = unterminated
RECURSIVE ScanBody(_, _, _)
ScanBody(t, i, close) ==
  IF i > Len(t) THEN 0
  ELSE IF t[i] = EOL /\ Len(close) = 1 THEN 0
  ELSE IF StartsAt(t, i, close) THEN i + Len(close)
  ELSE IF t[i] = BS THEN (IF i + 1 > Len(t) THEN 0 ELSE ScanBody(t, i + 2, close))
  ELSE ScanBody(t, i + 1, close)
PyOpenAt(t, i) == LET ks == {k \in 1..Len(Opens) : StartsAt(t, i, Opens[k])} IN
                  IF ks = {} THEN 0 ELSE CHOOSE k \in ks : \A j \in ks : Len(Opens[k]) >= Len(Opens[j])
RECURSIVE Ref(_, _)
Ref(t, i) ==
  IF i > Len(t) THEN (IF t[Len(t)] = EOL THEN <<>> ELSE <<[c |-> "newline", s |-> ""]>>)
  ELSE LET ch == t[i] IN
    IF ch = Blank THEN Ref(t, i + 1)
    ELSE IF ch = HASH THEN Ref(t, SpanT(t, i, BodyChars \cup NameChars \cup {Blank, "=", "+"}))
    ELSE IF ch = EOL THEN <<[c |-> "newline", s |-> ""]>> \o Ref(t, i + 1)
    ELSE IF ch \in {"=", "+"} THEN <<[c |-> "op", s |-> ch]>> \o Ref(t, i + 1)
    ELSE IF PyOpenAt(t, i) # 0 THEN
      LET o == Opens[PyOpenAt(t, i)]
          e == ScanBody(t, i + Len(o), CloseOf(o)) IN
      IF e = 0 THEN <<[c |-> "error", s |-> Str(o)]>> ELSE <<[c |-> "string", s |-> Str(Sub(t, i, e - i))]>> \o Ref(t, e)
    ELSE IF ch \in NameChars THEN
      \* a name runs on over name characters; a quote directly after it starts a literal of its own
      LET e == SpanT(t, i, NameChars) IN <<[c |-> "name", s |-> Str(Sub(t, i, e - i))]>> \o Ref(t, e)
    ELSE <<[c |-> "error", s |-> ch]>>

\* "xr'..'" is NAME xr, STRING for Python too; but a name that ends in r before a quote is lexed by tranp's
\* identifier domain in one piece as well - no special case needed.
\* Python's third quote, ''', is not in tranp's quote table: outside C13's subset (a named deviation)
Contains(t, w) == \E i \in 1..(Len(t) - Len(w) + 1) : Sub(t, i, Len(w)) = w
Supported(t) == (\A k \in 1..Len(Ref(t, 1)) : Ref(t, 1)[k].c # "error") /\ ~Contains(t, <<SQ, SQ, SQ>>)

QuoteAgrees == Done /\ Supported(text) => toks = Ref(text, 1)
Progress == [][pos' > pos]_vars
TypeOK == pos \in 1..(Len(text) + 2)

Case == [text |-> Str(text), toks |-> toks, ref |-> Ref(text, 1), supported |-> Supported(text)]
EmitCase == Done => PrintT("CASE " \o ToJson(Case))
=============================================================================
