----------------------------- MODULE SymExport -----------------------------
(***************************************************************************)
(* Export and re-import of a module's symbols                              *)
(* (rogw/tranp/semantics/reflection/db.py: SymbolDB.to_json / _order_keys /*)
(* import_json; serializer.py: ReflectionSerializer.serialize /            *)
(* _deserialize_attrs).                                                    *)
(*                                                                         *)
(* Part 1 - attribute trees.  A symbol's type arguments form a forest      *)
(* (list[int] -> [int], dict[str, list[C]] -> [str, [C]] ...).  serialize  *)
(* flattens it to {index path -> type key} in depth-first pre-order;       *)
(* _deserialize_attrs sorts the paths by depth (stable) and rebuilds level *)
(* by level, taking runs of consecutive paths with the same parent.        *)
(* Law: Rebuild(Flatten(f)) = f.                                           *)
(*                                                                         *)
(* Part 2 - export order.  _order_keys walks the module's symbols in       *)
(* insertion order; for each it first lists (post-order over the type      *)
(* arguments) the keys of the module's own classes its type arguments and  *)
(* its own type refer to, then the symbol's key.  import_json creates the  *)
(* rows in that order, looking up `origin`, `via` and every attribute type *)
(* in the table: a key of the same module must already be there.           *)
(* Invariant: ImportNeverDangling.                                         *)
(***************************************************************************)
EXTENDS Integers, Sequences, FiniteSets, TLC, Json

CONSTANTS MaxDepth, MaxWidth, ViaFree      \* ViaFree: explore arbitrary `via` (design exploration) or via = origin

Tys == {"A", "B"}

RECURSIVE Trees(_)
SeqsUpTo(S, n) == UNION {[1..k -> S] : k \in 0..n}
Trees(d) == IF d = 0 THEN {[ty |-> t, kids |-> <<>>] : t \in Tys}
            ELSE {[ty |-> t, kids |-> ks] : t \in Tys, ks \in SeqsUpTo(Trees(d - 1), MaxWidth)}
Forests == SeqsUpTo(Trees(MaxDepth), MaxWidth)

\* serialize: depth-first pre-order list of <<path, ty>>
RECURSIVE FlatTree(_, _), FlatForest(_, _, _)
FlatForest(f, prefix, i) == IF i > Len(f) THEN <<>> ELSE FlatTree(f[i], Append(prefix, i - 1)) \o FlatForest(f, prefix, i + 1)
FlatTree(t, path) == <<[path |-> path, ty |-> t.ty]>> \o FlatForest(t.kids, path, 1)
Flatten(f) == FlatForest(f, <<>>, 1)

\* _deserialize_attrs as coded
\* stable sort by depth: concatenate the sub-sequences of each depth in their original order
MaxLen(es) == IF es = <<>> THEN 0 ELSE LET S == {Len(es[i].path) : i \in DOMAIN es} IN CHOOSE m \in S : \A x \in S : x <= m
RECURSIVE ByDepth(_, _, _)
ByDepth(es, d, maxd) == IF d > maxd THEN <<>> ELSE SelectSeq(es, LAMBDA e : Len(e.path) = d) \o ByDepth(es, d + 1, maxd)
Sorted(es) == ByDepth(es, 1, MaxLen(es))
Own(p) == SubSeq(p, 1, Len(p) - 1)
\* extend the node addressed by index path `own` (0-based indices) with new leaf children
RECURSIVE Extend(_, _, _)
Extend(f, own, new) ==
  LET i == own[1] + 1 IN
  IF Len(own) = 1 THEN [f EXCEPT ![i].kids = @ \o new]
  ELSE [f EXCEPT ![i].kids = Extend(@, Tail(own), new)]
RECURSIVE RunEnd(_, _, _)
RunEnd(es, i, own) == IF i <= Len(es) /\ Own(es[i].path) = own THEN RunEnd(es, i + 1, own) ELSE i
RECURSIVE Build(_, _, _)
Build(es, i, acc) ==
  IF i > Len(es) THEN acc
  ELSE LET own == Own(es[i].path)
           end == RunEnd(es, i + 1, own)
           new == [k \in 1..(end - i) |-> [ty |-> es[i + k - 1].ty, kids |-> <<>>]]
       IN Build(es, end, IF own = <<>> THEN acc \o new ELSE Extend(acc, own, new))
Rebuild(es) == Build(Sorted(es), 1, <<>>)

RebuildFlatten == \A f \in Forests : Rebuild(Flatten(f)) = f

-----------------------------------------------------------------------------
(* Part 2: a small module M with classes and variables *)
ClassKeys == {"M#C1", "M#C2"}
ExtKeys == {"X#int", "X#list"}
VarKeys == {"M#v1", "M#v2"}
InM(k) == k \in ClassKeys \cup VarKeys

\* a row: [key, types (the class key its type denotes), attrs (forest over class keys), via]
AttrTrees == {[ty |-> t, kids |-> ks] : t \in ClassKeys \cup ExtKeys, ks \in {<<>>} \cup {<<[ty |-> u, kids |-> <<>>]>> : u \in ClassKeys \cup ExtKeys}}
VarRows(k) == UNION {{[key |-> k, kind |-> "var", types |-> t, attrs |-> a, via |-> v] :
                        a \in (IF ViaFree THEN {<<>>} ELSE {<<>>} \cup {<<x>> : x \in AttrTrees}),
                        v \in (IF ViaFree THEN ClassKeys \cup ExtKeys ELSE {t})} : t \in ClassKeys \cup ExtKeys}
ClassRow(k) == [key |-> k, kind |-> "class", types |-> k, attrs |-> <<>>, via |-> k]

\* tables: insertion orders of the two class rows and two variable rows
Perms(S) == {p \in [1..Cardinality(S) -> S] : \A i, j \in 1..Cardinality(S) : i # j => p[i] # p[j]}
Tables == {[i \in 1..4 |-> IF p[i] \in ClassKeys THEN ClassRow(p[i]) ELSE (IF p[i] = "M#v1" THEN r1 ELSE r2)] :
             p \in Perms(ClassKeys \cup VarKeys), r1 \in VarRows("M#v1"), r2 \in VarRows("M#v2")}

\* _order_keys_recursive: post-order over the type arguments, then the symbol's own type, own-module classes only
RECURSIVE RecTree(_, _), RecForest(_, _, _)
AppendNew(orders, k) == IF InM(k) /\ \A i \in DOMAIN orders : orders[i] # k THEN Append(orders, k) ELSE orders
RecForest(f, i, orders) == IF i > Len(f) THEN orders ELSE RecForest(f, i + 1, RecTree(f[i], orders))
RecTree(t, orders) == AppendNew(RecForest(t.kids, 1, orders), t.ty)
RecRow(row, orders) == AppendNew(RecForest(row.attrs, 1, orders), row.types)
RECURSIVE OrderFrom(_, _, _)
OrderFrom(tab, i, orders) ==
  IF i > Len(tab) THEN orders
  ELSE LET o1 == RecRow(tab[i], orders)
           o2 == IF \A j \in DOMAIN o1 : o1[j] # tab[i].key THEN Append(o1, tab[i].key) ELSE o1
       IN OrderFrom(tab, i + 1, o2)
OrderKeys(tab) == OrderFrom(tab, 1, <<>>)

RECURSIVE TysOf(_)
TysOfForest(f) == UNION {TysOf(f[i]) : i \in DOMAIN f}
TysOf(t) == {t.ty} \cup TysOfForest(t.kids)
RowOf(tab, k) == tab[CHOOSE i \in DOMAIN tab : tab[i].key = k]
Deps(row) == IF row.kind = "class" THEN TysOfForest(row.attrs) ELSE {row.types, row.via} \cup TysOfForest(row.attrs)

\* import never refers to a key of the module that is not yet present; every key is exported exactly once
ImportNeverDangling == \A tab \in Tables : LET o == OrderKeys(tab) IN
   /\ {o[i] : i \in DOMAIN o} = {tab[i].key : i \in DOMAIN tab} /\ Len(o) = Len(tab)
   /\ \A i \in DOMAIN o : \A d \in Deps(RowOf(tab, o[i])) : InM(d) => \E j \in 1..(i - 1) : o[j] = d \/ d = o[i]

\* tables realised as programs by the replay: every insertion order of the two generic classes and two functions whose
\* parameter type is the row's type with its arguments (C1[C2], list[C2[int]], ...); int takes no arguments, list takes one
WellFormedTree(t) == /\ (t.ty = "X#int" => t.kids = <<>>) /\ (t.ty = "X#list" => Len(t.kids) = 1)
                     /\ \A i \in DOMAIN t.kids : (t.kids[i].ty = "X#int" => t.kids[i].kids = <<>>) /\ (t.kids[i].ty = "X#list" => FALSE)
WellFormedRow(r) == /\ (r.types = "X#int" => r.attrs = <<>>) /\ (r.types = "X#list" => Len(r.attrs) = 1)
                    /\ \A i \in DOMAIN r.attrs : WellFormedTree(r.attrs[i])
MentionsClass(r) == r.types \in ClassKeys \/ \E i \in DOMAIN r.attrs : TysOf(r.attrs[i]) \cap ClassKeys # {}
ReplayTables == {[i \in 1..4 |-> IF p[i] \in ClassKeys THEN ClassRow(p[i]) ELSE (IF p[i] = "M#v1" THEN r1 ELSE r2)] :
                   p \in Perms(ClassKeys \cup VarKeys),
                   r1 \in {r \in VarRows("M#v1") : WellFormedRow(r) /\ MentionsClass(r)},
                   r2 \in {[key |-> "M#v2", kind |-> "var", types |-> "M#C2", attrs |-> <<[ty |-> "M#C1", kids |-> <<>>]>>, via |-> "M#C2"]}}
EmitTables == \A tab \in ReplayTables : PrintT("TABLE " \o ToJson([rows |-> tab, order |-> OrderKeys(tab)]))

\* ---- wide sibling groups: index paths whose last element has two digits sort differently as numbers, as strings and by
\* length; a group of eleven or twelve siblings below the top level, followed at the same depth by another group
LeafT(t) == [ty |-> t, kids |-> <<>>]
WideForests == { << [ty |-> "A", kids |-> [i \in 1..n |-> LeafT(IF i % 2 = 0 THEN "A" ELSE "B")]], [ty |-> "B", kids |-> <<LeafT("A")>>] >> : n \in {10, 11, 12} }
                \cup { << [ty |-> "B", kids |-> <<LeafT("B")>>], [ty |-> "A", kids |-> [i \in 1..11 |-> LeafT("A")]], [ty |-> "A", kids |-> <<LeafT("B"), LeafT("A")>>] >> }
\* ... and twelve siblings of which only the second and one of the last two have arguments of their own: at the next
\* depth the children of sibling 1 are directly followed by those of sibling 10 (or 11), whose index begins with "1"
SparseForests == { [i \in 1..12 |-> IF i = 2 THEN [ty |-> "A", kids |-> <<LeafT("B")>>]
                                    ELSE IF i = k THEN [ty |-> "B", kids |-> <<LeafT("A"), LeafT("B")>>] ELSE LeafT("A")] : k \in {11, 12} }
\* ... and two forests that flatten to one sequence of types although their trees differ (a member more in the inner
\* group against a sibling more outside): only the index paths tell them apart
ColliderForests == { << [ty |-> "A", kids |-> <<LeafT("A"), LeafT("B")>>], LeafT("A") >>,
                     << [ty |-> "A", kids |-> <<LeafT("A"), LeafT("B"), LeafT("A")>>] >> }
CollidersCollide == \A f, g \in ColliderForests : [i \in DOMAIN Flatten(f) |-> Flatten(f)[i].ty] = [i \in DOMAIN Flatten(g) |-> Flatten(g)[i].ty]
WideRebuildFlatten == CollidersCollide /\ \A f \in WideForests \cup SparseForests \cup ColliderForests : Rebuild(Flatten(f)) = f
EmitWide == \A f \in WideForests \cup SparseForests \cup ColliderForests : PrintT("FOREST " \o ToJson([forest |-> f, flat |-> Flatten(f)]))

\* ---- what a module is made of.  A class, a function and a type variable are exported as rows of class Symbol, a
\* variable and an imported name as rows of class Reflection; a module may consist of any non-empty choice of them (a
\* module of constants has no Symbol row at all, a re-exporting module only imports).  Import is one step per row; the
\* module counts as completed as soon as one of its rows has been imported, whatever the class of that row.
DeclKinds == {"class", "function", "typevar", "variable", "import"}
RowClass(k) == IF k \in {"class", "function", "typevar"} THEN "Symbol" ELSE "Reflection"
Compositions == (SUBSET DeclKinds) \ {{}}
RECURSIVE ImportRows(_, _)
\* state of the target table after importing rows: [keys, completed]
ImportRows(rows, st) == IF rows = <<>> THEN st ELSE ImportRows(Tail(rows), [keys |-> st.keys \cup {Head(rows).key}, completed |-> TRUE])
RowsOf(c) == LET ks == CHOOSE q \in [1..Cardinality(c) -> c] : \A i, j \in 1..Cardinality(c) : i # j => q[i] # q[j] IN
             [i \in 1..Cardinality(c) |-> [key |-> "M#" \o ks[i], class |-> RowClass(ks[i])]]
CompletedWhateverTheRows == \A c \in Compositions : LET st == ImportRows(RowsOf(c), [keys |-> {}, completed |-> FALSE]) IN
                               st.completed /\ st.keys = {"M#" \o k : k \in c}
EmitCompositions == \A c \in Compositions : PrintT("COMPOSITION " \o ToJson([kinds |-> c, classes |-> {RowClass(k) : k \in c}]))

RECURSIVE NodesOf(_), NodesOfForest(_)
NodesOfForest(f) == IF f = <<>> THEN 0 ELSE NodesOf(Head(f)) + NodesOfForest(Tail(f))
NodesOf(t) == 1 + NodesOfForest(t.kids)
\* the shapes replayed on the real serializer: every forest with at most 5 nodes
\* the sequence of types of a flattened forest does not determine the forest (the index paths do): two rows of one table
\* may agree on it and still have different attribute trees - the replay puts such rows into one module
TypesOf(es) == [i \in DOMAIN es |-> es[i].ty]
TypesDoNotDetermineShape == \E f, g \in {h \in Forests : h # <<>> /\ NodesOfForest(h) <= 4} : f # g /\ TypesOf(Flatten(f)) = TypesOf(Flatten(g))
Emit == \A f \in {g \in Forests : g # <<>> /\ NodesOfForest(g) <= 5} : PrintT("FOREST " \o ToJson([forest |-> f, flat |-> Flatten(f)]))
=============================================================================
