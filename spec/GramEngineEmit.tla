--------------------------- MODULE GramEngineEmit ---------------------------
EXTENDS GramEngine
ASSUME PrintT("SOUND " \o ToString(Sound))
ASSUME PrintT("YIELD " \o ToString(YieldInOrder))
ASSUME PrintT("UNWRAPVERDICT " \o ToString(UnwrapKeepsVerdict))
ASSUME PrintT("INCOMPLETE " \o ToJson(IncompleteWitnesses))
ASSUME PrintT("SPINS " \o ToJson(SpinWitnesses))
ASSUME EmitEngine
ASSUME PrintT("UNIVERSE " \o ToString(Cardinality(Exprs)) \o " x " \o ToString(Cardinality(Sentences)))
=============================================================================
