CONSTANTS
  MaxOps = 6
INIT Init
NEXT Next
VIEW View
CONSTRAINT Bounded
INVARIANT Coherent
PROPERTY HistoryFree
PROPERTY Frame
PROPERTY UnloadExact
CHECK_DEADLOCK FALSE
