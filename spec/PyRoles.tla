------------------------------- MODULE PyRoles -------------------------------
(***************************************************************************)
(* Source model, role layer (C02): every occurrence of a bare name in a    *)
(* statement either BINDS the name (Python: ast.Name with Store context, a *)
(* parameter, an `as` target, an import alias) or REFERS to it (Load       *)
(* context).  The role is a function of the syntactic slot alone - never   *)
(* of the enclosing statement, of the nesting depth or of what else the    *)
(* statement contains.                                                     *)
(*                                                                         *)
(* A construct is a one-statement text whose names are all different, with *)
(* the role of each.  A program places a construct into a block context    *)
(* (module level, function body, loop body, with body, branch, handler,    *)
(* two levels deep).  TLC enumerates the programs and checks that the      *)
(* expected roles do not depend on the context (RoleBySlotOnly); the       *)
(* harness compares, for every slot, the spec's role, CPython's ast        *)
(* context and the class of tranp's node (a declaration or a reference).   *)
(***************************************************************************)
EXTENDS Integers, Sequences, FiniteSets, TLC, Json

B(n) == <<n, "bind">>
R(n) == <<n, "ref">>

\* construct = [id, lines (relative indentation by tabs), slots]; a trailing ":" line opens a block that gets `pass`
Constructs == <<
  [id |-> "assign",        lines |-> <<"at = ar">>,                                  slots |-> <<B("at"), R("ar")>>],
  [id |-> "assign-chain",  lines |-> <<"ct = cr + cs * ct2">>,                        slots |-> <<B("ct"), R("cr"), R("cs"), R("ct2")>>],
  [id |-> "anno-assign",   lines |-> <<"nt: int = nr">>,                             slots |-> <<B("nt"), R("nr")>>],
  [id |-> "unpack",        lines |-> <<"ua, ub = ur">>,                              slots |-> <<B("ua"), B("ub"), R("ur")>>],
  [id |-> "for",           lines |-> <<"for ft in fr:", "\tpass">>,                  slots |-> <<B("ft"), R("fr")>>],
  [id |-> "for-unpack",    lines |-> <<"for fa, fb in fz:", "\tpass">>,              slots |-> <<B("fa"), B("fb"), R("fz")>>],
  [id |-> "for-call",      lines |-> <<"for gt in gf(gr):", "\tpass">>,              slots |-> <<B("gt"), R("gf"), R("gr")>>],
  [id |-> "with-name",     lines |-> <<"with wr:", "\tpass">>,                       slots |-> <<R("wr")>>],
  [id |-> "with-as",       lines |-> <<"with xr as xt:", "\tpass">>,                 slots |-> <<R("xr"), B("xt")>>],
  [id |-> "with-call-as",  lines |-> <<"with yf(yr) as yt:", "\tpass">>,             slots |-> <<R("yf"), R("yr"), B("yt")>>],
  [id |-> "with-two",      lines |-> <<"with zf(zr) as zt, zs:", "\tpass">>,         slots |-> <<R("zf"), R("zr"), B("zt"), R("zs")>>],
  [id |-> "with-two-as",   lines |-> <<"with va as vb, vc as vd:", "\tpass">>,       slots |-> <<R("va"), B("vb"), R("vc"), B("vd")>>],
  [id |-> "except-as",     lines |-> <<"try:", "\tpass", "except er as et:", "\tpass">>, slots |-> <<R("er"), B("et")>>],
  [id |-> "if",            lines |-> <<"if ir:", "\tpass">>,                         slots |-> <<R("ir")>>],
  [id |-> "while",         lines |-> <<"while lr:", "\tpass">>,                      slots |-> <<R("lr")>>],
  [id |-> "call-stmt",     lines |-> <<"kf(kr, kw=ks)">>,                            slots |-> <<R("kf"), R("kr"), R("ks")>>],
  [id |-> "index-store",   lines |-> <<"jr[ji] = jv">>,                              slots |-> <<R("jr"), R("ji"), R("jv")>>],
  [id |-> "attr-store",    lines |-> <<"or1.f = ov">>,                               slots |-> <<R("or1"), R("ov")>>],
  [id |-> "listcomp",      lines |-> <<"lt = [lx for le in lr2 if lc]">>,            slots |-> <<B("lt"), R("lx"), B("le"), R("lr2"), R("lc")>>],
  [id |-> "dictcomp",      lines |-> <<"dt = {dk: dv for de in dr}">>,               slots |-> <<B("dt"), R("dk"), R("dv"), B("de"), R("dr")>>],
  [id |-> "lambda",        lines |-> <<"mt = lambda mp: mr">>,                       slots |-> <<B("mt"), B("mp"), R("mr")>>],
  [id |-> "return",        lines |-> <<"return rr">>,                                slots |-> <<R("rr")>>],
  [id |-> "raise",         lines |-> <<"raise qe(qr)">>,                             slots |-> <<R("qe"), R("qr")>>],
  [id |-> "assert",        lines |-> <<"assert sr, sm">>,                            slots |-> <<R("sr"), R("sm")>>],
  [id |-> "def",           lines |-> <<"def hn(hp: int, hq: int = hd) -> int:", "\treturn hp">>, slots |-> <<B("hq"), R("hd")>>],
  [id |-> "ternary",       lines |-> <<"tt = ta if tc else tb">>,                    slots |-> <<B("tt"), R("ta"), R("tc"), R("tb")>>]
>>

\* block contexts: header lines and the depth at which the construct stands
Contexts == <<
  [id |-> "module",   head |-> <<>>,                                                depth |-> 0],
  [id |-> "function", head |-> <<"def f0(p0: int) -> None:">>,                        depth |-> 1],
  [id |-> "method",   head |-> <<"class C0:", "\tdef m0(self, p0: int) -> None:">>,   depth |-> 2],
  [id |-> "for-body", head |-> <<"def f0(p0: int) -> None:", "\tfor i0 in range(p0):">>, depth |-> 2],
  [id |-> "with-body", head |-> <<"def f0(p0: int) -> None:", "\twith o0() as w0:">>,  depth |-> 2],
  [id |-> "if-body",  head |-> <<"def f0(p0: int) -> None:", "\tif p0:">>,           depth |-> 2],
  [id |-> "handler",  head |-> <<"def f0(p0: int) -> None:", "\ttry:", "\t\tpass", "\texcept e0 as x0:">>, depth |-> 2],
  [id |-> "deep",     head |-> <<"def f0(p0: int) -> None:", "\tfor i0 in range(p0):", "\t\tif i0:", "\t\t\twith o0() as w0:">>, depth |-> 4]
>>

RECURSIVE Tabs(_)
Tabs(n) == IF n = 0 THEN "" ELSE "\t" \o Tabs(n - 1)
RECURSIVE Cat(_)
Cat(ls) == IF ls = <<>> THEN "" ELSE Head(ls) \o "\n" \o Cat(Tail(ls))
\* `return` needs a function around it
Allowed(c, x) == ~(c.id = "return" /\ x.depth = 0)
Text(c, x) == Cat(x.head \o [i \in DOMAIN c.lines |-> Tabs(x.depth) \o c.lines[i]])

Programs == {<<i, j>> \in (DOMAIN Constructs) \X (DOMAIN Contexts) : Allowed(Constructs[i], Contexts[j])}
Roles(p) == Constructs[p[1]].slots

\* the role of a slot does not depend on the context the construct stands in (stated on the generated programs)
RoleBySlotOnly == \A p, q \in Programs : p[1] = q[1] => Roles(p) = Roles(q)
\* the names of a construct are pairwise different and different from the names the contexts use: a name identifies its slot
ContextNames == {"f0", "p0", "C0", "m0", "self", "i0", "o0", "w0", "e0", "x0", "range"}
NamesIdentifySlots == \A i \in DOMAIN Constructs : LET s == Constructs[i].slots IN
   (\A a, b \in DOMAIN s : a # b => s[a][1] # s[b][1]) /\ (\A a \in DOMAIN s : s[a][1] \notin ContextNames)

Case(p) == [construct |-> Constructs[p[1]].id, context |-> Contexts[p[2]].id, text |-> Text(Constructs[p[1]], Contexts[p[2]]),
            slots |-> [k \in DOMAIN Roles(p) |-> [name |-> Roles(p)[k][1], role |-> Roles(p)[k][2]]]]
\* ---- the kind of a numeric literal is what Python reads it as, however it is spelled: an exponent makes a float with or
\* without a dot, a digit separator or a base prefix changes nothing about an integer
NumberSpellings == << [text |-> "1", kind |-> "int"], [text |-> "0", kind |-> "int"], [text |-> "1_000", kind |-> "int"], [text |-> "0x1F", kind |-> "int"],
                      [text |-> "0XaB", kind |-> "int"], [text |-> "0x_ff", kind |-> "int"],
                      [text |-> "1.5", kind |-> "float"], [text |-> "1.", kind |-> "float"], [text |-> ".5", kind |-> "float"], [text |-> "1e5", kind |-> "float"],
                      [text |-> "1E-9", kind |-> "float"], [text |-> "3e+8", kind |-> "float"], [text |-> "2.5e-3", kind |-> "float"], [text |-> "1_0.5", kind |-> "float"],
                      [text |-> "6.02e23", kind |-> "float"], [text |-> "0e0", kind |-> "float"] >>
NumberPlaces == << "x = #\n", "def f(a: float = #) -> None:\n\tpass\n", "y = g(#, k=#)\n", "z = [#, -#]\n", "w = # + n\n" >>
ASSUME \A i \in DOMAIN NumberSpellings, j \in DOMAIN NumberPlaces :
   PrintT("NUMBER " \o ToJson([text |-> NumberSpellings[i].text, kind |-> NumberSpellings[i].kind, place |-> NumberPlaces[j]]))
ASSUME RoleBySlotOnly
ASSUME NamesIdentifySlots
ASSUME \A p \in Programs : PrintT("ROLE " \o ToJson(Case(p)))
=============================================================================
