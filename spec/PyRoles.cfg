CONSTANTS
