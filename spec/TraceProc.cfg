CONSTANTS
  MaxN = 1000000
  MaxP = 1000
  MaxNest = 1000000
  MaxFail = 1000000
  MaxRuns = 1000000
INIT TInit
NEXT TNext
INVARIANT Mark
INVARIANT Reach
INVARIANT TypeOK
INVARIANT NeverUnderflow
PROPERTY TEventIsChildren
PROPERTY TNoSiblingLeak
PROPERTY TOneResult
PROPERTY TNestedTransparent
POSTCONDITION Post
CHECK_DEADLOCK FALSE
