------------------------------ MODULE PyTypes ------------------------------
(***************************************************************************)
(* Source model, type layer: type-directed generation of expressions of    *)
(* the supported subset over an environment of typed variables.  Only      *)
(* well-typed expressions exist in the model; each carries its static type *)
(* by Python's rules (= the type its value has at run time).  tranp's      *)
(* inference (Reflections.type_of and the type of the declared variable)   *)
(* must describe the same type; inference must be total (never Unknown).   *)
(*                                                                         *)
(* Types: int float bool str | list[T] | dict[str, V] | tuple[A, B] |      *)
(* class C | enum E.  Every container built or reached is non-empty and    *)
(* every key used is present, so the programs run under CPython and the    *)
(* run-time type of each value can be observed (the referee).              *)
(***************************************************************************)
EXTENDS Integers, Sequences, FiniteSets, TLC, Json

CONSTANTS Depth

TInt == [k |-> "int"]   TFloat == [k |-> "float"]   TBool == [k |-> "bool"]   TStr == [k |-> "str"]
TList(e) == [k |-> "list", e |-> e]
TDict(v) == [k |-> "dict", v |-> v]                    \* keys are str
TTuple(a, b) == [k |-> "tuple", a |-> a, b |-> b]
TC == [k |-> "C"]   TE == [k |-> "E"]
\* a generic class G[T] instantiated with an argument, its subclass IG(G[int]), and the type variable itself (which
\* occurs in the declarations of G only - never in the type of an expression)
TG(a) == [k |-> "G", a |-> a]
TIG == [k |-> "IG", a |-> [k |-> "int"]]
\* ... and a class two levels below the class that binds the type variable (IG2(IG), IG(G[int])): nothing of its own is generic
TIG2 == [k |-> "IG2", a |-> [k |-> "int"]]
TVar == [k |-> "tvar"]
\* user classes that can be iterated: Cd is its own iterator (__iter__ returns the class itself, __next__ gives int),
\* Ws hands out an Iterator[str]
TCd == [k |-> "Cd"]   TWs == [k |-> "Ws"]
\* a class with two bases: Target(Left, Right), Left(Root).  Root and Right both declare `tag` and `who` with different
\* types; Python's method resolution order (Target, Left, Root, Right) finds Root's first - depth first, left to right
TMI == [k |-> "Target"]
Yields(t) == IF t.k = "Cd" THEN [k |-> "int"] ELSE [k |-> "str"]
\* a declared name for a type (TypeAlias) and an optional: both are transparent for what can be done with the value
TAlias(name, t) == [k |-> "alias", name |-> name, t |-> t]
TOpt(t) == [k |-> "opt", t |-> t]
TOptN(t) == [k |-> "optn", t |-> t]        \* the same optional spelled None-first: None | T
RECURSIVE U(_), Plain(_)
U(t) == IF t.k \in {"alias", "opt", "optn"} THEN U(t.t) ELSE t
Plain(t) == CASE t.k \in {"alias", "opt", "optn"} -> FALSE [] t.k = "list" -> Plain(t.e) [] t.k = "dict" -> Plain(t.v) [] t.k = "tuple" -> Plain(t.a) /\ Plain(t.b) [] OTHER -> TRUE

\* the declared type of a member of G with the type variable replaced by the argument of the receiver
RECURSIVE Subst(_, _)
Subst(t, a) == CASE t.k = "tvar" -> a
                 [] t.k = "list" -> [t EXCEPT !.e = Subst(t.e, a)]
                 [] t.k = "dict" -> [t EXCEPT !.v = Subst(t.v, a)]
                 [] t.k = "tuple" -> [t EXCEPT !.a = Subst(t.a, a), !.b = Subst(t.b, a)]
                 [] t.k \in {"opt", "optn"} -> [t EXCEPT !.t = Subst(t.t, a)]
                 [] OTHER -> t
RECURSIVE Describe(_)
Describe(t) == CASE t.k = "list" -> "list<" \o Describe(t.e) \o ">"
                 [] t.k = "dict" -> "dict<str, " \o Describe(t.v) \o ">"
                 [] t.k = "tuple" -> "tuple<" \o Describe(t.a) \o ", " \o Describe(t.b) \o ">"
                 [] t.k = "alias" -> t.name \o "=" \o Describe(t.t)
                 [] t.k = "opt" -> "Union<" \o Describe(t.t) \o ", None>"
                 [] t.k = "optn" -> "Union<None, " \o Describe(t.t) \o ">"
                 [] t.k \in {"G", "IG"} -> t.k \o "<" \o Describe(t.a) \o ">"
                 [] t.k = "IG2" -> "IG2"          \* tranp prints the arguments only for a class with a generic base of its own
                 [] OTHER -> t.k
\* the type the VALUE has at run time (an alias is its target, an optional that holds a value is that value's type)
RECURSIVE RunTime(_)
RunTime(t) == CASE t.k = "list" -> "list<" \o RunTime(t.e) \o ">"
                [] t.k = "dict" -> "dict<str, " \o RunTime(t.v) \o ">"
                [] t.k = "tuple" -> "tuple<" \o RunTime(t.a) \o ", " \o RunTime(t.b) \o ">"
                [] t.k \in {"alias", "opt", "optn"} -> RunTime(t.t)
                [] t.k \in {"G", "IG", "IG2"} -> t.k \o "<" \o RunTime(t.a) \o ">"
                [] OTHER -> t.k

\* p = Python precedence level of the outermost construct (16 = atom / postfix chain)
\* ref = the expression is a reference chain (variable, attribute, index, call): the only operands tranp accepts
\* for index / attribute / method constructs (indexing a literal or a parenthesised expression is outside the subset)
Xr(text, ty, p, ref) == [text |-> text, ty |-> ty, p |-> p, ref |-> ref, view |-> FALSE]
Xp(text, ty, p) == Xr(text, ty, p, FALSE)
X(text, ty) == Xr(text, ty, 16, FALSE)
R(text, ty) == Xr(text, ty, 16, TRUE)
W(e, need) == IF e.p < need THEN "(" \o e.text \o ")" ELSE e.text

\* the environment: parameters of the generated function (values given by the harness: all containers non-empty,
\* key 'a' present in every dict)
Vars == { R("n", TInt), R("x", TFloat), R("b", TBool), R("s", TStr),
          R("xs", TList(TInt)), R("ys", TList(TStr)), R("d", TDict(TInt)), R("t", TTuple(TInt, TStr)),
          R("c", TC), R("e", TE), R("xss", TList(TList(TInt))), R("dl", TDict(TList(TFloat))), R("cs", TList(TC)),
          R("xa", TAlias("Ints", TList(TInt))), R("rows", TAlias("Rows", TList(TList(TInt)))), R("da", TAlias("DS", TDict(TInt))),
          R("xo", TOpt(TList(TInt))), R("co", TOpt(TC)), R("lo", TOpt(TList(TC))),
          R("xn", TOptN(TList(TInt))), R("cn", TOptN(TC)), R("ln", TOptN(TList(TC))),
          R("gi", TG(TInt)), R("gs", TG(TStr)), R("ig", TIG), R("ig2", TIG2), R("cd", TCd), R("wz", TWs),
          \* parameters that carry the names of library functions: a declaration in scope is found before the library
          R("mi", TMI), R("id", TInt), R("max", TFloat), R("hash", TStr), R("iter", TList(TInt)), R("min", TC) }
\* members of G: fields and methods whose declared types hold the type variable at depth 0, 1 and 2, under an optional
GFields == { <<"v", TVar>>, <<"vs", TList(TVar)>>, <<"rows", TList(TList(TVar))>>, <<"idx", TDict(TList(TVar))>>,
             <<"opt", TOpt(TVar)>>, <<"spare", TOpt(TList(TVar))>>, <<"pair", TTuple(TVar, TList(TVar))>> }
GMethods == { <<"get", TVar>>, <<"all", TList(TVar)>>, <<"grid", TList(TList(TVar))>> }
Lits == { X("1", TInt), X("1.5", TFloat), X("True", TBool), X("'a'", TStr), X("C(2)", TC), X("E.A", TE) }

\* one generation step: every expression obtainable from sub-expressions in S by one construct
Step(S0) ==
  LET \* consumers see through aliases and optionals (views); producers of new containers take plain operands only
      S == {z \in S0 : Plain(z.ty)} \cup {[z EXCEPT !.ty = U(z.ty), !.view = TRUE] : z \in {y \in S0 : y.ty.k \in {"alias", "opt", "optn"} /\ U(y.ty).k \notin {"int", "float", "bool", "str"}}}
      \* (an optional scalar is not an operand of arithmetic: `opt + 1` is not well-typed without narrowing, tranp refuses it)
      SP == {z \in S : ~z.view}
  IN
  S0
  \cup {R(W(e, 16) \o "[0]", e.ty.e) : e \in {z \in S : z.ref /\ z.ty.k = "list"}}
  \cup {R(W(e, 16) \o "['a']", e.ty.v) : e \in {z \in S : z.ref /\ z.ty.k = "dict"}}
  \cup {R(W(e, 16) \o "[0]", e.ty.a) : e \in {z \in S : z.ref /\ z.ty.k = "tuple"}}
  \cup {R(W(e, 16) \o "[1]", e.ty.b) : e \in {z \in S : z.ref /\ z.ty.k = "tuple"}}
  \cup {X("[" \o W(e, 3) \o ", " \o W(e, 3) \o "]", TList(e.ty)) : e \in SP}
  \cup {X("{'a': " \o W(e, 3) \o "}", TDict(e.ty)) : e \in SP}
  \cup {X("(" \o W(e, 3) \o ", s)", TTuple(e.ty, TStr)) : e \in SP}
  \cup {Xp(W(e, 16) \o "[0] if " \o W(e, 3) \o " else 1", TInt, 2) : e \in {z \in S0 : z.ref /\ z.ty = TOpt(TList(TInt))}}
  \cup {X("len(" \o e.text \o ")", TInt) : e \in {z \in S : z.ty.k \in {"list", "dict", "str"}}}
  \cup {R(W(e, 16) \o ".n", TInt) : e \in {z \in S : z.ref /\ z.ty.k = "C"}}
  \cup {R(W(e, 16) \o ".m()", TStr) : e \in {z \in S : z.ref /\ z.ty.k = "C"}}
  \cup {R(W(e, 16) \o ".p", TList(TInt)) : e \in {z \in S : z.ref /\ z.ty.k = "C"}}
  \cup {R(W(e, 16) \o ".tag", TStr) : e \in {z \in S : z.ref /\ z.ty.k = "Target"}}
  \cup {R(W(e, 16) \o ".who()", TStr) : e \in {z \in S : z.ref /\ z.ty.k = "Target"}}
  \cup {R(W(e, 16) \o ".only()", TFloat) : e \in {z \in S : z.ref /\ z.ty.k = "Target"}}
  \cup {R(W(e, 16) \o ".value", TInt) : e \in {z \in S : z.ref /\ z.ty.k = "E"}}
  \cup {R(W(e, 16) \o "." \o f[1], Subst(f[2], e.ty.a)) : e \in {z \in S : z.ref /\ z.ty.k \in {"G", "IG", "IG2"}}, f \in GFields}
  \cup {R(W(e, 16) \o "." \o f[1] \o "()", Subst(f[2], e.ty.a)) : e \in {z \in S : z.ref /\ z.ty.k \in {"G", "IG", "IG2"}}, f \in GMethods}
  \cup {X("[v for v in " \o W(e, 3) \o "]", e.ty) : e \in {z \in S : z.ty.k = "list"}}
  \* iteration through the iterator protocol of a user class: the element is what __next__ (or the Iterator) gives
  \cup {X("[v for v in " \o W(e, 3) \o "]", TList(Yields(e.ty))) : e \in {z \in S : z.ty.k \in {"Cd", "Ws"}}}
  \cup {X("[[v] for v in " \o W(e, 3) \o "]", TList(TList(Yields(e.ty)))) : e \in {z \in S : z.ty.k \in {"Cd", "Ws"}}}
  \cup {X("{s: v for v in " \o W(e, 3) \o "}", TDict(Yields(e.ty))) : e \in {z \in S : z.ty.k \in {"Cd", "Ws"}}}
  \cup {X("[len(v) for v in " \o W(e, 3) \o "]", TList(TInt)) : e \in {z \in S : z.ty.k = "list" /\ z.ty.e.k \in {"str", "list"}}}
  \cup {X("{k2: v2 for k2, v2 in " \o W(e, 16) \o ".items()}", e.ty) : e \in {z \in S : z.ref /\ z.ty.k = "dict"}}
  \cup {Xp(W(e, 3) \o " if b else " \o W(e, 2), e.ty, 2) : e \in {z \in SP : z.ty.k \in {"int", "str", "list", "C"}}}
  \cup {Xp(W(e, 11) \o " + 1", TInt, 11) : e \in {z \in S : z.ty.k = "int"}}
  \cup {Xp(W(e, 12) \o " * 2", TInt, 12) : e \in {z \in S : z.ty.k = "int"}}
  \* repetition keeps the list's own element type, whichever list was repeated before
  \cup {Xp(W(e, 12) \o " * 2", e.ty, 12) : e \in {z \in SP : z.ty.k = "list"}}
  \cup {Xp(W(e, 12) \o " % 3", TInt, 12) : e \in {z \in S : z.ty.k = "int"}}
  \cup {Xp(W(e, 11) \o " - x", TFloat, 11) : e \in {z \in S : z.ty.k \in {"int", "float"}}}
  \cup {Xp(W(e, 12) \o " * x", TFloat, 12) : e \in {z \in S : z.ty.k \in {"int", "float"}}}
  \cup {Xp(W(e, 12) \o " / 2", TFloat, 12) : e \in {z \in S : z.ty.k = "int"}}
  \cup {Xp(W(e, 11) \o " + 'z'", TStr, 11) : e \in {z \in S : z.ty.k = "str"}}
  \cup {Xp(W(e, 7) \o " > 0", TBool, 6) : e \in {z \in S : z.ty.k \in {"int", "float"}}}
  \cup {Xp("not " \o W(e, 5), TBool, 5) : e \in {z \in S : z.ty.k = "bool"}}
  \cup {X("str(" \o e.text \o ")", TStr) : e \in {z \in S : z.ty.k = "int"}}
  \cup {X("int(" \o e.text \o ")", TInt) : e \in {z \in S : z.ty.k = "float"}}
  \cup {X("float(" \o e.text \o ")", TFloat) : e \in {z \in S : z.ty.k = "int"}}
  \cup {R(W(e, 16) \o ".copy()", e.ty) : e \in {z \in S : z.ref /\ z.ty.k = "list"}}
  \cup {R(W(e, 16) \o ".get('a', 0)", TInt) : e \in {z \in S : z.ref /\ z.ty = TDict(TInt)}}
  \cup {R(W(e, 16) \o ".upper()", TStr) : e \in {z \in S : z.ref /\ z.ty.k = "str"}}
  \cup {R(W(e, 16) \o ".split(',')", TList(TStr)) : e \in {z \in S : z.ref /\ z.ty.k = "str"}}
  \cup {X("list(" \o W(e, 16) \o ".keys())", TList(TStr)) : e \in {z \in S : z.ref /\ z.ty.k = "dict"}}
  \cup {X("list(" \o W(e, 16) \o ".values())", TList(e.ty.v)) : e \in {z \in S : z.ref /\ z.ty.k = "dict"}}

RECURSIVE Gen(_)
Gen(d) == IF d = 0 THEN Vars \cup Lits ELSE Step(Gen(d - 1))
Universe == Gen(Depth)

\* inference is total on the universe: every expression has a fully determined type (no Unknown anywhere)
RECURSIVE Determined(_)
Determined(t) == CASE t.k = "list" -> Determined(t.e) [] t.k = "dict" -> Determined(t.v)
                   [] t.k = "tuple" -> Determined(t.a) /\ Determined(t.b)
                   [] t.k \in {"alias", "opt", "optn"} -> Determined(t.t)
                   [] t.k \in {"G", "IG", "IG2"} -> Determined(t.a)
                   [] OTHER -> t.k \in {"int", "float", "bool", "str", "C", "E", "Cd", "Ws", "Target"}
Total == \A e \in Universe : Determined(e.ty)

Emit == \A e \in Universe : PrintT("CASE " \o ToJson([text |-> e.text, type |-> Describe(e.ty), rtype |-> RunTime(e.ty)]))
=============================================================================
