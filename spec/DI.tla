------------------------------- MODULE DI -------------------------------
(***************************************************************************)
(* The dependency container of rog-works/tranp (rogw/tranp/lang/di.py,     *)
(* class LazyDI over DI), shaped like the code: three maps per container   *)
(* (definitions = lazy registrations by name, injectors = materialised     *)
(* bindings, instances), a per-container memo of invoke signatures, a      *)
(* global log of created instances.  One action per public method.         *)
(*                                                                         *)
(* The property C19 is stated on observations (what resolve returns, what  *)
(* is raised) as action properties over the label variable `op`.           *)
(*                                                                         *)
(* Two constants select between the behaviour of the pinned commit and the *)
(* repaired behaviour (see DESIGN.md, C19):                                *)
(*   CombineFixed = FALSE : combine merges the three maps key by key       *)
(*       *separately* (left operand's injector/instance survive when the   *)
(*       right operand defines the symbol without having materialised it)  *)
(*   InvokeFixed  = FALSE : invoke validates the call signature only the   *)
(*       first time a factory name is seen and indexes past the expected   *)
(*       parameter list when given surplus arguments                       *)
(***************************************************************************)
EXTENDS Integers, Sequences, FiniteSets, TLC, Json

CONSTANTS MaxC,          \* max number of containers alive
          MaxOps,        \* max behaviour length explored
          MaxInst,       \* max number of created instances
          CombineFixed,
          InvokeFixed,
          Sym,           \* symbols (types one can bind / resolve)
          SymFacs,       \* [Sym -> set of factories that may be bound to it]
          InvokeFns,     \* functions only ever passed to invoke
          Params,        \* [factory -> sequence of parameter annotations]: a symbol, or a pass-through type name
          Templates,     \* definition maps handed to LazyDI.instantiate
          ExtraVals      \* pass-through argument vectors tried by invoke

VARIABLES cont,   \* sequence of containers: [defs, inj, inst, memo]
          born,   \* sequence of created instances: [fac, args, extras]
          op      \* label of the step just taken (hidden by VIEW)

vars == <<cont, born, op>>
View == <<cont, born>>

None == "none"

NoneFn == [s \in Sym |-> None]
EmptyC == [defs |-> NoneFn, inj |-> NoneFn, inst |-> [s \in Sym |-> 0], memo |-> {}]

Resolvable(k, s) == k.defs[s] # None
EffFac(k, s) == IF k.inj[s] # None THEN k.inj[s] ELSE k.defs[s]

-----------------------------------------------------------------------------
(* The code, method by method.  A "thread state" st = [k, born, err, ret]    *)
(* is passed through the recursion resolve -> invoke -> resolve …; mutations *)
(* made before an exception persist, exactly as in the code.                 *)

RECURSIVE Res(_, _), Curry(_, _, _, _)

\* DI.invoke: curry the leading resolvable parameters
Curry(st, f, i, args) ==
  IF st.err # "" \/ i > Len(Params[f]) THEN [st |-> st, args |-> args]
  ELSE LET p == Params[f][i] IN
       IF p \notin Sym \/ ~Resolvable(st.k, p) THEN [st |-> st, args |-> args]
       ELSE LET st2 == Res(st, p) IN
            IF st2.err # "" THEN [st |-> st2, args |-> args]
            ELSE Curry(st2, f, i + 1, Append(args, st2.ret))

InvokeK(st, f, extras) ==
  LET found == f \in st.k.memo
      st1   == [st EXCEPT !.k.memo = @ \cup {f}]
      cr    == Curry(st1, f, 1, <<>>)
      st2   == cr.st
      n     == Len(cr.args)
      rest  == SubSeq(Params[f], n + 1, Len(Params[f]))
      validate == InvokeFixed \/ ~found
      verr  == IF ~validate THEN ""
               ELSE IF Len(extras) > Len(rest) THEN (IF InvokeFixed THEN "ValueError" ELSE "IndexError")
               ELSE IF Cardinality({i \in 1..Len(extras) : extras[i] = rest[i]}) # Len(rest) THEN "ValueError"
               ELSE ""
      cerr  == IF Len(extras) # Len(rest) THEN "TypeError" ELSE ""   \* Python's own arity check of factory(*args)
  IN IF st2.err # "" THEN st2
     ELSE IF verr # "" THEN [st2 EXCEPT !.err = verr]
     ELSE IF cerr # "" THEN [st2 EXCEPT !.err = cerr]
     ELSE [st2 EXCEPT !.born = Append(@, [fac |-> f, args |-> cr.args, extras |-> extras]),
                      !.ret = Len(st2.born) + 1]

\* LazyDI.resolve: materialise the lazy definition, then DI.resolve
Res(st, s) ==
  LET k0 == st.k
      k1 == IF k0.inj[s] = None /\ k0.defs[s] # None THEN [k0 EXCEPT !.inj[s] = k0.defs[s]] ELSE k0
  IN IF k1.inj[s] = None THEN [st EXCEPT !.err = "ValueError"]
     ELSE IF k1.inst[s] # 0 THEN [st EXCEPT !.k = k1, !.ret = k1.inst[s]]
     ELSE LET st2 == InvokeK([st EXCEPT !.k = k1], k1.inj[s], <<>>) IN
          IF st2.err # "" THEN st2 ELSE [st2 EXCEPT !.k.inst[s] = st2.ret]

\* LazyDI.bind
BindK(k, s, f) ==
  LET k1 == IF k.defs[s] = None THEN [k EXCEPT !.defs[s] = f] ELSE k
  IN IF k1.inj[s] # None THEN [k |-> k1, err |-> "ValueError"]
     ELSE [k |-> [k1 EXCEPT !.inj[s] = f], err |-> ""]

\* LazyDI.unbind
UnbindK(k, s) == [k EXCEPT !.defs[s] = None, !.inj[s] = None, !.inst[s] = 0]

\* DI.rebind (looks at the materialised bindings only)
RebindK(k, s, f) == IF k.inj[s] # None THEN BindK(UnbindK(k, s), s, f) ELSE BindK(k, s, f)

\* LazyDI.combine
CombineK(a, b) ==
  LET Pick(x, y, none) == [s \in Sym |-> IF y[s] # none THEN y[s] ELSE x[s]]
  IN IF CombineFixed
     THEN [defs |-> Pick(a.defs, b.defs, None),
           inj  |-> [s \in Sym |-> IF Resolvable(b, s) THEN b.inj[s] ELSE a.inj[s]],
           inst |-> [s \in Sym |-> IF Resolvable(b, s) THEN b.inst[s] ELSE a.inst[s]],
           memo |-> {}]
     ELSE [defs |-> Pick(a.defs, b.defs, None),
           inj  |-> Pick(a.inj, b.inj, None),
           inst |-> Pick(a.inst, b.inst, 0),
           memo |-> {}]

-----------------------------------------------------------------------------
Init == /\ cont = <<>>
        /\ born = <<>>
        /\ op = [name |-> "init"]

Cs == DOMAIN cont

New(t) ==
  /\ Len(cont) < MaxC
  /\ cont' = Append(cont, [EmptyC EXCEPT !.defs = t])
  /\ born' = born
  /\ op' = [name |-> "new", defs |-> t, c |-> Len(cont) + 1, res |-> "ok"]

Bind(c, s, f) ==
  LET r == BindK(cont[c], s, f) IN
  /\ cont' = [cont EXCEPT ![c] = r.k]
  /\ born' = born
  /\ op' = [name |-> "bind", c |-> c, s |-> s, f |-> f, res |-> IF r.err = "" THEN "ok" ELSE r.err]

Unbind(c, s) ==
  /\ cont' = [cont EXCEPT ![c] = UnbindK(cont[c], s)]
  /\ born' = born
  /\ op' = [name |-> "unbind", c |-> c, s |-> s, res |-> "ok"]

Rebind(c, s, f) ==
  LET r == RebindK(cont[c], s, f) IN
  /\ cont' = [cont EXCEPT ![c] = r.k]
  /\ born' = born
  /\ op' = [name |-> "rebind", c |-> c, s |-> s, f |-> f, res |-> IF r.err = "" THEN "ok" ELSE r.err]

Resolve(c, s) ==
  LET st == Res([k |-> cont[c], born |-> born, err |-> "", ret |-> 0], s) IN
  /\ Len(st.born) <= MaxInst
  /\ cont' = [cont EXCEPT ![c] = st.k]
  /\ born' = st.born
  /\ op' = [name |-> "resolve", c |-> c, s |-> s, res |-> IF st.err = "" THEN "ok" ELSE st.err, ret |-> IF st.err = "" THEN st.ret ELSE 0]

Invoke(c, f, extras) ==
  LET st == InvokeK([k |-> cont[c], born |-> born, err |-> "", ret |-> 0], f, extras) IN
  /\ Len(st.born) <= MaxInst
  /\ cont' = [cont EXCEPT ![c] = st.k]
  /\ born' = st.born
  /\ op' = [name |-> "invoke", c |-> c, f |-> f, extras |-> extras, res |-> IF st.err = "" THEN "ok" ELSE st.err, ret |-> IF st.err = "" THEN st.ret ELSE 0]

Combine(a, b) ==
  /\ Len(cont) < MaxC
  /\ cont' = Append(cont, CombineK(cont[a], cont[b]))
  /\ born' = born
  /\ op' = [name |-> "combine", a |-> a, b |-> b, c |-> Len(cont) + 1, res |-> "ok"]

Next ==
  \/ \E t \in Templates : New(t)
  \/ \E c \in Cs, s \in Sym : \E f \in SymFacs[s] : Bind(c, s, f) \/ Rebind(c, s, f)
  \/ \E c \in Cs, s \in Sym : Unbind(c, s) \/ Resolve(c, s)
  \/ \E c \in Cs, f \in InvokeFns, e \in ExtraVals : Invoke(c, f, e)
  \/ \E a \in Cs, b \in Cs : Combine(a, b)

Spec == Init /\ [][Next]_vars

Bounded == TLCGet("level") <= MaxOps

-----------------------------------------------------------------------------
(* Structural invariants of the representation *)

TypeOK ==
  /\ \A c \in Cs : /\ \A s \in Sym : cont[c].defs[s] \in SymFacs[s] \cup {None}
                   /\ \A s \in Sym : cont[c].inj[s] \in SymFacs[s] \cup {None}
                   /\ \A s \in Sym : cont[c].inst[s] \in 0..Len(born)
  /\ \A i \in DOMAIN born : \A j \in DOMAIN born[i].args : born[i].args[j] < i

\* a materialised binding is always also a definition; an instance always has a binding
Layered == \A c \in Cs, s \in Sym :
              /\ (cont[c].inj[s] # None => cont[c].defs[s] # None)
              /\ (cont[c].inst[s] # 0 => cont[c].inj[s] # None)

(* C19, clause "one instance per binding generation" (state part): the instance a *)
(* container holds for s was produced by the factory currently bound to s.         *)
InstanceOfBinding == \A c \in Cs, s \in Sym : cont[c].inst[s] # 0 => born[cont[c].inst[s]].fac = EffFac(cont[c], s)

-----------------------------------------------------------------------------
(* C19 as action properties over the observation label *)

Target(o) == IF o.name \in {"bind", "unbind", "rebind", "resolve", "invoke"} THEN o.c ELSE 0

\* one instance per binding generation: an instance changes only by unbind/rebind of that very symbol
InstanceStable == [][\A c \in Cs, s \in Sym :
      (cont[c].inst[s] # 0 /\ cont'[c].inst[s] # cont[c].inst[s])
         => (op'.name \in {"unbind", "rebind"} /\ op'.c = c /\ op'.s = s)]_vars

\* resolve returns the held instance; creates at most what the dependency chain needs
ResolveReturnsHeld == [][op'.name = "resolve" /\ op'.res = "ok" =>
      /\ cont'[op'.c].inst[op'.s] = op'.ret
      /\ (cont[op'.c].inst[op'.s] # 0 => (op'.ret = cont[op'.c].inst[op'.s] /\ born' = born))
      /\ born'[op'.ret].fac = EffFac(cont[op'.c], op'.s)]_vars

RebindDiscards == [][op'.name = "rebind" /\ op'.res = "ok" =>
      /\ cont'[op'.c].inst[op'.s] = 0
      /\ EffFac(cont'[op'.c], op'.s) = op'.f]_vars

\* rebind never fails (it exists to replace)
RebindTotal == [][op'.name = "rebind" => op'.res = "ok"]_vars

CombineRightWins == [][op'.name = "combine" =>
      LET a == cont[op'.a]  b == cont[op'.b]  n == cont'[op'.c] IN
      \A s \in Sym :
        /\ Resolvable(b, s) => /\ Resolvable(n, s)
                                /\ EffFac(n, s) = EffFac(b, s)
                                /\ n.inst[s] = b.inst[s]
        /\ ~Resolvable(b, s) => /\ Resolvable(n, s) = Resolvable(a, s)
                                 /\ EffFac(n, s) = EffFac(a, s)
                                 /\ n.inst[s] = a.inst[s]]_vars

\* frame condition: an operation on one container leaves every other container's maps untouched
OperandsUnaffected == [][\A c \in Cs : c # Target(op') => cont'[c] = cont[c]]_vars

UnknownRaises == [][op'.name = "resolve" /\ ~Resolvable(cont[op'.c], op'.s) =>
      op'.res = "ValueError" /\ cont' = cont /\ born' = born]_vars

\* no foreign exception class ever leaves a public method
OnlyValueError == [][op'.res \in {"ok", "ValueError"}]_vars

\* the longest prefix of f's parameters that the container can resolve (definitions-based)
RECURSIVE PrefixLen(_, _, _)
PrefixLen(k, f, i) == IF i > Len(Params[f]) THEN i - 1
                      ELSE IF Params[f][i] \in Sym /\ Resolvable(k, Params[f][i]) THEN PrefixLen(k, f, i + 1)
                      ELSE i - 1

InvokePrefixRule == [][op'.name = "invoke" /\ op'.res = "ok" =>
      LET k == cont[op'.c]  f == op'.f  n == PrefixLen(k, f, 1)  i == born'[op'.ret] IN
      /\ op'.ret = Len(born')
      /\ i.fac = f /\ i.extras = op'.extras
      /\ Len(i.args) = n
      /\ \A j \in 1..n : i.args[j] = cont'[op'.c].inst[Params[f][j]]
      /\ op'.extras = SubSeq(Params[f], n + 1, Len(Params[f]))]_vars

\* mismatched pass-through arguments are reported as ValueError (unless a dependency itself is unresolvable)
InvokeMismatchRaises == [][op'.name = "invoke" =>
      LET k == cont[op'.c]  f == op'.f  n == PrefixLen(k, f, 1) IN
      (op'.extras # SubSeq(Params[f], n + 1, Len(Params[f]))) => (op'.res = "ValueError")]_vars

-----------------------------------------------------------------------------
(* Edge stream for spec -> code replay *)
Emit == PrintT("EDGE " \o ToJson([from |-> View, op |-> op', to |-> View']))

=============================================================================
