------------------------------ MODULE MetaGram ------------------------------
(***************************************************************************)
(* The grammar engine's meta level (rogw/tranp/implements/syntax/tranp/    *)
(* rule.py: ASTSerializer.restore = Rules.from_ast, Prettier = Rules.pretty;*)
(* data/syntax/gram.lark: the grammar of grammar files).                   *)
(*                                                                         *)
(* A right-hand side is built from atoms (symbol, "string", /regexp/) with *)
(* juxtaposition, `|`, `[ ]`, `( )` and `( )* ( )+ ( )?`.  For every       *)
(* right-hand side with exactly N constructs the module gives              *)
(*   Src(e)    the text a grammar author writes,                           *)
(*   Tup(e)    the tuple tree the meta-parse of that text must yield       *)
(*             (gram.lark with its [1] unwrap markers),                    *)
(*   M(e)      the pattern structure Rules.from_ast must build from it,    *)
(*   Pretty(m) the text Rules.pretty prints - as coded at the pinned       *)
(*             commit (ParenFix = FALSE) or as repaired (TRUE),            *)
(*   Parse(ts) the composition meta-parse ; from_ast on a token sequence,  *)
(*   Norm(m)   the pattern structure up to redundant grouping.             *)
(* Law (RoundTrip): Parse(PrettyToks(M(e))) = M(e).                        *)
(***************************************************************************)
EXTENDS Integers, Sequences, FiniteSets, TLC, Json

CONSTANTS N, ParenFix

\* ---- atoms: spelling in a grammar file, the pattern Pattern.make derives, the spelling Rules.pretty prints
Pat(role, comp, e) == [t |-> "pat", role |-> role, comp |-> comp, e |-> e]
AtomTable == <<
  [kind |-> "symbol", src |-> "a",            pat |-> Pat("Symbol", "NoComp", "a"),        out |-> "a"],
  [kind |-> "string", src |-> "\"k\"",        pat |-> Pat("Terminal", "Equals", "k"),      out |-> "\"k\""],
  [kind |-> "symbol", src |-> "b",            pat |-> Pat("Symbol", "NoComp", "b"),        out |-> "b"],
  [kind |-> "regexp", src |-> "/r+/",         pat |-> Pat("Terminal", "Regexp", "r+"),     out |-> "/r+/"],
  \* the two-character spelling backslash-n denotes the line break itself (Pattern.make restores t f r n)
  [kind |-> "string", src |-> "\"\\n\"",      pat |-> Pat("Terminal", "Equals", "\n"),     out |-> "\"\n\""],
  [kind |-> "regexp", src |-> "/x\\/y/",      pat |-> Pat("Terminal", "Regexp", "x\\/y"),  out |-> "/x\\/y/"],
  [kind |-> "string", src |-> "\"'\"",        pat |-> Pat("Terminal", "Equals", "'"),      out |-> "\"'\""],
  [kind |-> "string", src |-> "\"\\\\\"",     pat |-> Pat("Terminal", "Equals", "\\\\"),   out |-> "\"\\\\\""],
  [kind |-> "regexp", src |-> "/\\'[^\\']*\\'/", pat |-> Pat("Terminal", "Regexp", "\\'[^\\']*\\'"), out |-> "/\\'[^\\']*\\'/"],
  [kind |-> "string", src |-> "\"\\t\"",      pat |-> Pat("Terminal", "Equals", "\t"),     out |-> "\"\t\""],
  [kind |-> "string", src |-> "\":=\"",       pat |-> Pat("Terminal", "Equals", ":="),     out |-> "\":=\""],
  [kind |-> "regexp", src |-> "/[a-z_]\\w*/", pat |-> Pat("Terminal", "Regexp", "[a-z_]\\w*"), out |-> "/[a-z_]\\w*/"],
  \* delimiters are removed exactly once: a body may end (or begin) with an escaped slash, a string may consist of slashes
  [kind |-> "regexp", src |-> "/<\\//",     pat |-> Pat("Terminal", "Regexp", "<\\/"),      out |-> "/<\\//"],
  [kind |-> "regexp", src |-> "/\\/x/",     pat |-> Pat("Terminal", "Regexp", "\\/x"),      out |-> "/\\/x/"],
  [kind |-> "string", src |-> "\"//\"",     pat |-> Pat("Terminal", "Equals", "//"),        out |-> "\"//\""] >>
Plain == 4           \* the first four atoms are the ones sentence generation understands
CONSTANTS Rich       \* TRUE: leaves cycle through the whole table; FALSE: through the first four

Leaf == [k |-> "leaf"]
Reps == {"*", "+", "?"}
RECURSIVE E(_)
E(n) ==
  IF n = 0 THEN {Leaf}
  ELSE UNION {{[k |-> kk, es |-> <<x, y>>] : kk \in {"seq", "alt"}, x \in E(i), y \in E(n - 1 - i)} : i \in 0..(n - 1)}
       \cup UNION {UNION {{[k |-> kk, es |-> <<x, y, z>>] : kk \in {"seq", "alt"}, x \in E(i), y \in E(j), z \in E(n - 1 - i - j)} : j \in 0..(n - 1 - i)} : i \in 0..(n - 1)}
       \cup {[k |-> "opt", e |-> x] : x \in E(n - 1)}
       \cup {[k |-> "rep", r |-> r, e |-> x] : r \in Reps, x \in E(n - 1)}
       \cup {[k |-> "grp", e |-> x] : x \in E(n - 1)}

\* what a grammar author can write without parentheses: juxtaposition of terms, alternatives of juxtapositions
RECURSIVE WF(_)
WF(x) == CASE x.k = "leaf" -> TRUE
           [] x.k = "seq" -> \A i \in DOMAIN x.es : x.es[i].k \notin {"seq", "alt"} /\ WF(x.es[i])
           [] x.k = "alt" -> \A i \in DOMAIN x.es : x.es[i].k # "alt" /\ WF(x.es[i])
           [] OTHER -> WF(x.e)

RECURSIVE Label(_, _), LabelSeq(_, _, _)
NAtoms == IF Rich THEN Len(AtomTable) ELSE Plain
LabelSeq(es, j, i) == IF j > Len(es) THEN [es |-> <<>>, n |-> i]
                      ELSE LET H == Label(es[j], i)  T == LabelSeq(es, j + 1, H.n) IN [es |-> <<H.e>> \o T.es, n |-> T.n]
Label(x, i) ==
  CASE x.k = "leaf" -> [e |-> [k |-> "atom", a |-> (i % NAtoms) + 1], n |-> i + 1]
    [] x.k \in {"seq", "alt"} -> (LET L == LabelSeq(x.es, 1, i) IN [e |-> [x EXCEPT !.es = L.es], n |-> L.n])
    [] OTHER -> (LET X == Label(x.e, i) IN [e |-> [x EXCEPT !.e = X.e], n |-> X.n])
\* the leaf numbering starts at a different atom for every skeleton so that every atom meets every position
Exprs == {Label(s, 0).e : s \in {x \in E(N) : WF(x)}}
ExprsFrom(off) == {Label(s, off).e : s \in {x \in E(N) : WF(x)}}

RECURSIVE JoinS(_, _)
JoinS(ss, sep) == IF Len(ss) = 0 THEN "" ELSE IF Len(ss) = 1 THEN ss[1] ELSE ss[1] \o sep \o JoinS(Tail(ss), sep)

\* ---- the text of a right-hand side
RECURSIVE Src(_)
Src(x) == CASE x.k = "atom" -> AtomTable[x.a].src
            [] x.k = "lit" -> x.src
            [] x.k = "seq" -> JoinS([i \in DOMAIN x.es |-> Src(x.es[i])], " ")
            [] x.k = "alt" -> JoinS([i \in DOMAIN x.es |-> Src(x.es[i])], " | ")
            [] x.k = "opt" -> "[" \o Src(x.e) \o "]"
            [] x.k = "rep" -> "(" \o Src(x.e) \o ")" \o x.r
            [] x.k = "grp" -> "(" \o Src(x.e) \o ")"

\* ---- the tuple tree of the meta-parse (gram.lark; expr, terms_or, terms and term unwrap a single child)
RECURSIVE Tup(_)
Tup(x) == CASE x.k = "atom" -> <<AtomTable[x.a].kind, AtomTable[x.a].src>>
            [] x.k = "lit" -> <<x.kind, x.src>>
            [] x.k = "seq" -> <<"terms", [i \in DOMAIN x.es |-> Tup(x.es[i])]>>
            [] x.k = "alt" -> <<"terms_or", [i \in DOMAIN x.es |-> Tup(x.es[i])]>>
            [] x.k = "opt" -> <<"expr_opt", <<Tup(x.e)>>>>
            [] x.k = "rep" -> <<"expr_rep", <<Tup(x.e), <<"repeat", x.r>>>>>>
            [] x.k = "grp" -> <<"expr_rep", <<Tup(x.e), <<"__empty__", "">>>>>>

\* ---- the pattern structure (Patterns(entries, op, rep))
Grp(op, rep, es) == [t |-> "grp", op |-> op, rep |-> rep, es |-> es]
RECURSIVE M(_)
M(x) == CASE x.k = "atom" -> AtomTable[x.a].pat
          [] x.k = "lit" -> x.pat
          [] x.k = "seq" -> Grp("And", "off", [i \in DOMAIN x.es |-> M(x.es[i])])
          [] x.k = "alt" -> Grp("Or", "off", [i \in DOMAIN x.es |-> M(x.es[i])])
          [] x.k = "opt" -> Grp("And", "[]", <<M(x.e)>>)
          [] x.k = "rep" -> Grp("And", x.r, <<M(x.e)>>)
          [] x.k = "grp" -> Grp("And", "off", <<M(x.e)>>)

\* ---- Rules.pretty
\* a string terminal is printed between double quotes, a regular expression between slashes, verbatim
OutOf(p) == CASE p.comp = "Regexp" -> "/" \o p.e \o "/" [] p.comp = "Equals" -> "\"" \o p.e \o "\"" [] OTHER -> p.e
OutAgrees == \A j \in DOMAIN AtomTable : OutOf(AtomTable[j].pat) = AtomTable[j].out
\* A plain group with one entry can only come from a parenthesised right-hand side `( e )` (terms and terms_or
\* unwrap a single child), so the repaired printer writes the parentheses back; the printer as coded at the pinned
\* commit wrote a plain group without them wherever it stood.
RECURSIVE Pretty(_), PrettyToks(_)
Parens(m) == ParenFix /\ m.rep = "off" /\ m.op = "And" /\ Len(m.es) = 1
Pretty(m) ==
  IF m.t = "pat" THEN OutOf(m)
  ELSE LET body == JoinS([i \in DOMAIN m.es |-> Pretty(m.es[i])], IF m.op = "And" THEN " " ELSE " | ")
       IN CASE Parens(m) -> "(" \o body \o ")" [] m.rep = "off" -> body [] m.rep = "[]" -> "[" \o body \o "]" [] OTHER -> "(" \o body \o ")" \o m.rep
RECURSIVE JoinT(_, _)
JoinT(tss, sep) == IF Len(tss) = 0 THEN <<>> ELSE IF Len(tss) = 1 THEN tss[1] ELSE tss[1] \o sep \o JoinT(Tail(tss), sep)
PrettyToks(m) ==
  IF m.t = "pat" THEN <<[tk |-> "atom", pat |-> m]>>
  ELSE LET P(s) == <<[tk |-> s]>>
           body == JoinT([i \in DOMAIN m.es |-> PrettyToks(m.es[i])], IF m.op = "And" THEN <<>> ELSE P("|"))
       IN CASE Parens(m) -> P("(") \o body \o P(")") [] m.rep = "off" -> body [] m.rep = "[]" -> P("[") \o body \o P("]") [] OTHER -> P("(") \o body \o P(")") \o P(m.rep)

\* ---- meta-parse ; from_ast on a token sequence (recursive descent on gram.lark)
RECURSIVE PExpr(_, _), PTerms(_, _, _), PTerm(_, _), PAlts(_, _, _)
Tk(ts, i) == IF i <= Len(ts) THEN ts[i].tk ELSE "eof"
PTerm(ts, i) ==
  CASE Tk(ts, i) = "atom" -> [m |-> ts[i].pat, i |-> i + 1]
    [] Tk(ts, i) = "[" -> (LET X == PExpr(ts, i + 1) IN [m |-> Grp("And", "[]", <<X.m>>), i |-> X.i + 1])
    [] Tk(ts, i) = "(" -> (LET X == PExpr(ts, i + 1) IN
                           IF Tk(ts, X.i + 1) \in Reps THEN [m |-> Grp("And", Tk(ts, X.i + 1), <<X.m>>), i |-> X.i + 2]
                           ELSE [m |-> Grp("And", "off", <<X.m>>), i |-> X.i + 1])
PTerms(ts, i, acc) ==
  IF Tk(ts, i) \in {"|", ")", "]", "eof"} THEN [m |-> IF Len(acc) = 1 THEN acc[1] ELSE Grp("And", "off", acc), i |-> i]
  ELSE LET X == PTerm(ts, i) IN PTerms(ts, X.i, Append(acc, X.m))
PAlts(ts, i, acc) ==
  LET X == PTerms(ts, i, <<>>)  acc2 == Append(acc, X.m) IN
  IF Tk(ts, X.i) = "|" THEN PAlts(ts, X.i + 1, acc2)
  ELSE [m |-> IF Len(acc2) = 1 THEN acc2[1] ELSE Grp("Or", "off", acc2), i |-> X.i]
PExpr(ts, i) == PAlts(ts, i, <<>>)
Parse(ts) == PExpr(ts, 1).m

\* ---- pattern structure up to redundant grouping: one-entry plain groups vanish, plain groups dissolve in a parent of the same operator
RECURSIVE Norm(_), NormSeq(_, _)
NormSeq(es, op) ==
  IF es = <<>> THEN <<>>
  ELSE LET h == Norm(Head(es)) IN
       (IF h.t = "grp" /\ h.rep = "off" /\ h.op = op THEN h.es ELSE <<h>>) \o NormSeq(Tail(es), op)
Norm(m) ==
  IF m.t = "pat" THEN m
  ELSE LET es == NormSeq(m.es, m.op) IN
       IF m.rep = "off" /\ Len(es) = 1 THEN es[1]
       ELSE IF Len(es) = 1 /\ es[1].t = "grp" /\ es[1].rep = "off" THEN [m EXCEPT !.es = es[1].es, !.op = es[1].op]   \* ( (a | b) )* = (a | b)*
       ELSE [m EXCEPT !.es = es]

\* ---- laws
ParseOfSrcToks(x) == Parse(PrettyToks(M(x)))
\* RoundTrip is exact equality of pattern structures; RoundTripNorm is equality up to redundant grouping - which is
\* weaker than it looks: `s := ("k")` and `s := "k"` are Norm-equal but the engine builds ('s', []) for the first and
\* the token ('s', 'k') for the second (spec/GramEngine.tla), so only the exact law preserves trees.
RoundTrip == \A x \in Exprs : Parse(PrettyToks(M(x))) = M(x)
RoundTripNorm == \A x \in Exprs : Norm(Parse(PrettyToks(M(x)))) = Norm(M(x))
\* printing is idempotent from the second generation on: pretty(parse(pretty(m))) = pretty(m)
PrettyStable == \A x \in Exprs : Pretty(Parse(PrettyToks(M(x)))) = Pretty(M(x))
RoundTripCounterexamples == {Src(x) : x \in {y \in Exprs : Norm(Parse(PrettyToks(M(y)))) # Norm(M(y))}}
ExactCounterexamples == {Src(x) : x \in {y \in Exprs : Parse(PrettyToks(M(y))) # M(y)}}

\* ---- data/syntax/gram.lark itself, written in this module's terms
Sym(n) == [k |-> "lit", kind |-> "symbol", src |-> n, pat |-> Pat("Symbol", "NoComp", n)]
Str(spelled, e) == [k |-> "lit", kind |-> "string", src |-> "\"" \o spelled \o "\"", pat |-> Pat("Terminal", "Equals", e)]
Rx(body) == [k |-> "lit", kind |-> "regexp", src |-> "/" \o body \o "/", pat |-> Pat("Terminal", "Regexp", body)]
SeqE(es) == [k |-> "seq", es |-> es]
AltE(es) == [k |-> "alt", es |-> es]
OptE(e) == [k |-> "opt", e |-> e]
RepE(e, r) == [k |-> "rep", r |-> r, e |-> e]
Rule(n, u, e) == [name |-> n, unwrap |-> u, e |-> e]
GramLark == <<
  Rule("entry", "", RepE(Sym("rule"), "+")),
  Rule("rule", "", SeqE(<<Sym("symbol"), OptE(SeqE(<<Str("[", "["), Sym("unwrap"), Str("]", "]")>>)), Str(":=", ":="), Sym("expr"), Str("\\n", "\n")>>)),
  Rule("expr", "1", Sym("terms_or")),
  Rule("terms_or", "1", SeqE(<<Sym("terms"), RepE(SeqE(<<Str("|", "|"), Sym("terms")>>), "*")>>)),
  Rule("terms", "1", RepE(Sym("term"), "+")),
  Rule("term", "1", AltE(<<Sym("symbol"), Sym("string"), Sym("regexp"), Sym("expr_opt"), Sym("expr_rep")>>)),
  Rule("expr_opt", "", SeqE(<<Str("[", "["), Sym("expr"), Str("]", "]")>>)),
  Rule("expr_rep", "", SeqE(<<Str("(", "("), Sym("expr"), Str(")", ")"), OptE(Sym("repeat"))>>)),
  Rule("symbol", "", Rx("[a-zA-Z_]\\w*")),
  Rule("string", "", Rx("\"[^\"]+\"")),
  Rule("regexp", "", Rx("[\\/].+[\\/]")),
  Rule("repeat", "", Rx("[*+?]")),
  Rule("unwrap", "", Rx("[1*]")) >>
RuleSrc(r) == r.name \o (IF r.unwrap = "" THEN "" ELSE "[" \o r.unwrap \o "]") \o " := " \o Src(r.e)
RuleTup(r) == <<"rule", <<<<"symbol", r.name>>, IF r.unwrap = "" THEN <<"__empty__", "">> ELSE <<"unwrap", r.unwrap>>, Tup(r.e)>>>>
RuleKey(r) == IF r.unwrap = "" THEN r.name ELSE r.name \o "[" \o r.unwrap \o "]"
EmitGramLark == \A i \in DOMAIN GramLark : PrintT("GRAMRULE " \o ToJson([i |-> i, src |-> RuleSrc(GramLark[i]), tup |-> RuleTup(GramLark[i]), key |-> RuleKey(GramLark[i]), model |-> M(GramLark[i].e)]))
GramLarkRoundTrips == \A i \in DOMAIN GramLark : Parse(PrettyToks(M(GramLark[i].e))) = M(GramLark[i].e)

Unwraps == <<"", "[1]", "[*]">>
Case(x, id) == [id |-> id, src |-> Src(x), tup |-> Tup(x), model |-> M(x), pretty |-> Pretty(M(x)),
                norm |-> Norm(M(x)), reparsed |-> Parse(PrettyToks(M(x)))]
Offsets == IF Rich THEN {0, 3, 6, 9, 12} ELSE {0, 1}
Emit == \A off \in Offsets : \A x \in ExprsFrom(off) : PrintT("CASE " \o ToJson(Case(x, off)))
RoundTripAll == \A off \in Offsets : \A x \in ExprsFrom(off) : Parse(PrettyToks(M(x))) = M(x)
RoundTripNormAll == \A off \in Offsets : \A x \in ExprsFrom(off) : Norm(Parse(PrettyToks(M(x)))) = Norm(M(x))
PrettyStableAll == \A off \in Offsets : \A x \in ExprsFrom(off) : Pretty(Parse(PrettyToks(M(x)))) = Pretty(M(x))
=============================================================================
