CONSTANTS
  RegexMatch <- DataRegexMatch
