CONSTANTS
  Mods <- PairMods
  Imports <- PairImports
  Targets <- PairTargets
  Variants <- V124
  BodyOf <- Body124
  MaxOps = 5
  MaxT = 2
  AstHash = TRUE
  MaxTorn = 1
  TransitiveKey = FALSE
  DeepHeader = FALSE
  StoreGated = TRUE
  WithCache = TRUE
  WithOutputs = FALSE
INIT Init
NEXT Next
VIEW View
CONSTRAINT Bounded
ACTION_CONSTRAINT Emit
CHECK_DEADLOCK FALSE
