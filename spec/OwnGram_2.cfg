CONSTANTS
  N = 2
  Offsets = {0, 5, 11, 16, 22, 27}
