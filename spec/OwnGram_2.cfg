CONSTANTS
  N = 2
