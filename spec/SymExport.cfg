CONSTANTS
  MaxDepth = 2
  MaxWidth = 2
  ViaFree = FALSE
