"""Verdicts, known findings, evidence and replay files shared by all checks.

Exit codes: 0 property held on everything explored (KNOWN-FINDING lines allowed), 1 VIOLATION, 2 machinery failure.
"""
import json
import os
import sys
import time
import traceback

VERIF = os.path.dirname(os.path.dirname(os.path.abspath(__file__)))
EVIDENCE_DIR = os.path.join(VERIF, 'evidence')
REPLAY_DIR = os.path.join(VERIF, 'replays')
KNOWN_FILE = os.path.join(VERIF, 'known_findings.json')


class Machinery(Exception):
	"""The checking machinery itself failed or disagrees with an independent oracle (exit 2)"""


class Violation:
	def __init__(self, key: str, clause: str, detail: str, replay: dict | None = None) -> None:
		self.key = key  # specific input / call site / history: what known_findings.json matches on
		self.clause = clause  # the failing invariant / compared field
		self.detail = detail
		self.replay = replay or {}

	def to_json(self) -> dict:
		return {'key': self.key, 'clause': self.clause, 'detail': self.detail, 'replay': self.replay}


class Ctx:
	def __init__(self, prop: str, tier: str, seed: int, replay: str | None = None) -> None:
		self.prop = prop
		self.tier = tier
		self.seed = seed
		self.replay = replay
		self.begin = time.time()
		self.notes: list[str] = []

	@property
	def quick(self) -> bool:
		return self.tier == 'quick'

	def log(self, msg: str) -> None:
		print(f'[{self.prop} {time.time() - self.begin:6.1f}s] {msg}', flush=True)


def load_known(prop: str) -> dict[str, dict]:
	if not os.path.exists(KNOWN_FILE):
		return {}
	with open(KNOWN_FILE) as f:
		data = json.load(f)
	return {e['key']: e for e in data.get('findings', []) if e['property'] == prop}


def finish(ctx: Ctx, level: str, coverage: dict, violations: list[Violation], assumptions: list[str]) -> int:
	"""Write evidence + replay files, print verdict lines, return the exit code."""
	known = load_known(ctx.prop)
	unknown = [v for v in violations if v.key not in known]
	seen_known: dict[str, list[Violation]] = {}
	for v in violations:
		if v.key in known:
			seen_known.setdefault(v.key, []).append(v)

	os.makedirs(EVIDENCE_DIR, exist_ok=True)
	os.makedirs(REPLAY_DIR, exist_ok=True)
	for key, vs in seen_known.items():
		print(f'KNOWN-FINDING: property={ctx.prop} {key}: {known[key]["what"]} ({len(vs)} occurrence(s) this run)')
	# a listed finding that no longer reproduces is reported as information, never suppressed silently
	for key in known:
		if key not in seen_known and known[key].get('tiers', ['quick', 'thorough']).count(ctx.tier):
			print(f'NOTE: listed finding not reproduced this run: property={ctx.prop} {key}')

	replay_paths = []
	by_key: dict[str, list[Violation]] = {}
	for v in unknown:
		by_key.setdefault(v.key, []).append(v)
	for index, (key, vs) in enumerate(sorted(by_key.items())):
		path = os.path.join(REPLAY_DIR, f'{ctx.prop}-{ctx.tier}-{index}.json')
		with open(path, 'w') as f:
			json.dump({'property': ctx.prop, 'key': key, 'tier': ctx.tier, 'seed': ctx.seed, 'violations': [v.to_json() for v in vs[:20]], 'count': len(vs)}, f, indent=1, default=str)
		replay_paths.append(path)
		print(f'  clause={vs[0].clause} key={key} detail={vs[0].detail[:300]}')
		print(f'VIOLATION property={ctx.prop} replay={path}')

	coverage = dict(coverage)
	coverage.setdefault('known_findings_reproduced', sorted(seen_known))
	evidence = {
		'property_id': ctx.prop,
		'tier': ctx.tier,
		'seed': ctx.seed,
		'level': level,
		'coverage': coverage,
		'assumptions': assumptions,
		'wall_s': round(time.time() - ctx.begin, 2),
		'violations': len(unknown),
	}
	with open(os.path.join(EVIDENCE_DIR, f'{ctx.prop}.json'), 'w') as f:
		json.dump(evidence, f, indent=1, default=str)
		f.write('\n')
	if unknown:
		return 1
	print(f'OK property={ctx.prop} tier={ctx.tier} wall={evidence["wall_s"]}s')
	return 0


def main(run_fn, prop: str) -> None:
	import argparse
	parser = argparse.ArgumentParser()
	parser.add_argument('--tier', default=os.environ.get('VERIF_TIER', 'quick'), choices=['quick', 'thorough'])
	parser.add_argument('--replay', default=None)
	args = parser.parse_args(sys.argv[2:] if len(sys.argv) > 1 and sys.argv[1].upper() == prop else None)
	seed = int(os.environ.get('VERIF_SEED', '0') or 0)
	ctx = Ctx(prop, args.tier, seed, args.replay)
	# every scratch directory of this run - also those of pool workers, whose exit handlers never run - lives under one
	# parent that the main process removes when the check ends
	import shutil
	import tempfile
	run_base = tempfile.mkdtemp(prefix=f'verif-run-{prop}-', dir=os.environ.get('VERIF_SCRATCH_ROOT', '/var/tmp'))
	os.environ['VERIF_SCRATCH_BASE'] = run_base
	try:
		code = run_fn(ctx)
	except Machinery as e:
		print(f'MACHINERY-FAILURE property={prop}: {e}')
		code = 2
	except Exception:
		traceback.print_exc()
		print(f'MACHINERY-FAILURE property={prop}: unexpected exception in the harness')
		code = 2
	sys.stdout.flush()
	try:
		os.chdir('/')
	except OSError:
		pass
	shutil.rmtree(run_base, ignore_errors=True)
	sys.exit(code)
