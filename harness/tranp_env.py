"""Build a tranp App in a private scratch directory.

Rules (DESIGN section 0/2): cwd is a scratch directory under /var/tmp/verif-*; grammar / templates / i18n
are addressed with absolute paths into the repository working tree; the cache base directory is private;
/repo/.cache is never touched.
"""
import atexit
import os
import shutil
import sys
import tempfile

from harness import compat  # noqa: F401  (must precede any tranp import)

REPO = compat.REPO
_scratches: list[str] = []


def scratch_dir(prefix: str = 'verif-') -> str:
	base = os.environ.get('VERIF_SCRATCH_BASE', '/var/tmp')
	path = tempfile.mkdtemp(prefix=prefix, dir=base)
	_scratches.append(path)
	return path


def _cleanup() -> None:
	for path in _scratches:
		shutil.rmtree(path, ignore_errors=True)


atexit.register(_cleanup)


def enter_scratch(prefix: str = 'verif-') -> str:
	path = scratch_dir(prefix)
	os.chdir(path)
	return path


class MemSources:
	"""SourceProvider over an in-memory dict with fallback to the real source loader"""

	def __init__(self, org, sources: dict[str, str]) -> None:
		self.org = org
		self.sources = sources

	def __call__(self, module_path: str) -> str:
		if module_path in self.sources:
			src = self.sources[module_path]
			return src if src.endswith('\n') else f'{src}\n'
		return self.org(module_path)


def transpiler_definitions(cache_dir: str | None, cache_enabled: bool = True, sources: dict[str, str] | None = None, module_paths: list[str] | None = None, env: dict | None = None) -> dict:
	"""Definitions for an App that can parse, resolve and transpile (Py2Cpp with the real templates)."""
	from rogw.tranp.cache.cache import CacheSetting
	from rogw.tranp.i18n.i18n import I18n, TranslationMapping
	from rogw.tranp.implements.cpp.providers.i18n import translation_mapping_cpp
	from rogw.tranp.implements.cpp.providers.view import renderer_helper_provider_cpp
	from rogw.tranp.implements.cpp.transpiler.py2cpp import Py2Cpp
	from rogw.tranp.lang.annotation import injectable
	from rogw.tranp.lang.locator import Invoker
	from rogw.tranp.lang.middleware import Middleware
	from rogw.tranp.lang.module import to_fullyname
	from rogw.tranp.module.types import ModulePath, ModulePaths
	from rogw.tranp.providers.syntax.ast import source_provider
	from rogw.tranp.syntax.ast.parser import ParserSetting, SourceProvider
	from rogw.tranp.transpiler.types import ITranspiler, TranspilerOptions
	from rogw.tranp.view.render import Renderer, RendererEmitter, RendererHelperProvider, RendererSetting
	from rogw.tranp.file.loader import IDataLoader
	from rogw.tranp.app.env import DataEnvPath

	def make_renderer_setting(i18n: I18n, emitter: RendererEmitter) -> RendererSetting:
		template_dirs = [os.path.join(REPO, 'data/cpp/template')]
		view_env = {'immutable_param_types': ['std::string', 'std::vector', 'std::map', 'std::function']}
		return RendererSetting(template_dirs, i18n.t, emitter, view_env)

	def make_translation(datums: IDataLoader) -> TranslationMapping:
		return translation_mapping_cpp(datums)

	mem = sources if sources is not None else {}

	@injectable
	def make_source_provider(invoker: Invoker) -> SourceProvider:
		return MemSources(invoker(source_provider), mem)

	from rogw.tranp.data.meta.types import ModuleMetaFactory
	from rogw.tranp.providers.module import module_meta_factory
	import hashlib

	from rogw.tranp.file.loader import ISourceLoader
	from rogw.tranp.lang.module import module_path_to_filepath

	@injectable
	def make_meta_factory(sources_loader: ISourceLoader) -> ModuleMetaFactory:
		def handler(module_path: str):
			if module_path in mem:
				return {'hash': hashlib.md5(mem[module_path].encode('utf-8')).hexdigest(), 'path': module_path}
			return {'hash': sources_loader.hash(module_path_to_filepath(module_path, '.py')), 'path': module_path}

		return handler

	defs = {
		to_fullyname(ModuleMetaFactory): make_meta_factory,
		to_fullyname(DataEnvPath): lambda: DataEnvPath([REPO, os.getcwd()]),
		to_fullyname(ITranspiler): Py2Cpp,
		to_fullyname(Py2Cpp): Py2Cpp,
		to_fullyname(ParserSetting): lambda: ParserSetting(grammar=os.path.join(REPO, 'data/grammar.lark')),
		to_fullyname(Renderer): Renderer,
		to_fullyname(RendererEmitter): Middleware,
		to_fullyname(RendererHelperProvider): renderer_helper_provider_cpp,
		to_fullyname(RendererSetting): make_renderer_setting,
		to_fullyname(TranslationMapping): make_translation,
		to_fullyname(TranspilerOptions): lambda: TranspilerOptions(verbose=False, env=env or {}),
		to_fullyname(SourceProvider): make_source_provider,
		to_fullyname(ModulePaths): lambda: ModulePaths([ModulePath(p, language='py') for p in (module_paths or ['__main__'])]),
	}
	if cache_dir is not None:
		defs[to_fullyname(CacheSetting)] = lambda: CacheSetting(basedir=cache_dir, enabled=cache_enabled)
	return defs


class Env:
	"""One tranp application instance (one 'process' in the spec's terms) with in-memory sources."""

	def __init__(self, sources: dict[str, str] | None = None, cache_dir: str | None = None, cache_enabled: bool = True, extra: dict | None = None, module_paths: list[str] | None = None, env: dict | None = None) -> None:
		from rogw.tranp.app.app import App
		self.sources = sources if sources is not None else {}
		if cache_dir is None:
			cache_dir = os.path.join(os.getcwd(), '.cache-verif')
		self.cache_dir = cache_dir
		defs = transpiler_definitions(cache_dir, cache_enabled, self.sources, module_paths, env)
		defs.update(extra or {})
		self.app = App(defs)

	def get(self, symbol):
		return self.app.resolve(symbol)

	@property
	def modules(self):
		from rogw.tranp.module.modules import Modules
		return self.get(Modules)

	@property
	def transpiler(self):
		from rogw.tranp.transpiler.types import ITranspiler
		return self.get(ITranspiler)

	@property
	def reflections(self):
		from rogw.tranp.semantics.reflections import Reflections
		return self.get(Reflections)

	def load(self, module_path: str = '__main__'):
		return self.modules.load(module_path)

	def reload_main(self, source: str, module_path: str = '__main__'):
		self.sources[module_path] = source
		self.modules.unload(module_path)
		return self.modules.load(module_path)

	def transpile(self, module_path: str = '__main__') -> str:
		return self.transpiler.transpile(self.modules.load(module_path).entrypoint)

	def transpile_source(self, source: str, module_path: str = '__main__') -> str:
		module = self.reload_main(source, module_path)
		return self.transpiler.transpile(module.entrypoint)


if __name__ == '__main__':
	enter_scratch()
	env = Env()
	print(env.transpile_source(sys.stdin.read()))
