"""Run TLC (explore / edge stream / simulate / evaluate / validate) and parse its statistics."""
import json
import os
import re
import shutil
import subprocess
import time

VERIF = os.path.dirname(os.path.dirname(os.path.abspath(__file__)))
SPEC_DIR = os.path.join(VERIF, 'spec')
JAR = '/opt/veriftools/tla/tla2tools.jar'
COMMUNITY = '/opt/veriftools/tla/CommunityModules-deps.jar'


class TLCFailure(Exception):
	"""Machinery failure (exit 2), never a property verdict"""


class TLCResult:
	def __init__(self, out: str, rc: int, wall: float) -> None:
		self.out = out
		self.rc = rc
		self.wall = wall
		m = re.search(r'(\d+) states generated, (\d+) distinct states found, (\d+) states left on queue', out)
		self.generated = int(m.group(1)) if m else 0
		self.distinct = int(m.group(2)) if m else 0
		self.left = int(m.group(3)) if m else 0
		if not m:
			m2 = re.search(r'generated (\d+) states', out)
			if m2:
				self.generated = int(m2.group(1))
		md = re.search(r'The depth of the complete state graph search is (\d+)', out)
		self.depth = int(md.group(1)) if md else 0
		self.invariant_violated = re.findall(r'Error: Invariant (\S+) is violated', out)
		self.action_property_violated = re.findall(r'Error: Action property (\S+) is violated', out)
		self.ok = rc == 0 and 'Model checking completed. No error has been found.' in out or (rc == 0 and 'Error:' not in out)

	def lines(self, prefix: str) -> list[str]:
		"""PrintT output lines that start with `prefix` (TLC prints strings in quotes)"""
		res = []
		for line in self.out.splitlines():
			line = line.strip()
			if line.startswith('"') and line.endswith('"'):
				line = _unquote(line)
			if line.startswith(prefix):
				res.append(line[len(prefix):])
		return res

	def coverage(self) -> dict[str, int]:
		"""action name -> number of distinct states / taken count from -coverage output"""
		cov: dict[str, int] = {}
		for m in re.finditer(r'<(\w+) line \d+, col \d+ to line \d+, col \d+ of module (\w+)>: (\d+):(\d+)', self.out):
			cov[m.group(1)] = max(cov.get(m.group(1), 0), int(m.group(4)))
		return cov


def _unquote(s: str) -> str:
	body = s[1:-1]
	return re.sub(r'\\(.)', r'\1', body)


def run(module: str, cfg: str, *, _attempt: int = 0, workers: int | str = 'auto', mode: str = 'bfs', simulate: str = '', depth: int = 0, seed: int | None = None, env: dict | None = None, timeout: int = 600, metadir: str | None = None, coverage: bool = False, deadlock: bool = True, extra: list[str] | None = None, dfs_queue: bool = False, heap: str = '4g', cwd: str | None = None) -> TLCResult:
	"""Run TLC on spec/<module>.tla with spec/<cfg>. Raises TLCFailure on crash/timeout/parse errors."""
	own_meta = metadir is None
	if own_meta:
		import tempfile
		metadir = tempfile.mkdtemp(prefix='verif-tlc-', dir=os.environ.get('VERIF_SCRATCH_BASE', '/var/tmp'))
	java_opts = [f'-Xmx{heap}', '-Xss512m', '-XX:+UseParallelGC', f'-DTLA-Library={SPEC_DIR}']
	if dfs_queue:
		java_opts.append('-Dtlc2.tool.queue.IStateQueue=StateDeque')
	cmd = ['java', *java_opts, '-cp', f'{JAR}:{COMMUNITY}', 'tlc2.TLC', '-metadir', metadir, '-noGenerateSpecTE', '-config', cfg, '-workers', str(workers)]
	if not deadlock:
		cmd.append('-deadlock')
	if coverage:
		cmd += ['-coverage', '1']
	if mode == 'simulate':
		cmd += ['-simulate', simulate]
		if depth:
			cmd += ['-depth', str(depth)]
	if seed is not None:
		cmd += ['-seed', str(seed)]
	cmd += extra or []
	cmd.append(module)
	full_env = dict(os.environ)
	full_env.update(env or {})
	full_env.pop('JAVA_TOOL_OPTIONS', None)
	begin = time.time()
	try:
		proc = subprocess.run(cmd, cwd=cwd or SPEC_DIR, env=full_env, stdout=subprocess.PIPE, stderr=subprocess.STDOUT, timeout=timeout, text=True)
	except subprocess.TimeoutExpired as e:
		raise TLCFailure(f'TLC timed out after {timeout}s: {module} {cfg}') from e
	finally:
		if own_meta:
			shutil.rmtree(metadir, ignore_errors=True)
	# a race inside TLC's disk state queue (lazily evaluated function values written by several workers) shows up
	# once in a while as an internal error: that is the tool, not the model - run again, the last time with one worker
	if _attempt < 2 and ('Error: when writing the disk' in proc.stdout or '"this.fcnRcd" is null' in proc.stdout):
		return run(module, cfg, _attempt=_attempt + 1, workers=workers if _attempt == 0 else 1, mode=mode, simulate=simulate, depth=depth, seed=seed, env=env, timeout=timeout, metadir=None, coverage=coverage, deadlock=deadlock, extra=extra, dfs_queue=dfs_queue, heap=heap, cwd=cwd)
	res = TLCResult(proc.stdout, proc.returncode, time.time() - begin)
	# rc: 0 ok, 10 assumption, 11 deadlock, 12 safety violation, 13 liveness; >= 75 or 1 errors in spec/tool
	if proc.returncode not in (0, 10, 11, 12, 13):
		raise TLCFailure(f'TLC failed rc={proc.returncode}: {module} {cfg}\n{proc.stdout[-3000:]}')
	return res


def has_community() -> bool:
	return os.path.exists(COMMUNITY)


def dump_json(path: str, data) -> None:
	with open(path, 'w') as f:
		json.dump(data, f)
