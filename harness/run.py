"""Entry point: ./check <ID> [--tier …] [--replay …]"""
import importlib
import sys

from harness import core


def main() -> None:
	if len(sys.argv) < 2:
		print('usage: ./check <ID> [--tier quick|thorough] [--replay path]')
		sys.exit(2)
	prop = sys.argv[1].upper()
	try:
		mod = importlib.import_module(f'harness.checks.{prop.lower()}')
	except ModuleNotFoundError as e:
		print(f'MACHINERY-FAILURE property={prop}: no check module ({e})')
		sys.exit(2)
	core.main(mod.run, prop)


if __name__ == '__main__':
	main()
