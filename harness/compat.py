"""Harness-side compatibility shim: rog-works/tranp targets Python 3.13, the pinned interpreter is 3.12.

Adds nothing but two names:
  * typing.TypeIs (3.13) <- typing_extensions.TypeIs
  * property.__name__ (3.13) on the properties of implements.syntax.tranp.rule.Rules

Import this module (harness.compat) *before* anything from rogw.tranp; call `patch_rules()` after
rule.py is importable to make the self-hosted parser usable.
"""
import os
import sys
import typing

REPO = os.environ.get('TRANP_REPO', '/repo')

if REPO not in sys.path:
	sys.path.insert(0, REPO)

if not hasattr(typing, 'TypeIs'):
	try:
		import typing_extensions
		typing.TypeIs = typing_extensions.TypeIs  # type: ignore
	except ImportError:  # pragma: no cover
		typing.TypeIs = typing.TypeGuard  # type: ignore


class _NamedProperty(property):
	"""property exposing __name__ as Python 3.13 does"""

	@property
	def __name__(self) -> str:  # type: ignore
		return self.fget.__name__ if self.fget else ''


_patched = False


def patch_rules() -> None:
	global _patched
	if _patched or sys.version_info >= (3, 13):
		return
	from rogw.tranp.implements.syntax.tranp import rule
	for cls in (rule.Rules,):
		for name, value in list(vars(cls).items()):
			if isinstance(value, property) and not isinstance(value, _NamedProperty):
				setattr(cls, name, _NamedProperty(value.fget, value.fset, value.fdel, value.__doc__))
	_patched = True
