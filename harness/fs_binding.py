"""Binding of spec/Tranp.tla to the real file-processing behaviour of tranp.

A `World` is a scratch directory with generated modules (vm/*.py), a config.yml for the real command-line
runner, a private cache directory and an output directory. Spec operations (edit / run / clear / truncate /
delete) are executed on it; after each step the projection of the directory tree is compared with the spec
state: output files (header hash + body text, decoded to the spec's derivation vectors through cold runs),
cache files (presence, stability of the opaque key per module and kind, damage).
"""
import glob
import hashlib
import json
import os
import shutil
import sys
import textwrap

from harness import compat  # noqa: F401
from harness.tranp_env import REPO

# --- generated module families ---------------------------------------------------------------------------------

LEAF = {1: 'def make() -> int:\n\treturn 1\n', 2: "def make() -> str:\n\treturn 'x'\n", 4: 'def make() -> float:\n\treturn 1.5\n'}


# file stems of the abstract modules: every dotted path is a substring of the paths listed before it in the target order
# (vm.n in vm.n1 in vm.n10 in vm.n100), so that nothing in the code under test may select a module by partial path match
STEM = {'a': 'n10', 'b': 'n1', 'c': 'n', 'd': 'n100'}
UNSTEM = {v: k for k, v in STEM.items()}
# the twins graph: three files with ONE base name in different packages (vm/n.py imports vm/p/n.py and vm/q/n.py)
# the chain graph: every dotted path is a substring of the one listed before it, and the first one also ENDS with the second
# (vm.p.vm.n1 / vm.n1 / vm.n): nothing may select a module by a partial match of its path, from either end
# the long pair graph (the pair graph of C06): the top module lies deep in a package tree - its dotted path alone is longer than a short read buffer
GRAPH_STEM = {'Twins': {'a': 'n', 'b': 'p.n', 'c': 'q.n'}, 'Chain': {'a': 'p.vm.n1', 'b': 'n1', 'c': 'n'},
	'PairLong': {'b': 'systems.physics.collision.broadphase.spatial_hash_grid_builder_module', 'c': 'n'}}


def stem_of(graph: str, m: str) -> str:
	"""dotted path of module m below vm"""
	return GRAPH_STEM.get(graph, STEM).get(m, m)


def unstem(graph: str, dotted: str) -> str:
	table = GRAPH_STEM.get(graph, STEM)
	return {v: k for k, v in table.items()}[dotted]

BODY_CLASS = {1: 1, 2: 2, 3: 1, 4: 4, 5: 5}  # variant 3 = variant 1 with a different layout (same emitted text, other file hash)


def source_of(graph: str, m: str, v: int) -> str:
	import re
	return re.sub(r'\bvm\.([abcd])\b', lambda mm: f'vm.{stem_of(graph, mm.group(1))}', _source_of(graph, m, v))


def _source_of(graph: str, m: str, v: int) -> str:
	if graph == 'PairLong':
		graph = 'Pair'
	if v == 3:
		text = _source_of(graph, m, 1)
		# layout-only edit: a blank line before the last statement / definition and one at the end
		head, sep, last = text.rstrip('\n').rpartition('\n\n') if '\n\n' in text.rstrip('\n') else ('', '', text.rstrip('\n'))
		return (f'{head}\n\n\n{last}\n\n' if sep else f'\n{last}\n\n')
	if v == 5:
		# the module nobody imports becomes blank; the others get a comment
		return '' if m == {'Chain': 'a', 'Pair': 'b', 'Diamond': 'a', 'Twins': 'a'}[graph] else _source_of(graph, m, 1) + '# end\n'
	if graph in ('Chain', 'Pair'):
		if m == 'c':
			return LEAF[v]
		if m == 'b':
			return {1: 'from vm.c import make\n\nv = make()\n', 2: 'from vm.c import make\n\nv = [make()]\n', 4: 'from vm.c import make\n\nv = {0: make()}\n'}[v]
		return {1: 'from vm.b import v\n\nx = v\n', 2: 'from vm.b import v\n\nx = v\ny = 0\n', 4: 'from vm.b import v\n\nx = v\nz = 1.5\n'}[v]
	if graph == 'Diamond':
		if m == 'd':
			return LEAF[v]
		if m == 'b':
			return 'from vm.d import make\n\nvb = make()\n' if v == 1 else 'from vm.d import make\n\nvb = [make()]\n'
		if m == 'c':
			return 'from vm.d import make\n\nvc = make()\n' if v == 1 else 'from vm.d import make\n\nvc = [make()]\n'
		# (vm.b is imported by two statements, the second one before the import of vm.c: every import statement counts for
		# what the module depends on, also those behind a repeated one)
		head = 'from vm.b import vb\nfrom vm.b import vb as vb0\nfrom vm.c import vc\n\nx = vb\ny = vc\n'
		return head if v == 1 else head + 'z = 0\n'
	if graph == 'Twins':
		# the two leaves are written from ONE family of contents: what vm.b holds in one generation vm.c may hold in another
		if m in ('b', 'c'):
			return LEAF[v]
		return 'from vm.b import make as mb\nfrom vm.b import make as mb0\nfrom vm.c import make as mc\n\nx = mb()\ny = mc()\n' + ('' if v == 1 else 'z = 0\n')
	raise ValueError(graph)


GRAPHS = {
	'Twins': {'mods': ['a', 'b', 'c'], 'targets': ['a', 'b', 'c'], 'init': {'c': 2}},
	'Chain': {'mods': ['a', 'b', 'c'], 'targets': ['a', 'b', 'c']},
	'Pair': {'mods': ['b', 'c'], 'targets': ['b', 'c']},
	'PairLong': {'mods': ['b', 'c'], 'targets': ['b', 'c']},
	'Diamond': {'mods': ['a', 'b', 'c', 'd'], 'targets': ['d', 'a', 'c', 'b']},
}

WORLD_HELPER = textwrap.dedent('''
	import os
	from rogw.tranp.cache.cache import CacheSetting

	def cache_setting() -> CacheSetting:
		return CacheSetting(basedir=os.environ['VERIF_CACHE_DIR'], enabled=os.environ.get('VERIF_CACHE_ENABLED', '1') == '1')
''')


class World:
	def __init__(self, root: str, graph: str) -> None:
		self.root = root
		self.graph = graph
		self.mods = GRAPHS[graph]['mods']
		self.targets = GRAPHS[graph]['targets']
		self.cache_dir = os.path.join(root, 'cache')
		self.out_dir = os.path.join(root, 'out')
		self.clock = 1_700_000_000
		os.makedirs(os.path.join(root, 'vm'), exist_ok=True)
		with open(os.path.join(root, 'verif_world.py'), 'w') as f:
			f.write(WORLD_HELPER)
		config = {
			'grammar': os.path.join(REPO, 'data/grammar.lark'),
			'template_dirs': [os.path.join(REPO, 'data/cpp/template')],
			'trans_mapping': os.path.join(REPO, 'data/i18n.yml'),
			'input_globs': [f'vm/{stem_of(graph, m).replace(".", "/")}.py' for m in self.targets],
			'exclude_patterns': [],
			'output_dirs': ['out/'],
			'output_language': 'cpp:h',
			'di': {'rogw.tranp.cache.cache.CacheSetting': 'verif_world.cache_setting'},
			'env': {'transpiler': {'include_dirs': []}, 'view': {'immutable_param_types': ['std::string', 'std::vector', 'std::map', 'std::function']}},
		}
		import yaml
		with open(os.path.join(root, 'config.yml'), 'w') as f:
			yaml.safe_dump(config, f)
		for m in self.mods:
			self.edit(m, GRAPHS[graph].get('init', {}).get(m, 1))

	# -- operations ------------------------------------------------------------------------------------------
	def src_path(self, m: str) -> str:
		return os.path.join(self.root, 'vm', f'{stem_of(self.graph, m).replace(".", os.sep)}.py')

	def out_path(self, m: str) -> str:
		return os.path.join(self.out_dir, 'vm', f'{stem_of(self.graph, m).replace(".", os.sep)}.h')

	def edit(self, m: str, v: int, t: int | None = None) -> None:
		"""new content and new modification time; t = the time of the specification (1 = initial), default: one later than before"""
		os.makedirs(os.path.dirname(self.src_path(m)), exist_ok=True)
		with open(self.src_path(m), 'w') as f:
			f.write(source_of(self.graph, m, v))
		self.times = getattr(self, 'times', {})
		self.times[m] = t if t is not None else self.times.get(m, 0) + 1
		stamp = 1_700_000_000 + 10 * self.times[m]
		os.utime(self.src_path(m), (stamp, stamp))

	def swap(self, m1: str, m2: str) -> None:
		"""the contents of the two files exchanged; both get the next modification time"""
		with open(self.src_path(m1)) as f1, open(self.src_path(m2)) as f2:
			t1, t2 = f1.read(), f2.read()
		for m, text in ((m1, t2), (m2, t1)):
			with open(self.src_path(m), 'w') as f:
				f.write(text)
			self.times[m] = self.times.get(m, 0) + 1
			stamp = 1_700_000_000 + 10 * self.times[m]
			os.utime(self.src_path(m), (stamp, stamp))

	def run(self, enabled: bool, force: bool) -> str:
		"""One run of the real command-line runner = one fresh application (own loader memo, module table, DB)."""
		from rogw.tranp.app.app import App
		from rogw.tranp.bin.transpile import Args, TranspileApp
		cwd = os.getcwd()
		os.chdir(self.root)
		if self.root not in sys.path:
			sys.path.insert(0, self.root)
		sys.modules.pop('verif_world', None)
		os.environ['VERIF_CACHE_DIR'] = self.cache_dir
		os.environ['VERIF_CACHE_ENABLED'] = '1' if enabled else '0'
		argv = ['-c', 'config.yml'] + (['-f'] if force else [])
		try:
			App(TranspileApp.definitions(Args(argv))).run(TranspileApp.run)
			return 'ok'
		except Exception as e:  # any failure of the run; the class is C07's business
			self.last_error = f'{type(e).__name__}: {str(e)[:200]}'
			return 'fail'
		finally:
			os.chdir(cwd)
			if self.root in sys.path:
				sys.path.remove(self.root)

	def clear_cache(self) -> None:
		shutil.rmtree(self.cache_dir, ignore_errors=True)

	def cache_files(self, kind: str, m: str = '') -> list[str]:
		if kind == 'parser':
			return sorted(glob.glob(os.path.join(self.cache_dir, 'parser.cache-*.bin')))
		dotted = stem_of(self.graph, m)
		stem = dotted.split('.')[-1]
		files = sorted(glob.glob(os.path.join(self.cache_dir, 'vm', *dotted.split('.')[:-1], f'{stem}-*.json')))
		if kind == 'sym':
			return [f for f in files if os.path.basename(f).startswith(f'{stem}-symbols-')]
		return [f for f in files if not os.path.basename(f).startswith(f'{stem}-symbols-')]

	def truncate(self, kind: str, m: str, fraction: float = 0.5) -> None:
		files = self.cache_files(kind, m)
		if len(files) != 1:
			raise RuntimeError(f'truncate {kind} {m}: expected one file, found {files}')
		size = os.path.getsize(files[0])
		with open(files[0], 'rb') as f:
			data = f.read(max(0, min(size - 1, int(size * fraction))))
		with open(files[0], 'wb') as f:
			f.write(data)

	def delete_output(self, m: str) -> None:
		os.unlink(self.out_path(m))

	# -- projection ------------------------------------------------------------------------------------------
	def old_version_output(self, m: str) -> None:
		"""the existing output as another version of the application would have left it: same body, other version in the header"""
		path = self.out_path(m)
		with open(path) as f:
			text = f.read()
		first, _, body = text.partition('\n')
		head = json.loads(first.split('@tranp.meta: ')[1])
		head['version'] = '0.9.9'
		with open(path, 'w') as f:
			f.write('// @tranp.meta: ' + json.dumps(head, separators=(',', ':')) + '\n' + body)

	def read_output(self, m: str) -> dict | None:
		path = self.out_path(m)
		if not os.path.exists(path):
			return None
		with open(path) as f:
			text = f.read()
		first, _, body = text.partition('\n')
		header = json.loads(first.split('@tranp.meta: ')[1]) if '@tranp.meta: ' in first else None
		stat = os.stat(path)
		return {'header': header, 'body': body, 'text': text, 'mtime_ns': stat.st_mtime_ns}

	def all_files(self) -> dict[str, tuple]:
		res = {}
		for base in (self.cache_dir, self.out_dir):
			for dirpath, _, files in os.walk(base):
				for name in files:
					p = os.path.join(dirpath, name)
					st = os.stat(p)
					res[os.path.relpath(p, self.root)] = (st.st_size, st.st_mtime_ns)
		return res


def source_hash(graph: str, m: str, v: int) -> str:
	return hashlib.md5(source_of(graph, m, v).encode('utf-8')).hexdigest()


class ColdOracle:
	"""Body text of module m when every module of its closure has the given variant: computed by the real
	pipeline on in-memory sources with caching out of the way (fresh application per query), memoised."""

	def __init__(self, graph: str) -> None:
		self.graph = graph
		self.memo: dict[tuple, str] = {}

	def body(self, m: str, vector: dict[str, int]) -> str:
		key = (m, tuple(sorted(vector.items())))
		if key not in self.memo:
			from harness.tranp_env import Env
			sources = {f'vm.{stem_of(self.graph, d)}': source_of(self.graph, d, v) for d, v in vector.items()}
			import tempfile
			cold_dir = tempfile.mkdtemp(prefix='cold-cache-', dir=os.getcwd())  # cold by construction: empty directory
			try:
				env = Env(sources=sources, cache_dir=cold_dir, cache_enabled=True)
				text = env.transpile(f'vm.{stem_of(self.graph, m)}')
			finally:
				shutil.rmtree(cold_dir, ignore_errors=True)
			self.memo[key] = text.partition('\n')[2]
		return self.memo[key]
