"""Real modules of the repository used as inputs by several checks. Every entry was verified to load (parse, node tree,
symbol table) on the pinned tree; TRANSPILE_OK also goes through the C++ generator. Modules the shipped grammar cannot
parse (e.g. rogw.tranp.lang.di: PEP 695 function generics) or whose imports are outside the source tree are not inputs."""

QUICK = ['example.json', 'rogw.tranp.compatible.libralies.classes']
TRANSPILE_OK = QUICK + ['rogw.tranp.compatible.libralies.type', 'tests.unit.rogw.tranp.syntax.node.fixtures.fixture_definition', 'rogw.tranp.errors', 'rogw.tranp.lang.annotation']
LOAD_OK = TRANSPILE_OK + ['example.FW.string', 'tests.unit.rogw.tranp.implements.cpp.transpiler.fixtures.fixture_py2cpp', 'tests.unit.rogw.tranp.semantics.fixtures.fixture_reflections',
	'tests.unit.rogw.tranp.semantics.reflection.fixtures.fixture_db']
