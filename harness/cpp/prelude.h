// Trusted prelude for compiling tranp's emitted C++ in the C01 check: standard headers, a printf-style
// std::format (the emitted code targets a project runtime that provides one) and canonical value printers.
#pragma once
#include <algorithm>
#include <cmath>
#include <cstdio>
#include <functional>
#include <iostream>
#include <map>
#include <memory>
#include <sstream>
#include <stdexcept>
#include <string>
#include <tuple>
#include <vector>

namespace std {
template <typename... Args>
inline string format(const char* fmt, Args... args) {
	int size = snprintf(nullptr, 0, fmt, args...);
	string buf(size > 0 ? size : 0, '\0');
	if (size > 0) snprintf(buf.data(), size + 1, fmt, args...);
	return buf;
}
}

namespace verif {
inline std::string show(bool v) { return v ? "True" : "False"; }
inline std::string show(int v) { return std::to_string(v); }
inline std::string show(long v) { return std::to_string(v); }
inline std::string show(long long v) { return std::to_string(v); }
inline std::string show(double v) { std::ostringstream o; o.precision(12); o << v; std::string s = o.str(); if (s.find_first_of(".en") == std::string::npos) s += ".0"; return s; }
inline std::string show(const std::string& v) { return "'" + v + "'"; }
inline std::string show(const char* v) { return "'" + std::string(v) + "'"; }
template <typename T> std::string show(const std::vector<T>& v);
template <typename K, typename V> std::string show(const std::map<K, V>& v);
template <typename... Ts> std::string show(const std::tuple<Ts...>& v);
template <typename T> std::string show(const std::vector<T>& v) {
	std::string s = "[";
	for (size_t i = 0; i < v.size(); i++) { if (i) s += ", "; s += show(v[i]); }
	return s + "]";
}
template <typename... Ts> std::string show(const std::tuple<Ts...>& v) {
	std::string s = "(";
	bool first = true;
	std::apply([&](const auto&... e) { ((s += (first ? std::string() : std::string(", ")) + show(e), first = false), ...); }, v);
	return s + (sizeof...(Ts) == 1 ? ",)" : ")");
}
template <typename K, typename V> std::string show(const std::map<K, V>& v) {
	std::string s = "{";
	bool first = true;
	for (const auto& kv : v) { if (!first) s += ", "; first = false; s += show(kv.first) + ": " + show(kv.second); }
	return s + "}";
}
}
