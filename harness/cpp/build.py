"""Compile and run tranp's emitted C++ against the trusted prelude (C01)."""
import os
import subprocess

HERE = os.path.dirname(os.path.abspath(__file__))


def compile_and_run(workdir: str, header_text: str, main_body: str, name: str = 'case', timeout: int = 300, run_timeout: int = 20) -> dict:
	"""Writes <name>.h (emitted text) and <name>.cpp (prelude + header + main), compiles with clang++, runs.
	Returns {'compiled': bool, 'stderr': str, 'stdout': str, 'rc': int}"""
	os.makedirs(workdir, exist_ok=True)
	hpath = os.path.join(workdir, f'{name}.h')
	cpath = os.path.join(workdir, f'{name}.cpp')
	exe = os.path.join(workdir, name)
	with open(hpath, 'w') as f:
		f.write(header_text)
	with open(cpath, 'w') as f:
		f.write(f'#include "{os.path.join(HERE, "prelude.h")}"\n#include "{hpath}"\nint main() {{\n{main_body}\n\treturn 0;\n}}\n')
	cc = subprocess.run(['clang++', '-std=c++20', '-O0', '-w', '-o', exe, cpath], capture_output=True, text=True, timeout=timeout)
	if cc.returncode != 0:
		return {'compiled': False, 'stderr': cc.stderr[-2000:], 'stderr_full': cc.stderr, 'stdout': '', 'rc': cc.returncode}
	try:
		run = subprocess.run([exe], capture_output=True, text=True, timeout=run_timeout)
	except subprocess.TimeoutExpired as e:
		out = e.stdout.decode() if isinstance(e.stdout, bytes) else (e.stdout or '')
		try:
			os.unlink(exe)
		except OSError:
			pass
		return {'compiled': True, 'stderr': 'timeout', 'stdout': out, 'rc': -9, 'timeout': True}
	for p in (exe,):
		try:
			os.unlink(p)
		except OSError:
			pass
	return {'compiled': True, 'stderr': run.stderr[-2000:], 'stdout': run.stdout, 'rc': run.returncode}
