"""Binding of spec/GramEngine.tla (the matching engine of tranp's own parser) to SyntaxParser.

TLC evaluates the engine of the specification on every (generated grammar, unwrap marker, sentence) and prints verdict,
tree and language membership; the same grammar text goes through the real meta-parse and Rules.from_ast, and the real
SyntaxParser parses every sentence. Clauses:
  EngineSound        the real engine accepts only sentences of the grammar's language (spec: Lang)
  EngineAsSpecified  where the specification's engine accepts, the real one accepts with the same tree; where the
                     specification's engine returns, the real one returns
Informational: sentences the real engine accepts although the specification's engine rejects them (a more complete
engine is not a defect), and whether the real engine still spins where the specification says it does.
"""
import json
import signal
from concurrent.futures import ProcessPoolExecutor

from harness import compat  # noqa: F401
from harness import tlc
from harness.core import Machinery

UNWRAP_SRC = {'off': '', '1': '[1]', '*': '[*]'}


class _Timeout(Exception):
	pass


def _alarm(signum, frame):
	raise _Timeout()


def shape(t):
	"""simplify() tuple tree -> the tree vocabulary of GramEngine.tla"""
	name, body = t
	if isinstance(body, str):
		return ['tok', name, body]
	return ['tree', name, [shape(c) for c in body]]


def _replay(records: list[dict]) -> dict:
	compat.patch_rules()
	from data.syntax.gram_rules import gram_rules
	from data.syntax.gram_tokenizer import gram_tokenizer
	from rogw.tranp.errors import Errors
	from rogw.tranp.implements.syntax.tranp.rule import Rules
	from rogw.tranp.implements.syntax.tranp.syntax import SyntaxParser
	from rogw.tranp.implements.syntax.tranp.tokenizer import Tokenizer
	meta = SyntaxParser(gram_rules(), gram_tokenizer())
	signal.signal(signal.SIGALRM, _alarm)
	failures = []
	stats = {'pairs': 0, 'accepted': 0, 'rejected': 0, 'spin_pairs_sampled': 0, 'spin_confirmed': 0, 'real_more_complete': 0}
	for rec in records:
		text = f'entry := s "\\n"\ns{UNWRAP_SRC[rec["unwrap"]]} := {rec["src"]}\na := "p"\nb := /q+/\n'
		where = f'`s{UNWRAP_SRC[rec["unwrap"]]} := {rec["src"]}`'
		try:
			rules = Rules.from_ast(meta.parse(text, 'entry').simplify())
		except Exception as e:
			failures.append({'clause': 'EngineAsSpecified', 'kind': 'grammar-rejected', 'detail': f'{where}: the grammar text is rejected: {type(e).__name__}: {str(e)[:100]}', 'src': rec['src']})
			continue
		parser = SyntaxParser(rules, Tokenizer())
		spins = 0
		for r in rec['results']:
			sentence = ' '.join(r['s']) + '\n'
			if r['v'] == 'spin':
				if spins >= 1:
					continue
				spins += 1
				stats['spin_pairs_sampled'] += 1
				limit = 0.25
			else:
				limit = 3.0
			stats['pairs'] += 1
			signal.setitimer(signal.ITIMER_REAL, limit)
			try:
				got = ('accept', shape(parser.parse(sentence, 'entry').simplify()))
			except _Timeout:
				got = ('timeout', None)
			except Errors.Syntax:
				got = ('reject', None)
			except Exception as e:
				got = (f'crash:{type(e).__name__}', None)
			finally:
				signal.setitimer(signal.ITIMER_REAL, 0)
			if r['v'] == 'spin':
				stats['spin_confirmed'] += got[0] == 'timeout'
				continue
			stats['accepted' if got[0] == 'accept' else 'rejected'] += 1
			if got[0] == 'accept' and not r['inlang']:
				failures.append({'clause': 'EngineSound', 'kind': 'accepts-outside-language', 'detail': f'{where}: {sentence!r} is accepted although the grammar does not derive it (tree {got[1]})', 'src': rec['src']})
			elif r['v'] == 'accept' and got != ('accept', r['tree']):
				failures.append({'clause': 'EngineAsSpecified', 'kind': 'tree' if got[0] == 'accept' else got[0], 'detail': f'{where}: on {sentence!r} the specification\'s engine builds {r["tree"]}, the real engine answers {got[0]} {got[1] or ""}', 'src': rec['src']})
			elif got[0] not in ('accept', 'reject'):
				failures.append({'clause': 'EngineAsSpecified', 'kind': got[0], 'detail': f'{where}: on {sentence!r} the real engine does not return a verdict ({got[0]}); the specification\'s engine says {r["v"]}', 'src': rec['src']})
			elif got[0] == 'accept' and r['v'] == 'reject':
				stats['real_more_complete'] += 1
	return {'failures': failures, 'stats': stats}


def run(cfgs: list[str], timeout: int = 1500) -> tuple[list[dict], dict]:
	records, laws = [], {}
	for cfg in cfgs:
		res = tlc.run('GramEngineEmit', f'{cfg}.cfg', workers=1, timeout=timeout, heap='8g')
		if res.rc != 0:
			raise Machinery(f'GramEngine {cfg}: evaluation error: {res.out[-600:]}')
		for law in ('SOUND', 'YIELD', 'UNWRAPVERDICT'):
			if res.lines(law + ' ') != ['TRUE']:
				raise Machinery(f'GramEngine {cfg}: law {law} does not hold in the specification')
		records += [json.loads(line) for line in res.lines('ENGINE ')]
		laws[cfg] = {'universe': res.lines('UNIVERSE ')[0], 'incomplete_witnesses': len(json.loads(res.lines('INCOMPLETE ')[0])), 'spin_witnesses': len(json.loads(res.lines('SPINS ')[0])),
			'incomplete_examples': json.loads(res.lines('INCOMPLETE ')[0])[:4], 'spin_examples': json.loads(res.lines('SPINS ')[0])[:3]}
	nproc = 16
	with ProcessPoolExecutor(max_workers=nproc) as ex:
		results = list(ex.map(_replay, [records[i::nproc] for i in range(nproc)]))
	failures = [f for r in results for f in r['failures']]
	stats = {k: sum(r['stats'][k] for r in results) for k in results[0]['stats']}
	stats['grammars'] = len(records)
	stats['laws'] = laws
	return failures, stats


def run_py_gram(sentences: list[str], scratch: str, timeout: int = 1500) -> tuple[list[dict], dict]:
	"""GramEnginePy.tla: the specification's engine on the shipped py_rules() and real token lists, compared with SyntaxParser"""
	import os
	import re
	compat.patch_rules()
	from data.syntax.py_rules import py_rules
	from rogw.tranp.errors import Errors
	from rogw.tranp.implements.syntax.tranp.syntax import SyntaxParser
	from rogw.tranp.implements.syntax.tranp.tokenizer import Tokenizer
	from harness.checks.c12 import struct
	rules = py_rules()
	rs = [{'name': key.split('[')[0], 'unwrap': rules.unwrap_by(key.split('[')[0]).value, 'm': struct(rules._rules[key])} for key in rules.org_symbols()]
	tk = Tokenizer()
	sents, words = [], set()
	for i, s in enumerate(sentences):
		try:
			toks = [t.string for t in tk.parse(s)]
		except Exception:
			continue  # the tokenizer refuses the text: nothing for the engine to do
		sents.append({'id': i, 'toks': toks})
		words |= set(toks)
	regexes: set[str] = set()

	def walk(m: dict) -> None:
		if m['t'] == 'pat':
			if m['comp'] == 'Regexp':
				regexes.add(m['e'])
		else:
			for e in m['es']:
				walk(e)
	for r in rs:
		walk(r['m'])
	matches = [[e, w] for e in sorted(regexes) for w in sorted(words) if re.fullmatch(e, w)]
	os.makedirs(scratch, exist_ok=True)
	data = os.path.join(scratch, 'engine_data.json')
	with open(data, 'w') as f:
		json.dump({'rules': rs, 'matches': matches, 'sentences': sents}, f)
	res = tlc.run('GramEnginePy', 'GramEnginePy.cfg', workers=1, timeout=timeout, env={'ENGINE_DATA': data}, heap='8g')
	if res.rc != 0:
		raise Machinery(f'GramEnginePy: evaluation error: {res.out[-600:]}')
	spec = {r['id']: r for r in (json.loads(line) for line in res.lines('PYENGINE '))}
	parser = SyntaxParser(rules, Tokenizer())
	failures = []
	stats = {'py_gram_sentences': len(sents), 'py_gram_accepted': 0, 'py_gram_rejected': 0, 'py_gram_rules': len(rs)}
	signal.signal(signal.SIGALRM, _alarm)
	for s in sents:
		text = sentences[s['id']]
		signal.setitimer(signal.ITIMER_REAL, 20)
		try:
			got = ('accept', shape(parser.parse(text, 'entry').simplify()))
		except _Timeout:
			got = ('timeout', [])
		except Errors.Syntax:
			got = ('reject', [])
		except Exception as e:
			got = (f'crash:{type(e).__name__}', [])
		finally:
			signal.setitimer(signal.ITIMER_REAL, 0)
		want = spec.get(s['id'])
		stats['py_gram_accepted' if got[0] == 'accept' else 'py_gram_rejected'] += 1
		if want is None:
			raise Machinery(f'GramEnginePy printed nothing for sentence {s["id"]}')
		if want['v'] == 'spin' or got[0] == 'timeout':
			continue
		if want['v'] != got[0] or (got[0] == 'accept' and want['tree'] != got[1]):
			failures.append({'clause': 'EngineAsSpecified', 'kind': 'py_gram:' + ('tree' if want['v'] == got[0] else f'{want["v"]}-vs-{got[0]}'), 'detail': f'py_gram on {text!r}: the specification\'s engine says {want["v"]} {json.dumps(want["tree"])[:200]}, the real engine {got[0]} {json.dumps(got[1])[:200]}', 'src': text})
	return failures, stats
