"""Replay of Tranp.tla's labelled edge stream on real directory trees (shared by C05 and C06).

The BFS tree of the explored state graph is walked depth-first; at every tree node the world directory is
snapshotted, so each explored edge costs exactly one real operation. After every operation the projection of
the world is compared with the spec's successor state, and the property clauses are evaluated on the real
observations (independently of the spec) with the cold run of tranp itself as oracle.
"""
import builtins
import copy
import json
import os
import shutil
from concurrent.futures import ProcessPoolExecutor

from harness import compat  # noqa: F401


def view_key(view) -> str:
	return json.dumps(view, sort_keys=True)


NONE = {'none': True}


def decode_view(view: list) -> dict:
	src, mtime, ast, sym, parser, out, ntorn = view
	return {'src': src, 'mtime': mtime, 'ast': ast, 'sym': sym, 'parser': parser, 'out': out, 'ntorn': ntorn}


class Tracker:
	"""Harness-side bookkeeping that travels with a world snapshot."""

	def __init__(self) -> None:
		self.names: dict[str, tuple[str, str]] = {}  # '<kind>:<m>' -> (file name, spec key json)
		self.torn: set[str] = set()


class Replayer:
	def __init__(self, graph: str, root: str) -> None:
		from harness.fs_binding import ColdOracle, World
		self.graph = graph
		self.root = root
		self.world = World(os.path.join(root, 'w'), graph)
		self.oracle = ColdOracle(graph)
		self.tracker = Tracker()
		self.failures: list[dict] = []
		self.findings: list[dict] = []
		self.snap_id = 0
		self.stats = {'ops': 0, 'runs': 0, 'stale_reproduced': 0, 'texts_compared': 0}

	# -- snapshots -------------------------------------------------------------------------------------------
	def snapshot(self):
		self.snap_id += 1
		path = os.path.join(self.root, f'snap{self.snap_id}')
		shutil.copytree(self.world.root, path, copy_function=shutil.copy2)
		return (path, copy.deepcopy(self.tracker), dict(getattr(self.world, 'times', {})))

	def restore(self, snap) -> None:
		path, tracker, times = snap
		shutil.rmtree(self.world.root)
		shutil.copytree(path, self.world.root, copy_function=shutil.copy2)
		self.tracker = copy.deepcopy(tracker)
		self.world.times = dict(times)

	def drop(self, snap) -> None:
		shutil.rmtree(snap[0], ignore_errors=True)

	# -- one operation ---------------------------------------------------------------------------------------
	def apply(self, op: dict) -> dict:
		w = self.world
		self.stats['ops'] += 1
		name = op['name']
		obs: dict = {}
		if name == 'edit':
			w.edit(op['m'], op['v'], op.get('t'))
		elif name == 'swap':
			w.swap(op['m1'], op['m2'])
		elif name == 'clear':
			w.clear_cache()
			self.tracker.names = {}
			self.tracker.torn = set()
		elif name == 'truncate':
			w.truncate(op['kind'], op['m'])
			self.tracker.torn.add(f'{op["kind"]}:{op["m"] if op["kind"] != "parser" else ""}')
		elif name == 'delete':
			w.delete_output(op['m'])
		elif name == 'oldversion':
			w.old_version_output(op['m'])
		elif name == 'run':
			self.stats['runs'] += 1
			before = w.all_files()
			outputs_before = {m: w.read_output(m) for m in w.mods}
			reads: list[str] = []
			org_open = builtins.open

			def spy_open(file, mode='r', *args, **kwargs):
				try:
					p = os.path.abspath(file) if isinstance(file, (str, bytes, os.PathLike)) else ''
					if isinstance(p, bytes):
						p = p.decode()
					if p.startswith(w.cache_dir + os.sep):
						reads.append(f'{mode}:{os.path.relpath(p, w.cache_dir)}')
				except Exception:
					pass
				return org_open(file, mode, *args, **kwargs)

			builtins.open = spy_open
			try:
				res = w.run(op['enabled'], op['force'])
			finally:
				builtins.open = org_open
			after = w.all_files()
			cache_changed = sorted(p for p in set(before) | set(after) if p.startswith('cache') and before.get(p) != after.get(p))
			obs = {'res': res, 'cache_opened': reads, 'cache_changed': cache_changed, 'outputs_before': outputs_before, 'error': getattr(w, 'last_error', '') if res == 'fail' else ''}
		else:
			raise ValueError(name)
		return obs

	# -- comparison with the spec state + property clauses on real observations -------------------------------------
	def check(self, op: dict, obs: dict, to_view: list, history: list) -> None:
		w = self.world
		to = decode_view(to_view)

		def fail(clause: str, detail: str) -> None:
			self.failures.append({'kind': 'conformance', 'clause': clause, 'detail': detail, 'op': op['name'], 'history': list(history)})

		if op['name'] == 'run':
			if obs['res'] != op['res']:
				fail('run-result', f'run(enabled={op["enabled"]}, force={op["force"]}) -> {obs["res"]} {obs["error"]}, spec says {op["res"]}')
				return
			# C05: disabled => inert (direct statement of the property on the real run)
			if not op['enabled'] and (obs['cache_opened'] or obs['cache_changed']):
				self.failures.append({'kind': 'property', 'clause': 'DisabledIsInert', 'detail': f'caching disabled but cache files opened {obs["cache_opened"][:3]} / changed {obs["cache_changed"][:3]}', 'op': 'run', 'history': list(history), 'shape': 'disabled-touches-cache'})
			if op['enabled'] and op['touched']['writes'] != bool(obs['cache_changed']):
				fail('cache-writes', f'cache directory changed={obs["cache_changed"][:4]} but spec says writes={op["touched"]["writes"]}')
		# outputs
		for m in w.mods:
			real = w.read_output(m)
			spec = to['out'][m]
			if (real is None) != (spec == NONE):
				fail('output-presence', f'output of {m}: file {"missing" if real is None else "present"}, spec {"absent" if spec == NONE else "present"}')
				continue
			if real is None:
				continue
			hdr_variant = list(spec['hdr'].values())[0] if len(spec['hdr']) == 1 else None
			from harness.fs_binding import source_hash
			if real['header'] is None:
				fail('output-header', f'output of {m} has no readable meta header')
			elif hdr_variant == 0:
				if real['header'].get('version') != '0.9.9':
					fail('output-header', f'output of {m}: the specification has the header of another version here, the file says {real["header"].get("version")}')
			elif hdr_variant is not None and real['header']['module']['hash'] != source_hash(self.graph, m, spec['hdr'][m]):
				fail('output-header', f'output of {m}: header hash is not that of variant {spec["hdr"][m]}')
			elif real['header'].get('version') == '0.9.9':
				fail('output-header', f'output of {m}: the specification has a header of the current version here, the file still carries the one another version left')
			expect_body = self.oracle.body(m, spec['body'])
			self.stats['texts_compared'] += 1
			if real['body'] != expect_body:
				fail('output-body', f'output of {m}: text differs from what the spec state {spec["body"]} denotes: {real["body"][-80:]!r} vs {expect_body[-80:]!r}')
			if op['name'] == 'run' and obs['res'] == 'ok':
				# property clauses, judged against tranp's own cold/forced result for the CURRENT sources
				from harness.fs_binding import BODY_CLASS
				cold_vector = {d: BODY_CLASS[to['src'][d]] for d in spec['body']}
				cold_body = self.oracle.body(m, cold_vector)
				if m in op['selected'] and real['body'] != cold_body:
					stale = sorted(d for d in spec['body'] if spec['body'][d] != BODY_CLASS[to['src'][d]])
					self.stats['stale_reproduced'] += 1
					self.failures.append({'kind': 'property', 'clause': 'WarmEqualsCold' if op['enabled'] else 'RunEqualsForced', 'detail': f'{m}: output after run differs from a cold/forced run for the current sources; derived from stale {stale}', 'op': 'run', 'history': list(history), 'shape': self.shape(m, stale, op)})
				if m not in op['selected']:
					before = obs['outputs_before'][m]
					if before is None or before['text'] != real['text'] or before['mtime_ns'] != real['mtime_ns']:
						self.failures.append({'kind': 'property', 'clause': 'Untouched', 'detail': f'{m} needed no regeneration but its file changed', 'op': 'run', 'history': list(history), 'shape': 'untouched-changed'})
					elif real['body'] != cold_body or real['header']['module']['hash'] != source_hash(self.graph, m, to['src'][m]):
						stale = sorted(d for d in spec['body'] if spec['body'][d] != BODY_CLASS[to['src'][d]])
						self.stats['stale_reproduced'] += 1
						self.failures.append({'kind': 'property', 'clause': 'RunEqualsForced', 'detail': f'{m} was not regenerated although a forced run would write different content; stale {stale}', 'op': 'run', 'history': list(history), 'shape': self.shape(m, stale, op)})
		# cache files
		for kind in ('ast', 'sym'):
			for m in w.mods:
				files = w.cache_files(kind, m)
				spec = to[kind][m]
				if (len(files) > 0) != (spec != NONE) or len(files) > 1:
					fail('cache-presence', f'{kind} cache of {m}: files {[os.path.basename(f) for f in files]}, spec {"absent" if spec == NONE else "present"}')
					continue
				tk = f'{kind}:{m}'
				if not files:
					self.tracker.names.pop(tk, None)
					continue
				# the tree cache is keyed by modification time and content hash (Tranp.tla AstHash); layout-only variants have their own hash
				key = json.dumps([spec['mt'], spec['v']] if kind == 'ast' else spec['key'], sort_keys=True)
				name = os.path.basename(files[0])
				if tk in self.tracker.names:
					old_name, old_key = self.tracker.names[tk]
					if (old_key == key) != (old_name == name):
						fail('cache-key', f'{kind} cache of {m}: file name {"changed" if old_name != name else "kept"} while the spec key {"changed" if old_key != key else "is unchanged"} ({old_key} -> {key})')
				self.tracker.names[tk] = (name, key)
		pfiles = w.cache_files('parser')
		if (len(pfiles) > 0) != (to['parser'] != 'none'):
			fail('cache-presence', f'parser cache: files {len(pfiles)}, spec {to["parser"]}')

	def shape(self, m: str, stale: list[str], op: dict) -> str:
		"""Names the specific history shape a stale output comes from (what known_findings.json matches on)."""
		from harness.fs_binding import source_of
		direct = set()
		for line in source_of(self.graph, m, 1).splitlines():
			if line.startswith('from vm.'):
				from harness.fs_binding import unstem
				direct.add(unstem(self.graph, line.split()[1].split('.', 1)[1]))
		kinds = set()
		for d in stale:
			kinds.add('own-source' if d == m else ('direct-import' if d in direct else 'transitive-import'))
		mech = 'symbol-cache' if op['enabled'] else 'output-header'
		if mech == 'output-header':
			# the header knows nothing about imports at all: direct or transitive makes no difference there
			kinds = {'imported-module' if k != 'own-source' else k for k in kinds}
		return f'{mech}:stale-after-edit-of:{"+".join(sorted(kinds)) or "nothing"}'

	# -- walk ------------------------------------------------------------------------------------------------
	def walk(self, tree: dict, node: str, history: list) -> None:
		"""tree[node] = list of (op, to_view, to_key, is_tree_edge)"""
		edges = tree.get(node, [])
		if not edges:
			return
		snap = self.snapshot()
		first = True
		for op, to_view, to_key, is_tree in edges:
			if not first:
				self.restore(snap)
			first = False
			nfail = len(self.failures)
			try:
				obs = self.apply(op)
				self.check(op, obs, to_view, history + [op])
			except Exception as e:  # anything unexpected from the code under test at this point is a finding
				self.failures.append({'kind': 'conformance', 'clause': f'crash:{type(e).__name__}', 'detail': f'{type(e).__name__}: {str(e)[:200]}', 'op': op['name'], 'history': history + [op]})
			conformance_broken = any(f['kind'] == 'conformance' for f in self.failures[nfail:])
			if is_tree and not conformance_broken:
				self.walk(tree, to_key, history + [op])
		self.drop(snap)


def _strip(op: dict) -> dict:
	return {k: v for k, v in op.items() if k in ('name', 'm', 'v', 'enabled', 'force', 'kind')}


def _worker(args) -> dict:
	"""Replays `prefix` (edges from the initial state, unchecked: they are checked by the job that owns them), then
	the job's own edge with checks and - if it is a tree edge and `recurse` - the whole subtree below it."""
	graph, tree, prefix, edge, recurse = args
	from harness.tranp_env import enter_scratch
	root = enter_scratch('verif-fs-')
	rp = Replayer(graph, root)
	history = []
	op = edge[0]
	try:
		for pop, pto, _, _ in prefix:
			obs = rp.apply(pop)
			rp.check(pop, obs, pto, history + [pop])
			history.append(pop)
		rp.failures = [f for f in rp.failures if f['kind'] == 'conformance']  # a broken prefix must stop this job
		if not rp.failures:
			op, to_view, to_key, is_tree = edge
			obs = rp.apply(op)
			rp.check(op, obs, to_view, history + [op])
			if recurse and is_tree and not any(f['kind'] == 'conformance' for f in rp.failures):
				rp.walk(tree, to_key, history + [op])
	except Exception as e:
		rp.failures.append({'kind': 'conformance', 'clause': f'crash:{type(e).__name__}', 'detail': f'{type(e).__name__}: {str(e)[:300]}', 'op': op['name'], 'history': history + [op]})
	for f in rp.failures:
		f['history'] = [_strip(o) for o in f['history']]
	return {'failures': rp.failures, 'stats': rp.stats}


def replay_edges(graph: str, edges: list[dict], nproc: int = 16, pool=None) -> dict:
	"""Build the BFS tree from the edge stream and replay every edge (one real operation per edge below the
	split level; the split level's prefixes are re-executed per job)."""
	init_key = None
	tree: dict[str, list] = {}
	seen: set[str] = set()
	for e in edges:
		kf, kt = view_key(e['from']), view_key(e['to'])
		if init_key is None:
			init_key = kf
			seen.add(kf)
		is_tree = kt not in seen
		seen.add(kt)
		tree.setdefault(kf, []).append((e['op'], e['to'], kt, is_tree))
	jobs = []
	for r in tree.get(init_key, []):
		jobs.append((graph, tree, [], r, False))  # the root edge itself
		if r[3]:
			for e2 in tree.get(r[2], []):
				jobs.append((graph, tree, [r], e2, True))
	if pool is not None:
		results = list(pool.map(_worker, jobs))
	else:
		with ProcessPoolExecutor(max_workers=nproc) as ex:
			results = list(ex.map(_worker, jobs))
	failures = [f for r in results for f in r['failures']]
	stats: dict[str, int] = {}
	for r in results:
		for k, v in r['stats'].items():
			stats[k] = stats.get(k, 0) + v
	return {'failures': failures, 'stats': stats, 'edges': len(edges), 'states': len(seen), 'jobs': len(jobs)}


def _walk_worker(args) -> dict:
	"""One random walk of TranpWalk.tla: every operation on the real world, every state compared"""
	graph, steps = args
	from harness.tranp_env import enter_scratch
	root = enter_scratch('verif-fsw-')
	rp = Replayer(graph, root)
	history: list = []
	op = steps[0]['op'] if steps else {'name': '?'}
	try:
		for e in steps:
			op = e['op']
			obs = rp.apply(op)
			rp.check(op, obs, e['to'], history + [op])
			history.append(op)
			if any(f['kind'] == 'conformance' for f in rp.failures):
				break  # the real world has left the behaviour of the specification: later comparisons mean nothing
	except Exception as e:
		rp.failures.append({'kind': 'conformance', 'clause': f'crash:{type(e).__name__}', 'detail': f'{type(e).__name__}: {str(e)[:300]}', 'op': op['name'], 'history': history + [op]})
	for f in rp.failures:
		f['history'] = [_strip(o) for o in f['history']]
	return {'failures': rp.failures, 'stats': rp.stats, 'steps': len(history)}


def replay_walks(graph: str, edges: list[dict], nproc: int = 16, pool=None) -> dict:
	"""Random walks emitted by TranpWalk.tla (edges carry walk number and step)"""
	walks: dict[int, list] = {}
	for e in edges:
		walks.setdefault(e['walk'], []).append(e)
	jobs = [(graph, sorted(es, key=lambda e: e['step'])) for _, es in sorted(walks.items())]
	if pool is not None:
		results = list(pool.map(_walk_worker, jobs))
	else:
		with ProcessPoolExecutor(max_workers=nproc) as ex:
			results = list(ex.map(_walk_worker, jobs))
	failures = [f for r in results for f in r['failures']]
	stats: dict[str, int] = {}
	for r in results:
		for k, v in r['stats'].items():
			stats[k] = stats.get(k, 0) + v
	return {'failures': failures, 'stats': stats, 'edges': len(edges), 'states': len(edges), 'jobs': len(jobs), 'longest': max((r['steps'] for r in results), default=0)}
