"""C02, primary layer: calls (positional / keyword / packed arguments), attribute / index / slice chains, list / tuple /
dict literals, lambdas, ternaries and every operator family in the sentences of spec/OwnGram.tla (those inside
data/grammar.lark: no walrus), compared three ways: canon(model) = canon(CPython ast) must equal canon(tranp node tree)."""
import ast
import json
from concurrent.futures import ProcessPoolExecutor

from harness import compat  # noqa: F401
from harness import tlc
from harness.core import Ctx, Machinery, Violation

BATCH = 150
EXTRA = ['a[1:2]', 'a[:2]', 'a[1:]', 'a[b][c]', 'a[1:2:3]', 'a[::2]', 'a.b[c].d(e)[f]', 'f(a, *c)', 'f(a, k=b)', 'f(a)(b)(c)', 'f(**a)', '[a, [b, (c, d)], {"k": [e]}]',
	'{"a": 1, "b": {"c": 2}}', '(a,)', '()', '[]', '{}', 'lambda: a', 'lambda p, q: p + q', 'f(lambda p: p, a)', 'a if b else c if d else e', '(a if b else c) if d else e', '[x for x in a]',
	'[x + 1 for x in a if x > b]', '{k: v for k, v in a.items()}', '[f(x) for x in a.b(c)]', 'not a in b', 'a not in b', 'a is not b', '-a.b', '(-a).b', '-a(b)', 'a < b < c < d', 'a.b.c.d', 'f(a=b)(c=d)']


def canon_node(node) -> tuple:
	import rogw.tranp.syntax.node.definition as defs
	t = lambda xs: tuple(xs)
	if isinstance(node, defs.Group):
		return canon_node(node.expression)
	if isinstance(node, defs.Empty):
		return None
	if isinstance(node, defs.Truthy):
		return ('const', 'True')
	if isinstance(node, defs.Falsy):
		return ('const', 'False')
	if isinstance(node, defs.Null):
		return ('const', 'None')
	if isinstance(node, defs.Integer):
		return ('int', int(node.tokens)) if node.tokens.isdigit() else ('int?', node.tokens)
	if isinstance(node, defs.Float):
		return ('float', node.tokens)
	if isinstance(node, defs.String):
		return ('str', ast.literal_eval(node.tokens))
	if isinstance(node, defs.FuncCall):
		args = []
		for a in node.arguments:
			v = canon_node(a.value)
			if a.unpacking == '*':
				args.append(('star', v))
			elif a.unpacking == '**':
				args.append(('dstar', v))
			elif not isinstance(a.label, defs.Empty):
				args.append(('kw', a.label.tokens, v))
			else:
				args.append(('pos', v))
		return ('call', canon_node(node.calls), t(args))
	if isinstance(node, defs.Relay):
		return ('attr', canon_node(node.receiver), node.prop.tokens)
	if isinstance(node, defs.Indexer):
		keys = [canon_node(k) for k in node.keys]
		if node.sliced:
			return ('index', canon_node(node.receiver), ('slice', t(keys + [None] * (3 - len(keys)))))
		return ('index', canon_node(node.receiver), keys[0] if len(keys) == 1 else ('tuple', t(keys)))
	if isinstance(node, (defs.Var, defs.Declable)):
		return ('var', node.tokens)
	if isinstance(node, defs.List):
		return ('list', t(canon_node(v) for v in node.values))
	if isinstance(node, defs.Tuple):
		return ('tuple', t(canon_node(v) for v in node.values))
	if isinstance(node, defs.Dict):
		return ('dict', t((canon_node(p.first), canon_node(p.second)) if isinstance(p, defs.Pair) else ('dstar', canon_node(p)) for p in node.items))
	if isinstance(node, defs.Lambda):
		return ('lambda', t(s.tokens for s in node.symbols), canon_node(node.expression))
	if isinstance(node, defs.Comprehension):
		fors = t((t(s.tokens for s in f.symbols), canon_node(f.iterates)) for f in node.fors)
		cond = None if isinstance(node.condition, defs.Empty) else canon_node(node.condition)
		proj = node.projection
		proj_c = (canon_node(proj.first), canon_node(proj.second)) if isinstance(proj, defs.Pair) else canon_node(proj)
		return ('listcomp' if isinstance(node, defs.ListComp) else 'dictcomp', proj_c, fors, cond)
	if isinstance(node, defs.NotCompare):
		return ('not', canon_node(node.value))
	if isinstance(node, defs.Factor):
		return ('un', node.operator.tokens, canon_node(node.value))
	if isinstance(node, defs.TernaryOperator):
		return ('tern', canon_node(node.condition), canon_node(node.primary), canon_node(node.secondary))
	if isinstance(node, defs.BinaryOperator):
		kind = 'bool' if isinstance(node, (defs.OrCompare, defs.AndCompare)) else 'cmp' if isinstance(node, defs.Comparison) else 'bin'
		elems = node.elements
		if len(elems) % 2 == 0:
			return ('malformed', type(node).__name__, len(elems))
		ops = [e.tokens.replace('.', ' ') for e in elems[1::2]]
		if kind == 'cmp' and len(ops) > 1:
			return ('chain', t(ops), t(canon_node(e) for e in elems[0::2]))
		res = canon_node(elems[0])
		for i, op in enumerate(ops):
			res = (kind, op, res, canon_node(elems[2 * i + 2]))
		return res
	return ('other', type(node).__name__, node.tokens[:40])


def canon_py_full(n: ast.AST) -> tuple:
	from harness.checks.c11 import canon_py
	if isinstance(n, (ast.ListComp, ast.DictComp)):
		g = n.generators
		fors = tuple(((tuple(e.id for e in x.target.elts) if isinstance(x.target, ast.Tuple) else (x.target.id,)), canon_py(x.iter)) for x in g)
		conds = [c for x in g for c in x.ifs]
		proj = (canon_py(n.key), canon_py(n.value)) if isinstance(n, ast.DictComp) else canon_py(n.elt)
		return ('listcomp' if isinstance(n, ast.ListComp) else 'dictcomp', proj, fors, canon_py(conds[0]) if conds else None)
	return canon_py(n)


def unsupported_receiver(c) -> bool:
	"""tranp's node model indexes references, calls and comprehensions only (Indexer.receiver); `(a + b)[i]` is outside its subset"""
	if not isinstance(c, (list, tuple)):
		return False
	if len(c) == 3 and c[0] == 'index' and isinstance(c[1], (list, tuple)) and c[1] and c[1][0] not in ('var', 'attr', 'call', 'index'):
		return True
	return any(unsupported_receiver(x) for x in c)


def _tuplify(x):
	return tuple(_tuplify(y) for y in x) if isinstance(x, (list, tuple)) else x


def _parse_batch(args) -> dict:
	cases, first = args
	from harness.checks import c11
	from harness.tranp_env import Env, enter_scratch
	import rogw.tranp.syntax.node.definition as defs
	enter_scratch('verif-c02p-')
	failures, machinery = [], []
	refs = []
	for c in cases:
		c11.SOURCE[0] = c['text']
		tree = ast.parse(c['text'], mode='eval').body
		ref = canon_py_full(tree) if any(isinstance(x, (ast.ListComp, ast.DictComp)) for x in ast.walk(tree)) and isinstance(tree, (ast.ListComp, ast.DictComp)) else c11.canon_py(tree)
		if 'canon' in c and _tuplify(c['canon']) != ref:
			machinery.append(f'spec and CPython disagree on {c["text"]!r}: {_tuplify(c["canon"])} vs {ref}')
		refs.append(ref)
	if machinery:
		return {'failures': [], 'machinery': machinery, 'n': 0}
	source = ''.join(f'v{first + i} = {c["text"]}\n' for i, c in enumerate(cases))
	try:
		module = Env().reload_main(source, '__main__')
		stmts = [s for s in module.entrypoint.statements if isinstance(s, (defs.MoveAssign, defs.AnnoAssign))]
	except Exception as e:
		if len(cases) == 1:
			return {'failures': [{'clause': 'Accepted', 'detail': f'{cases[0]["text"]!r} is rejected: {type(e).__name__}: {str(e)[:120]}', 'text': cases[0]['text'], 'kind': cases[0].get('top', 'extra')}], 'machinery': [], 'n': 1}
		half = len(cases) // 2
		a, b = _parse_batch((cases[:half], first)), _parse_batch((cases[half:], first + half))
		return {'failures': a['failures'] + b['failures'], 'machinery': a['machinery'] + b['machinery'], 'n': a['n'] + b['n']}
	if len(stmts) != len(cases):
		return {'failures': [{'clause': 'Accepted', 'detail': f'{len(cases)} assignments give {len(stmts)} statement nodes', 'text': cases[0]['text'], 'kind': 'batch'}], 'machinery': [], 'n': len(cases)}
	for c, ref, stmt in zip(cases, refs, stmts):
		try:
			got = canon_node(stmt.value)
		except Exception as e:
			got = ('crash', type(e).__name__, str(e)[:80])
		if got != ref:
			failures.append({'clause': 'TreeEqualsCPython', 'detail': f'{c["text"]!r}: tranp {got} vs CPython {ref}', 'text': c['text'], 'kind': c.get('top', 'extra')})
	return {'failures': failures, 'machinery': [], 'n': len(cases)}


def run_primary(ctx: Ctx) -> tuple[list[Violation], dict]:
	cases = []
	for n in ([1, 2] if ctx.quick else [1, 2, 3]):
		res = tlc.run('OwnGramEmit', f'OwnGram_{n}.cfg', workers=1, timeout=2400)
		if res.rc != 0:
			raise Machinery(f'OwnGram: evaluation error: {res.out[-600:]}')
		cases += [json.loads(line) for line in res.lines('CASE ')]
	cases = [c for c in cases if ':=' not in c['text']]       # data/grammar.lark has no assignment expressions
	skipped = sum(1 for c in cases if unsupported_receiver(c['canon']))
	cases = [c for c in cases if not unsupported_receiver(c['canon'])]
	if ctx.quick:
		cases = cases[::2]
	cases += [{'text': t} for t in EXTRA]
	batches = [(cases[i:i + BATCH], i) for i in range(0, len(cases), BATCH)]
	with ProcessPoolExecutor(max_workers=16) as ex:
		results = list(ex.map(_parse_batch, batches))
	machinery = [m for r in results for m in r['machinery']]
	if machinery:
		raise Machinery(f'{len(machinery)} sentences, e.g. {machinery[0]}')
	failures = [f for r in results for f in r['failures']]
	ctx.log(f'primary layer: {len(cases)} sentences (calls, attribute / index chains, literals, lambdas, comprehensions, all operator families): {len(failures)} deviate')
	groups: dict[str, list] = {}
	for f in failures:
		groups.setdefault(f'{f["clause"]}:primary:{f["kind"]}', []).append(f)
	violations = []
	for key, fs in sorted(groups.items()):
		s = min(fs, key=lambda f: len(f['text']))
		violations.append(Violation(key, s['clause'], f'{s["detail"]} ({len(fs)} sentences)', {'text': s['text'], 'all': sorted({f['text'] for f in fs})[:40]}))
	return violations, {'primary_sentences': len(cases), 'primary_sentences_outside_node_model': skipped}
