"""Layer L2 of C01: container / string / tuple programs of spec/PyCont.tla transpiled, compiled, run and compared."""
import ast
import json
import os
import random
import re
from concurrent.futures import ProcessPoolExecutor

from harness import compat  # noqa: F401
from harness import tlc
from harness.core import Ctx, Machinery, Violation

BATCH = 40


def load(cfg: str) -> tuple[list[dict], list]:
	res = tlc.run('PyContEmit', cfg, workers=1, timeout=2400, heap='8g')
	if res.rc != 0:
		raise Machinery(f'PyCont: evaluation error: {res.out[-600:]}')
	if res.lines('BOUNDED ') != ['TRUE'] or res.lines('COPIES ') != ['TRUE']:
		raise Machinery('PyCont: Bounded / CopiesAreValues does not hold in the specification')
	cases = [json.loads(line) for line in res.lines('PROG ')]
	args = [json.loads(line) for line in res.lines('ARGS ')]
	if not cases or not args:
		raise Machinery('PyCont: nothing emitted')
	return cases, args[0]


def value_of(o: dict) -> tuple:
	return (list(o['xs']), list(o['ys']), {x['k']: x['v'] for x in o['d']}, {x['k']: x['v'] for x in o['e']}, o['s'], o['n'], o['bb'])


def _python_value(text: str, arg: list):
	scope: dict = {}
	exec(text, scope)
	try:
		return scope['f'](*arg)
	except Exception as e:
		return f'!{type(e).__name__}'


def _run_batch(args) -> dict:
	cases, first, argv = args
	from harness.cpp.build import compile_and_run
	from harness.tranp_env import Env, enter_scratch
	root = enter_scratch('verif-c01c-')
	failures, machinery = [], []
	for case in cases:
		for arg, out in zip(argv, case['outcomes']):
			ref = _python_value(case['prelude'] + case['text'], arg)
			if out['undef']:
				continue  # outside the agreement subset (Python raises IndexError / KeyError or C++ is undefined)
			if ref != value_of(out):
				machinery.append(f'spec and CPython disagree on {case["ops"]} from init {case["init"]} with {arg}: spec {value_of(out)} vs {ref}')
	if machinery:
		return {'failures': [], 'machinery': machinery, 'programs': 0, 'results': 0}
	cases = [c for c in cases if any(not o['undef'] for o in c['outcomes'])]
	if not cases:
		return {'failures': [], 'machinery': [], 'programs': 0, 'results': 0}
	program = cases[0]['prelude'] + '\n'.join(c['text'].replace('def f(', f'def f{first + i}(', 1) for i, c in enumerate(cases))
	kind = lambda c: '+'.join(c['ops'])
	try:
		text = Env().transpile_source(program)
	except Exception as e:
		if len(cases) == 1:
			return {'failures': [{'clause': 'NeverRejected', 'detail': f'rejected by the transpiler: {type(e).__name__}: {str(e)[:160]}', 'text': cases[0]['text'], 'kind': kind(cases[0])}], 'machinery': [], 'programs': 1, 'results': 0}
		half = len(cases) // 2
		return _merge(_run_batch((cases[:half], first, argv)), _run_batch((cases[half:], first + half, argv)))
	lines = []
	for i, case in enumerate(cases):
		for j, (arg, out) in enumerate(zip(argv, case['outcomes'])):
			if not out['undef']:
				lines.append(f'\tstd::cout << "start {first + i} {j}\\n" << std::flush; try {{ auto v = f{first + i}({arg[0]}, {arg[1]}); std::cout << "{first + i} {j} " << verif::show(v) << "\\n"; }} catch (const std::exception& ex) {{ std::cout << "{first + i} {j} raise\\n"; }}')
	res = compile_and_run(os.path.join(root, f'c{first}'), text, '\n'.join(lines))
	if not res['compiled']:
		# attribute every compiler error to the function whose emitted text contains the line, drop those, compile the rest
		starts = []
		for no, ln in enumerate(text.split('\n'), 1):
			m = re.match(r'/\*\* f(\d+) \*/', ln)
			if m:
				starts.append((no, int(m.group(1))))
		bad: dict[int, str] = {}
		for m in re.finditer(r'case\.h:(\d+):\d+: error: (.*)', res['stderr_full']):
			line = int(m.group(1))
			owner = [idx for no, idx in starts if no <= line]
			if owner and owner[-1] not in bad:
				bad[owner[-1]] = m.group(2)
		if not bad or len(cases) == 1:
			if len(cases) == 1:
				err = next((ln for ln in res['stderr'].splitlines() if 'error' in ln), res['stderr'][:200]).split('error:')[-1].strip()
				return {'failures': [{'clause': 'CompilerAccepts', 'detail': f'emitted C++ is rejected by the compiler: {err[:200]}', 'text': cases[0]['text'], 'kind': kind(cases[0]), 'emitted': text[-900:]}], 'machinery': [], 'programs': 1, 'results': 0}
			half = len(cases) // 2
			return _merge(_run_batch((cases[:half], first, argv)), _run_batch((cases[half:], first + half, argv)))
		failures = [{'clause': 'CompilerAccepts', 'detail': f'emitted C++ is rejected by the compiler: {bad[first + i][:200]}', 'text': c['text'], 'kind': kind(c)} for i, c in enumerate(cases) if first + i in bad]
		rest = [c for i, c in enumerate(cases) if first + i not in bad]
		sub = _run_batch((rest, first, argv)) if rest else {'failures': [], 'machinery': [], 'programs': 0, 'results': 0}
		return _merge({'failures': failures, 'machinery': [], 'programs': len(failures), 'results': 0}, sub)
	if res.get('timeout'):
		# the program did not return: the last started call is the one that hangs; report it and run the rest again
		started = [ln.split() for ln in res['stdout'].splitlines() if ln.startswith('start ')]
		if not started:
			return {'failures': [{'clause': 'Terminates', 'detail': 'the compiled program does not return and prints nothing', 'text': cases[0]['text'], 'kind': kind(cases[0])}], 'machinery': [], 'programs': len(cases), 'results': 0}
		idx, j = int(started[-1][1]) - first, int(started[-1][2])
		hang = cases[idx]
		rest = [c for k, c in enumerate(cases) if k != idx]
		sub = _run_batch((rest, first, argv)) if rest else {'failures': [], 'machinery': [], 'programs': 0, 'results': 0}
		return _merge({'failures': [{'clause': 'Terminates', 'detail': f'f({argv[j][0]}, {argv[j][1]}): the compiled C++ does not return within 20 s, Python returns {value_of(hang["outcomes"][j])}', 'text': hang['text'], 'kind': kind(hang)}], 'machinery': [], 'programs': 1, 'results': 0}, sub)
	got = {}
	for ln in res['stdout'].splitlines():
		parts = ln.split(' ', 2)
		if len(parts) == 3 and parts[0] != 'start':
			got[(int(parts[0]), int(parts[1]))] = parts[2]
	results = 0
	for i, case in enumerate(cases):
		for j, (arg, out) in enumerate(zip(argv, case['outcomes'])):
			if out['undef']:
				continue
			results += 1
			raw = got.get((first + i, j))
			try:
				val = ast.literal_eval(raw) if raw and raw != 'raise' else raw
			except Exception:
				val = raw
			if val != value_of(out):
				failures.append({'clause': 'SameValue', 'detail': f'f({arg[0]}, {arg[1]}): C++ gives {raw}, Python {value_of(out)}' + (f' (the program died: exit {res["rc"]})' if raw is None else ''), 'text': case['text'], 'kind': kind(case)})
				break
	return {'failures': failures, 'machinery': [], 'programs': len(cases), 'results': results}


def _merge(a: dict, b: dict) -> dict:
	return {k: a[k] + b[k] for k in ('failures', 'machinery', 'programs', 'results')}


def _enumerate_index_redeclared(f: dict) -> bool:
	m = re.search(r"redefinition of '(\w+)'", f['detail']) if f['clause'] == 'CompilerAccepts' else None
	return bool(m) and len(re.findall(rf'\bfor {m.group(1)}, \w+ in enumerate\(', f['text'])) >= 2


def culprit(fs: list[dict]) -> str:
	"""the operation common to the failing programs of one clause (a failure of one operation shows in every program that uses it)"""
	counts: dict[str, int] = {}
	for f in fs:
		for op in set(f['kind'].split('+')):
			counts[op] = counts.get(op, 0) + 1
	return max(sorted(counts), key=lambda k: counts[k])


def run_containers(ctx: Ctx) -> tuple[list[Violation], dict]:
	cases, argv = load('PyCont_1.cfg')
	two, _ = load('PyCont_2.cfg')
	rnd = random.Random(ctx.seed)
	doubled = [c for c in two if c['ops'][0] == c['ops'][1]]      # the same operation twice: names declared by an operation meet themselves
	two = doubled + rnd.sample(two, 300 if ctx.quick else min(len(two), 12000))
	cases = cases + two
	batches = [(cases[i:i + BATCH], i, argv) for i in range(0, len(cases), BATCH)]
	with ProcessPoolExecutor(max_workers=16) as ex:
		results = list(ex.map(_run_batch, batches))
	machinery = [m for r in results for m in r['machinery']]
	if machinery:
		raise Machinery(f'{len(machinery)} container programs where spec and CPython disagree, e.g. {machinery[0]}')
	failures = [f for r in results for f in r['failures']]
	nres = sum(r['results'] for r in results)
	ctx.log(f'L2: {len(cases)} container / string / tuple programs transpiled, compiled and run, {nres} results compared: {len(failures)} programs deviate')
	# attribute failures to operations: single-operation programs first, then what remains
	violations = []
	by_clause: dict[str, list] = {}
	for f in failures:
		by_clause.setdefault(f['clause'], []).append(f)
	for clause, fs in sorted(by_clause.items()):
		rest = list(fs)
		# a failure whose cause is visible in the compiler's message and the program text is identified by that shape,
		# whichever operation brought the shape about: two enumerate loops over the same index name in one function
		# (known finding CompilerAccepts:container-op:enum) also arise from any other operation that loops with enumerate
		shaped = [f for f in rest if _enumerate_index_redeclared(f)]
		if shaped:
			rest = [f for f in rest if not _enumerate_index_redeclared(f)]
			s = min(shaped, key=lambda f: len(f['text']))
			violations.append(Violation(f'{clause}:container-op:enum', clause, f'{s["detail"]} on {s["text"]!r} ({len(shaped)} programs loop twice with enumerate over the same index name)', {'text': s['text'], 'emitted': s.get('emitted', '')}))
		while rest:
			singles = [f for f in rest if '+' not in f['kind']]
			op = singles[0]['kind'] if singles else culprit(rest)
			mine = [f for f in rest if op in f['kind'].split('+')]
			rest = [f for f in rest if op not in f['kind'].split('+')]
			s = min(mine, key=lambda f: (f['kind'].count('+'), len(f['text'])))
			violations.append(Violation(f'{clause}:container-op:{op}', clause, f'{s["detail"]} on {s["text"]!r} ({len(mine)} programs use `{op}`)', {'text': s['text'], 'emitted': s.get('emitted', '')}))
	return violations, {'container_programs': len(cases), 'container_results': nres, 'constructs': ['lists (append, pop, insert, extend, clear, in, fill, len, copy, index get/set/augmented set, comprehensions, slices, loops with enumerate / range(len) / while-pop), dicts (set, augmented set, pop, get, in, getitem, del, clear, len, copy, items/values/keys loops, comprehension), strings (concat, str(int), len, startswith, endswith, find, slices, index, ==), tuples (pack, unpack, index), nested containers, closures, default / keyword arguments, casts, try/raise/except, break/continue - every operation alone and sampled pairs, from three initial states, on four argument vectors']}
