"""C03 — inferred static types equal the types values have at run time (spec/PyTypes.tla, spec/PySrc.tla).

TLC generates, type-directed, every expression of depth <= D over an environment of typed variables (scalars,
list / dict / tuple, a user class with field / method / property, an enum) together with its static type;
only well-typed expressions exist in the model and `Total` (no undetermined type) is checked by TLC.
For each expression `v = <expr>` inside a function: the type tranp infers for the expression node and for the
declared variable must be the model's; the model's type is cross-checked against the run-time type of the value
under CPython (disagreement = machinery error). The int/bool operator universe of PySrc.tla is checked the same
way on every paired sub-expression node.
"""
import json
import re
from concurrent.futures import ProcessPoolExecutor

from harness import compat  # noqa: F401
from harness import tlc
from harness.core import Ctx, Machinery, Violation, finish

LEVEL = 'model_checking'
BATCH = 80

PRELUDE = '''from enum import Enum
from collections.abc import Iterator
from typing import Generic, TypeAlias, TypeVar

T = TypeVar('T')

Ints: TypeAlias = list[int]
Rows: TypeAlias = list[list[int]]
DS: TypeAlias = dict[str, int]

class E(Enum):
	A = 1
	B = 2

class C:
	n: int

	def __init__(self, n: int) -> None:
		self.n = n

	def m(self) -> str:
		return 'm'

	@property
	def p(self) -> list[int]:
		return [self.n]

class G(Generic[T]):
	v: T
	vs: list[T]
	rows: list[list[T]]
	idx: dict[str, list[T]]
	opt: T | None
	spare: list[T] | None
	pair: tuple[T, list[T]]

	def __init__(self, v: T) -> None:
		self.v = v
		self.vs = [v]
		self.rows = [[v]]
		self.idx = {'a': [v]}
		self.opt = v
		self.spare = [v]
		self.pair = (v, [v])

	def get(self) -> T:
		return self.v

	def all(self) -> list[T]:
		return self.vs

	def grid(self) -> list[list[T]]:
		return self.rows

class IG(G[int]):
	pass

class IG2(IG):
	pass

class Cd:
	n: int

	def __init__(self, n: int) -> None:
		self.n = n

	def __iter__(self) -> 'Cd':
		return Cd(self.n)

	def __next__(self) -> int:
		if self.n <= 0:
			raise StopIteration()
		self.n = self.n - 1
		return self.n + 1

class Ws:
	ws: list[str]

	def __init__(self) -> None:
		self.ws = ['a']

	def __iter__(self) -> Iterator[str]:
		return iter(self.ws)

class Root:
	tag: str

	def __init__(self) -> None:
		self.tag = 'r'

	def who(self) -> str:
		return 'root'

class Left(Root):
	pass

class Right:
	tag: int

	def __init__(self) -> None:
		self.tag = 1

	def who(self) -> int:
		return 1

	def only(self) -> float:
		return 1.5

class Target(Left, Right):
	pass

'''
SIGNATURE = 'n: int, x: float, b: bool, s: str, xs: list[int], ys: list[str], d: dict[str, int], t: tuple[int, str], c: C, e: E, xss: list[list[int]], dl: dict[str, list[float]], cs: list[C], xa: Ints, rows: Rows, da: DS, xo: list[int] | None, co: C | None, lo: list[C] | None, xn: None | list[int], cn: None | C, ln: None | list[C], gi: G[int], gs: G[str], ig: IG, ig2: IG2, cd: Cd, wz: Ws, id: int, max: float, hash: str, iter: list[int], min: C, mi: Target'


def describe(v) -> str:
	import enum
	if isinstance(v, bool):
		return 'bool'
	if isinstance(v, enum.Enum):
		return type(v).__name__
	if isinstance(v, int):
		return 'int'
	if isinstance(v, float):
		return 'float'
	if isinstance(v, str):
		return 'str'
	if isinstance(v, list):
		return f'list<{describe(v[0])}>' if v else 'list<?>'
	if isinstance(v, dict):
		k, x = next(iter(v.items())) if v else ('?', '?')
		return f'dict<{describe(k)}, {describe(x)}>' if v else 'dict<?, ?>'
	if isinstance(v, tuple):
		return 'tuple<' + ', '.join(describe(x) for x in v) + '>'
	if type(v).__name__ in ('G', 'IG', 'IG2'):
		# a generic instance is described by what it holds
		return f'{type(v).__name__}<{describe(v.v)}>'
	return type(v).__name__


def runtime_types(texts: list[str]) -> list[str]:
	scope: dict = {}
	exec(PRELUDE, scope)
	C, E, G, IG, Cd, Ws = scope['C'], scope['E'], scope['G'], scope['IG'], scope['Cd'], scope['Ws']
	IG2 = scope['IG2']
	env = {'n': 3, 'x': 1.5, 'b': True, 's': 'a,b', 'xs': [1, 2], 'ys': ['a', 'b'], 'd': {'a': 1}, 't': (1, 'z'), 'c': C(2), 'e': E.A, 'xss': [[1], [2]], 'dl': {'a': [1.5]}, 'cs': [C(1)], 'xa': [1, 2], 'rows': [[1], [2]], 'da': {'a': 1}, 'xo': [3], 'co': C(1), 'lo': [C(1)], 'xn': [4], 'cn': C(2), 'ln': [C(2)], 'gi': G(1), 'gs': G('s'), 'ig': IG(2), 'ig2': IG2(3), 'cd': Cd(2), 'wz': Ws(), 'id': 4, 'max': 2.5, 'hash': 'h', 'iter': [5], 'min': C(3), 'mi': scope['Target']()}
	out = []
	for text in texts:
		try:
			out.append(describe(eval(text, dict(scope), dict(env))))
		except Exception as ex:
			out.append(f'!{type(ex).__name__}')
	return out


def _check(args) -> dict:
	cases, first = args
	import rogw.tranp.syntax.node.definition as defs
	from harness.tranp_env import Env, enter_scratch
	enter_scratch('verif-c03-')
	failures, machinery = [], []
	program = PRELUDE + f'def f({SIGNATURE}) -> None:\n' + ''.join(f'\tv{first + i} = {c["text"]}\n' for i, c in enumerate(cases))
	observed = runtime_types([c['text'] for c in cases])
	try:
		env = Env()
		module = env.reload_main(program)
		fn = next(n for n in module.entrypoint.statements if isinstance(n, defs.Function))
		assigns = [s for s in fn.statements if isinstance(s, defs.MoveAssign)]
		r = env.reflections
	except Exception as e:
		if len(cases) == 1:
			return {'failures': [{'clause': 'accepted', 'detail': f'`v = {cases[0]["text"]}` is rejected: {type(e).__name__}: {str(e)[:120]}', 'text': cases[0]['text'], 'kind': _kind(cases[0]['text'])}], 'machinery': [], 'nodes': 0}
		half = len(cases) // 2
		a, b = _check((cases[:half], first)), _check((cases[half:], first + half))
		return {'failures': a['failures'] + b['failures'], 'machinery': a['machinery'] + b['machinery'], 'nodes': a['nodes'] + b['nodes']}
	if len(assigns) != len(cases):
		return {'failures': [{'clause': 'accepted', 'detail': f'{len(assigns)} assignments for {len(cases)} cases', 'text': cases[0]['text'], 'kind': 'batch'}], 'machinery': [], 'nodes': 0}
	nodes = 0
	for case, seen, assign in zip(cases, observed, assigns):
		if seen != case.get('rtype', case['type']):
			machinery.append(f'spec and CPython disagree on {case["text"]!r}: spec {case.get("rtype", case["type"])} vs run time {seen}')
			continue
		for what, node in (('expression', assign.value), ('variable', assign.receivers[0])):
			nodes += 1
			try:
				got = r.type_of(node).pretty
			except Exception as e:
				got = f'!{type(e).__name__}'
			if got != case['type']:
				clause = 'Total' if 'Unknown' in got else 'TypeEqualsRuntime'
				failures.append({'clause': clause, 'detail': f'{what} of `v = {case["text"]}`: tranp infers {got}, run-time type is {case["type"]}', 'text': case['text'], 'kind': _kind(case['text'])})
	return {'failures': failures, 'machinery': machinery, 'nodes': nodes}


def _kind(text: str) -> str:
	# a method of the generic base called on an instance of a class two levels below the class that binds the type variable
	# (known finding: the type variable is resolved to the receiver's class)
	if re.search(r'\big2\.(get|all|grid)\(\)', text):
		return 'generic-method-via-grandchild'
	for marker, name in (('.items()', 'dict-comprehension'), (' for v in ', 'list-comprehension'), ('.keys()', 'dict-keys'), ('.values()', 'dict-values'), ('.get(', 'dict-get'), ('.split(', 'str-split'), ('.copy()', 'list-copy'), (' if b else ', 'ternary'), ("['a']", 'dict-index'), ('.p', 'property'), ('.m()', 'method'), ('.value', 'enum-value'), ('[0]', 'index'), ('[1]', 'index')):
		if marker in text:
			return name
	return 'other'


def _check_l0(args) -> dict:
	"""int/bool operator expressions: type of every paired sub-expression node"""
	cases, first = args
	from harness import srcmodel
	from harness.tranp_env import Env, enter_scratch
	enter_scratch('verif-c03b-')
	failures = []
	nodes = 0
	try:
		env = Env()
		module = env.reload_main(srcmodel.program_of(cases, first))
		funcs = srcmodel.function_nodes(module.entrypoint)
		r = env.reflections
	except Exception as e:
		return {'failures': [{'clause': 'accepted', 'detail': f'{type(e).__name__}: {str(e)[:200]}', 'text': cases[0]['text'], 'kind': 'batch'}], 'machinery': [], 'nodes': 0}
	for case, fn in zip(cases, funcs):
		rv = fn.statements[0].return_value
		if srcmodel.canon_tranp(rv) != srcmodel.canon_model(case['ast']):
			continue
		for model, node in srcmodel.pairs(case['ast'], rv):
			nodes += 1
			try:
				got = r.type_of(node).pretty
			except Exception as e:
				got = f'!{type(e).__name__}'
			if got != model['t']:
				failures.append({'clause': 'TypeEqualsRuntime', 'detail': f'{case["text"]!r} node {model["s"]!r}: tranp infers {got}, type is {model["t"]}', 'text': case['text'], 'kind': f'operator:{model["k"]}:{model.get("op", "")}'})
	return {'failures': failures, 'machinery': [], 'nodes': nodes}


def run(ctx: Ctx) -> int:
	from harness import srcmodel
	quick = ctx.quick
	res = tlc.run('PyTypesEmit', 'PyTypes_3.cfg' if quick else 'PyTypes_4.cfg', workers=1, timeout=1500, heap='8g')
	if res.rc != 0:
		raise Machinery(f'PyTypes: Total fails or evaluation error: {res.out[-800:]}')
	cases = [json.loads(line) for line in res.lines('CASE ')]
	l0, _ = srcmodel.load_cases(2)
	ctx.log(f'TLC generated {len(cases)} typed expressions (Total holds) + {len(l0)} operator expressions')
	with ProcessPoolExecutor(max_workers=16) as ex:
		r1 = list(ex.map(_check, [(cases[i:i + BATCH], i) for i in range(0, len(cases), BATCH)]))
		r2 = list(ex.map(_check_l0, [(l0[i:i + 100], i) for i in range(0, len(l0), 100)]))
	machinery = [m for r in r1 for m in r['machinery']]
	if machinery:
		raise Machinery(f'{len(machinery)} cases where spec and CPython run-time type disagree, e.g. {machinery[0]}')
	failures = [f for r in r1 + r2 for f in r['failures']]
	nodes = sum(r['nodes'] for r in r1 + r2)
	ctx.log(f'{nodes} typed nodes compared (spec = CPython run-time type on all {len(cases)} expressions): tranp differs on {len(failures)}')
	groups: dict[str, list] = {}
	for f in failures:
		groups.setdefault(f'{f["clause"]}:{f["kind"]}', []).append(f)
	violations = []
	for key, fs in sorted(groups.items()):
		s = min(fs, key=lambda f: len(f['text']))
		violations.append(Violation(key, s['clause'], f'{s["detail"]} ({len(fs)} nodes)', {'text': s['text']}))
	coverage = {
		'states': len(cases) + len(l0),
		'transitions': nodes,
		'traces_validated_against_impl': len(cases) + len(l0),
		'typed_expressions': len(cases),
		'operator_expressions': len(l0),
		'typed_nodes_compared': nodes,
		'distinct_types': sorted({c['type'] for c in cases}),
		'exhaustive': True,
		'bounds': {'construct_depth': 3 if quick else 4},
		'samples': [cases[len(cases) // 3], cases[-5]],
	}
	assumptions = ['run-time element types are taken from the first element / item (all generated containers are non-empty and homogeneous)', 'dict views (keys()/values()/items()) only occur wrapped in list(...) or in a comprehension']
	return finish(ctx, LEVEL, coverage, violations, assumptions)
