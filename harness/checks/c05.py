"""C05 — on-disk caches never change the result (spec/Tranp.tla, cache configuration).

1. TLC checks the C05 clauses on the model with SOUND keys (TransitiveKey) - this validates model and
   properties - and explores the model with the keys AS CODED, which yields the design-level counterexample.
2. spec -> code: every edge TLC explores in the as-coded model (edits, runs with caching on/off, clear,
   damage of any cache file) is replayed on a real directory tree through the real command-line runner; the
   directory tree must match the spec state after every step, and the C05 clauses are evaluated on the real
   observations with tranp's own cold run as oracle.
"""
import json

from harness import compat  # noqa: F401
from harness import tlc
from harness.core import Ctx, Machinery, Violation, finish

LEVEL = 'model_checking'
PROP = 'C05'
CLAUSES = ['WarmEqualsCold', 'DisabledIsInert', 'TornNeverWrong', 'CacheCoherent']


def collect(ctx: Ctx, prop: str, replay: dict) -> list[Violation]:
	violations: list[Violation] = []
	groups: dict[str, list] = {}
	for f in replay['failures']:
		if f['kind'] == 'property':
			key = f'{f["clause"]}:{f["shape"]}'
		else:
			key = f'conformance:{f["op"]}:{f["clause"]}'
		groups.setdefault(key, []).append(f)
	for key, fs in sorted(groups.items()):
		shortest = min(fs, key=lambda f: len(f['history']))
		violations.append(Violation(key, shortest['clause'], f'{shortest["detail"]} ({len(fs)} edges; shortest history {len(shortest["history"])} ops)', {'history': shortest['history'], 'graph': replay.get('graph')}))
	return violations


def run(ctx: Ctx) -> int:
	from harness.fs_replay import replay_edges
	quick = ctx.quick
	sound = tlc.run('MCTranp', 'Tranp_cache_sound.cfg', workers=16, timeout=900)
	if not sound.ok:
		raise Machinery(f'TLC: the sound-key model violates a C05 clause - model or property is wrong: {sound.out[-1500:]}')
	coded = tlc.run('MCTranp', 'Tranp_cache_coded.cfg', workers=16, timeout=900)
	design_cex = coded.invariant_violated + coded.action_property_violated
	ctx.log(f'TLC: sound keys {sound.distinct} states OK; keys as coded: {coded.distinct} states, violated at design level: {design_cex or "nothing"}')

	# the five replays are independent: they share one pool of worker processes (started here, before any thread)
	from concurrent.futures import ProcessPoolExecutor, ThreadPoolExecutor
	from harness.fs_replay import replay_walks
	pool = ProcessPoolExecutor(max_workers=16)
	list(pool.map(int, range(64)))

	def edge_stage(graph: str, sound_cfg: str | None, edges_cfg: str, pinned_cfg: str | None = None) -> dict:
		snd = None
		if sound_cfg:
			snd = tlc.run('MCTranp', sound_cfg, workers=4, timeout=900)
			if not snd.ok:
				raise Machinery(f'TLC: the sound-key model violates a C05 clause on the {graph} graph: {snd.out[-1500:]}')
		if pinned_cfg:
			pin = tlc.run('MCTranp', pinned_cfg, workers=4, timeout=900)
			if pin.ok:
				raise Machinery('TLC: a tree cache keyed by modification time only should not be coherent when times return (vacuity guard)')
		res = tlc.run('MCTranp', edges_cfg, workers=1, timeout=900)
		es = [json.loads(line) for line in res.lines('EDGE ')]
		if not es:
			raise Machinery(f'no edges emitted by {edges_cfg}')
		rep = replay_edges(graph, es, pool=pool)
		rep['graph'] = graph
		rep['sound'] = snd.distinct if snd else 0
		rep['edge_list'] = es
		return rep

	def walk_stage() -> dict:
		wres = tlc.run('TranpWalk', 'TranpWalk_cache.cfg', workers=1, timeout=900, seed=ctx.seed + 1)
		rep = replay_walks('Chain', [json.loads(line) for line in wres.lines('EDGE ')], pool=pool)
		rep['graph'] = 'Chain'
		return rep

	try:
		with ThreadPoolExecutor(max_workers=5) as tex:
			f_chain = tex.submit(edge_stage, 'Chain', None, 'Tranp_cache_edges4.cfg' if quick else 'Tranp_cache_edges6.cfg')
			# the diamond a -> {b, c} -> d: two import paths to one module, a different target order
			f_diamond = tex.submit(edge_stage, 'Diamond', 'TranpD_cache_sound.cfg', 'TranpD_cache_edges4.cfg' if quick else 'TranpD_cache_edges5.cfg')
			# twins a -> {b, c}: the two imports are written from one family of contents, so two files can exchange their contents
			f_twins = tex.submit(edge_stage, 'Twins', 'TranpW_cache_sound.cfg', 'TranpW_cache_edges4.cfg' if quick else 'TranpW_cache_edges5.cfg')
			# modification times that do not only grow (an edit may set a time the file had before), three different bodies
			f_pair = tex.submit(edge_stage, 'Pair', 'TranpT_cache_sound.cfg', 'TranpT_cache_edges4.cfg' if quick else 'TranpT_cache_edges5.cfg', 'TranpT_cache_pinned.cfg')
			# long behaviours: random walks chosen by TLC (RandomElement), 13 operations each, replayed step by step
			f_walk = tex.submit(walk_stage)
			replay, dreplay, twreplay, treplay, wreplay = f_chain.result(), f_diamond.result(), f_twins.result(), f_pair.result(), f_walk.result()
	finally:
		pool.shutdown()
	edges = replay['edge_list']
	ctx.log(f'replayed {replay["edges"]} edges ({replay["stats"].get("runs", 0)} real runs, {replay["stats"].get("texts_compared", 0)} output texts compared); {len(replay["failures"])} discrepancies')
	ctx.log(f'diamond graph: sound keys {dreplay["sound"]} states OK; replayed {dreplay["edges"]} edges ({dreplay["stats"].get("runs", 0)} real runs); {len(dreplay["failures"])} discrepancies')
	ctx.log(f'twins graph (contents exchanged between files): sound keys {twreplay["sound"]} states OK; replayed {twreplay["edges"]} edges ({twreplay["stats"].get("runs", 0)} real runs); {len(twreplay["failures"])} discrepancies')
	ctx.log(f'returning modification times: sound keys {treplay["sound"]} states OK; replayed {treplay["edges"]} edges ({treplay["stats"].get("runs", 0)} real runs); {len(treplay["failures"])} discrepancies')
	ctx.log(f'random walks: {wreplay["jobs"]} behaviours of up to {wreplay["longest"]} operations from TranpWalk.tla replayed ({wreplay["stats"].get("runs", 0)} real runs); {len(wreplay["failures"])} discrepancies')
	violations = []
	for rep in (replay, dreplay, twreplay, treplay, wreplay):
		seen = {v.key for v in violations}
		violations += [v for v in collect(ctx, PROP, rep) if v.key not in seen]

	coverage = {
		'states': sound.distinct + coded.distinct,
		'transitions': sound.generated + coded.generated,
		'traces_validated_against_impl': replay['jobs'],
		'edges_replayed_on_impl': replay['edges'],
		'real_runs': replay['stats'].get('runs', 0),
		'real_operations': replay['stats'].get('ops', 0),
		'output_texts_compared_with_cold_run': replay['stats'].get('texts_compared', 0),
		'stale_outputs_reproduced': replay['stats'].get('stale_reproduced', 0),
		'design_level_counterexample_with_coded_keys': design_cex,
		'exhaustive': True,
		'bounds': {'graph': 'chain a->b->c and diamond a->{b,c}->d', 'variants': 2, 'operations': 4 if quick else 5, 'damaged_files': 1},
		'diamond_edges_replayed_on_impl': dreplay['edges'],
		'diamond_real_runs': dreplay['stats'].get('runs', 0),
		'twins_edges_replayed_on_impl': twreplay['edges'],
		'twins_real_runs': twreplay['stats'].get('runs', 0),
		'returning_mtime_edges_replayed_on_impl': treplay['edges'],
		'random_walks_replayed': wreplay['jobs'],
		'random_walk_length': wreplay['longest'],
		'samples': [{'history': [e['op'] for e in edges[:1]]}, {'edge': edges[len(edges) // 2]['op']}],
		'clauses': CLAUSES,
	}
	assumptions = [
		'contents are abstracted by derivation vectors; the generated module family makes the dependence exact',
		'a run = a fresh application object in the harness process (own loader memo, module table, symbol DB), driven through the real TranspileApp/Runner with a generated config.yml',
		'truncation at half of the file length stands for all interruption points in quick; thorough varies the offset',
	]
	return finish(ctx, LEVEL, coverage, violations, assumptions)
