"""C05 — on-disk caches never change the result (spec/Tranp.tla, cache configuration).

1. TLC checks the C05 clauses on the model with SOUND keys (TransitiveKey) - this validates model and
   properties - and explores the model with the keys AS CODED, which yields the design-level counterexample.
2. spec -> code: every edge TLC explores in the as-coded model (edits, runs with caching on/off, clear,
   damage of any cache file) is replayed on a real directory tree through the real command-line runner; the
   directory tree must match the spec state after every step, and the C05 clauses are evaluated on the real
   observations with tranp's own cold run as oracle.
"""
import json

from harness import compat  # noqa: F401
from harness import tlc
from harness.core import Ctx, Machinery, Violation, finish

LEVEL = 'model_checking'
PROP = 'C05'
CLAUSES = ['WarmEqualsCold', 'DisabledIsInert', 'TornNeverWrong', 'CacheCoherent']


def collect(ctx: Ctx, prop: str, replay: dict) -> list[Violation]:
	violations: list[Violation] = []
	groups: dict[str, list] = {}
	for f in replay['failures']:
		if f['kind'] == 'property':
			key = f'{f["clause"]}:{f["shape"]}'
		else:
			key = f'conformance:{f["op"]}:{f["clause"]}'
		groups.setdefault(key, []).append(f)
	for key, fs in sorted(groups.items()):
		shortest = min(fs, key=lambda f: len(f['history']))
		violations.append(Violation(key, shortest['clause'], f'{shortest["detail"]} ({len(fs)} edges; shortest history {len(shortest["history"])} ops)', {'history': shortest['history'], 'graph': replay.get('graph')}))
	return violations


def run(ctx: Ctx) -> int:
	from harness.fs_replay import replay_edges
	quick = ctx.quick
	sound = tlc.run('MCTranp', 'Tranp_cache_sound.cfg', workers=16, timeout=900)
	if not sound.ok:
		raise Machinery(f'TLC: the sound-key model violates a C05 clause - model or property is wrong: {sound.out[-1500:]}')
	coded = tlc.run('MCTranp', 'Tranp_cache_coded.cfg', workers=16, timeout=900)
	design_cex = coded.invariant_violated + coded.action_property_violated
	ctx.log(f'TLC: sound keys {sound.distinct} states OK; keys as coded: {coded.distinct} states, violated at design level: {design_cex or "nothing"}')

	edges_res = tlc.run('MCTranp', 'Tranp_cache_edges4.cfg' if quick else 'Tranp_cache_edges6.cfg', workers=1, timeout=900)
	edges = [json.loads(line) for line in edges_res.lines('EDGE ')]
	if not edges:
		raise Machinery('no edges emitted')
	replay = replay_edges('Chain', edges)
	replay['graph'] = 'Chain'
	ctx.log(f'replayed {replay["edges"]} edges ({replay["stats"].get("runs", 0)} real runs, {replay["stats"].get("texts_compared", 0)} output texts compared); {len(replay["failures"])} discrepancies')
	violations = collect(ctx, PROP, replay)
	# the diamond a -> {b, c} -> d: two import paths to one module, a different target order
	dsound = tlc.run('MCTranp', 'TranpD_cache_sound.cfg', workers=16, timeout=900)
	if not dsound.ok:
		raise Machinery(f'TLC: the sound-key model violates a C05 clause on the diamond graph: {dsound.out[-1500:]}')
	dres = tlc.run('MCTranp', 'TranpD_cache_edges4.cfg' if quick else 'TranpD_cache_edges5.cfg', workers=1, timeout=900)
	dedges = [json.loads(line) for line in dres.lines('EDGE ')]
	dreplay = replay_edges('Diamond', dedges)
	dreplay['graph'] = 'Diamond'
	ctx.log(f'diamond graph: sound keys {dsound.distinct} states OK; replayed {dreplay["edges"]} edges ({dreplay["stats"].get("runs", 0)} real runs); {len(dreplay["failures"])} discrepancies')
	seen = {v.key for v in violations}
	violations += [v for v in collect(ctx, PROP, dreplay) if v.key not in seen]
	# twins a -> {b, c}: the two imports are written from one family of contents, so two files can exchange their contents
	wsound = tlc.run('MCTranp', 'TranpW_cache_sound.cfg', workers=16, timeout=900)
	if not wsound.ok:
		raise Machinery(f'TLC: the sound-key model violates a C05 clause on the twins graph: {wsound.out[-1500:]}')
	twres = tlc.run('MCTranp', 'TranpW_cache_edges4.cfg' if quick else 'TranpW_cache_edges5.cfg', workers=1, timeout=900)
	twedges = [json.loads(line) for line in twres.lines('EDGE ')]
	twreplay = replay_edges('Twins', twedges)
	twreplay['graph'] = 'Twins'
	ctx.log(f'twins graph (contents exchanged between files): sound keys {wsound.distinct} states OK; replayed {twreplay["edges"]} edges ({twreplay["stats"].get("runs", 0)} real runs); {len(twreplay["failures"])} discrepancies')
	seen = {v.key for v in violations}
	violations += [v for v in collect(ctx, PROP, twreplay) if v.key not in seen]
	# modification times that do not only grow (an edit may set a time the file had before), three different bodies
	tsound = tlc.run('MCTranp', 'TranpT_cache_sound.cfg', workers=16, timeout=900)
	if not tsound.ok:
		raise Machinery(f'TLC: the sound-key model violates a C05 clause with returning modification times: {tsound.out[-1500:]}')
	tpinned = tlc.run('MCTranp', 'TranpT_cache_pinned.cfg', workers=16, timeout=900)
	if tpinned.ok:
		raise Machinery('TLC: a tree cache keyed by modification time only should not be coherent when times return (vacuity guard)')
	tres = tlc.run('MCTranp', 'TranpT_cache_edges4.cfg' if quick else 'TranpT_cache_edges5.cfg', workers=1, timeout=900)
	tedges = [json.loads(line) for line in tres.lines('EDGE ')]
	treplay = replay_edges('Pair', tedges)
	treplay['graph'] = 'Pair'
	ctx.log(f'returning modification times: sound keys {tsound.distinct} states OK; replayed {treplay["edges"]} edges ({treplay["stats"].get("runs", 0)} real runs); {len(treplay["failures"])} discrepancies')
	seen = {v.key for v in violations}
	violations += [v for v in collect(ctx, PROP, treplay) if v.key not in seen]
	# long behaviours: random walks chosen by TLC (RandomElement), 13 operations each, replayed step by step
	from harness.fs_replay import replay_walks
	wres = tlc.run('TranpWalk', 'TranpWalk_cache.cfg', workers=1, timeout=900, seed=ctx.seed + 1)
	wedges = [json.loads(line) for line in wres.lines('EDGE ')]
	wreplay = replay_walks('Chain', wedges)
	wreplay['graph'] = 'Chain'
	ctx.log(f'random walks: {wreplay["jobs"]} behaviours of up to {wreplay["longest"]} operations from TranpWalk.tla replayed ({wreplay["stats"].get("runs", 0)} real runs); {len(wreplay["failures"])} discrepancies')
	seen = {v.key for v in violations}
	violations += [v for v in collect(ctx, PROP, wreplay) if v.key not in seen]

	coverage = {
		'states': sound.distinct + coded.distinct,
		'transitions': sound.generated + coded.generated,
		'traces_validated_against_impl': replay['jobs'],
		'edges_replayed_on_impl': replay['edges'],
		'real_runs': replay['stats'].get('runs', 0),
		'real_operations': replay['stats'].get('ops', 0),
		'output_texts_compared_with_cold_run': replay['stats'].get('texts_compared', 0),
		'stale_outputs_reproduced': replay['stats'].get('stale_reproduced', 0),
		'design_level_counterexample_with_coded_keys': design_cex,
		'exhaustive': True,
		'bounds': {'graph': 'chain a->b->c and diamond a->{b,c}->d', 'variants': 2, 'operations': 4 if quick else 5, 'damaged_files': 1},
		'diamond_edges_replayed_on_impl': dreplay['edges'],
		'diamond_real_runs': dreplay['stats'].get('runs', 0),
		'twins_edges_replayed_on_impl': twreplay['edges'],
		'twins_real_runs': twreplay['stats'].get('runs', 0),
		'returning_mtime_edges_replayed_on_impl': treplay['edges'],
		'random_walks_replayed': wreplay['jobs'],
		'random_walk_length': wreplay['longest'],
		'samples': [{'history': [e['op'] for e in edges[:1]]}, {'edge': edges[len(edges) // 2]['op']}],
		'clauses': CLAUSES,
	}
	assumptions = [
		'contents are abstracted by derivation vectors; the generated module family makes the dependence exact',
		'a run = a fresh application object in the harness process (own loader memo, module table, symbol DB), driven through the real TranspileApp/Runner with a generated config.yml',
		'truncation at half of the file length stands for all interruption points in quick; thorough varies the offset',
	]
	return finish(ctx, LEVEL, coverage, violations, assumptions)
