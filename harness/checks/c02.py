"""C02 — the node tree groups programs exactly as CPython parses them (spec/PySrc.tla, spec/PyStmt.tla).

The source model enumerates every well-typed expression with exactly N operators (all association shapes,
Python-minimal parentheses defined by the precedence table in the spec) and statement skeletons; for each
case the canonical form of (a) the model's ast, (b) CPython's ast.parse of the text, (c) tranp's node tree
must coincide. (a) vs (b) differing is a machinery error; a VIOLATION is reported when (a) = (b) != (c).
"""
import ast
from concurrent.futures import ProcessPoolExecutor

from harness import compat  # noqa: F401
from harness.core import Ctx, Machinery, Violation, finish

LEVEL = 'model_checking'
BATCH = 120


def _check_batch(args) -> dict:
	cases, first = args
	from harness import srcmodel
	from harness.tranp_env import Env, enter_scratch
	enter_scratch('verif-c02-')
	failures, machinery = [], []
	program = srcmodel.program_of(cases, first)
	try:
		env = Env()
		module = env.reload_main(program)
		funcs = srcmodel.function_nodes(module.entrypoint)
	except Exception as e:
		return {'failures': [{'clause': 'accepted', 'detail': f'{type(e).__name__}: {str(e)[:200]}', 'text': cases[0]['text'], 'batch': [c['text'] for c in cases]}], 'machinery': []}
	if len(funcs) != len(cases):
		return {'failures': [{'clause': 'statement-count', 'detail': f'{len(funcs)} functions for {len(cases)} cases', 'text': cases[0]['text']}], 'machinery': []}
	for case, fn in zip(cases, funcs):
		want = srcmodel.canon_model(case['ast'])
		ref = srcmodel.canon_cpython(ast.parse(case['text'], mode='eval'))
		if want != ref:
			machinery.append(f'spec and CPython disagree on {case["text"]!r}: {want} vs {ref}')
			continue
		try:
			got = srcmodel.canon_tranp(fn.statements[0].return_value)
		except Exception as e:
			got = ('error', type(e).__name__, str(e)[:100])
		if got != want:
			failures.append({'clause': 'grouping', 'detail': f'{case["text"]!r}: tranp {got} vs python {want}', 'text': case['text'], 'ops': _ops(case['ast'])})
	return {'failures': failures, 'machinery': machinery}


def _ops(n: dict) -> list[str]:
	k = n['k']
	if k in ('var', 'int'):
		return []
	if k in ('bin', 'cmp', 'bool'):
		return [n['op']] + _ops(n['l']) + _ops(n['r'])
	if k in ('un',):
		return ['u' + n['op']] + _ops(n['e1'])
	if k == 'not':
		return ['not'] + _ops(n['e1'])
	return ['?:'] + _ops(n['c']) + _ops(n['a']) + _ops(n['b1'])


def run(ctx: Ctx) -> int:
	from harness import srcmodel
	from harness.checks import c02_stmt
	quick = ctx.quick
	cases = []
	for n in ([1, 2] if quick else [1, 2, 3]):
		cs, _ = srcmodel.load_cases(n)
		cases += cs
	ctx.log(f'TLC enumerated {len(cases)} expressions (model facts Total / ChildInsideParent hold)')
	batches = [(cases[i:i + BATCH], i) for i in range(0, len(cases), BATCH)]
	with ProcessPoolExecutor(max_workers=16) as ex:
		results = list(ex.map(_check_batch, batches))
	machinery = [m for r in results for m in r['machinery']]
	if machinery:
		raise Machinery(f'{len(machinery)} cases where spec and CPython disagree, e.g. {machinery[0]}')
	failures = [f for r in results for f in r['failures']]
	ctx.log(f'{len(cases)} expressions: model = CPython on all; tranp differs on {len(failures)}')
	stmt_violations, stmt_cov = c02_stmt.run_statements(ctx)
	from harness.checks import c02_prim
	prim_violations, prim_cov = c02_prim.run_primary(ctx)
	violations = list(stmt_violations) + list(prim_violations)
	groups: dict[str, list] = {}
	for f in failures:
		key = f'{f["clause"]}:{"/".join(sorted(set(f.get("ops", []))))}'
		groups.setdefault(key, []).append(f)
	for key, fs in sorted(groups.items()):
		s = min(fs, key=lambda f: len(f['text']))
		violations.append(Violation(key, s['clause'], f'{s["detail"]} ({len(fs)} cases)', {'text': s['text']}))
	coverage = {
		**prim_cov,
		'states': len(cases) + stmt_cov.get('statement_cases', 0),
		'transitions': len(cases),
		'traces_validated_against_impl': len(cases) + stmt_cov.get('statement_cases', 0),
		'expressions': len(cases),
		'operators_per_expression': [1, 2] if quick else [1, 2, 3],
		'three_way_agreement_spec_cpython': len(cases),
		'exhaustive': True,
		'samples': [cases[len(cases) // 3]['text'], cases[-1]['text']],
		**stmt_cov,
	}
	assumptions = ['universe = well-typed int/bool expressions over 9 arithmetic/bitwise, 6 comparison, 2 boolean, 3 unary operators, not, ternary; comparison chains are a separate family', 'statement skeletons: see spec/PyStmt.tla']
	return finish(ctx, LEVEL, coverage, violations, assumptions)
