"""C13 — the tokenizer agrees with Python and ignores insignificant layout (spec/TokLayout.tla).

1. TLC builds every program of up to N logical lines from a pool of bodies (valid indentation by construction)
   and every layout reachable by up to R rewrites (indent unit, blank / comment lines, trailing comments and
   blanks, blanks around operators, continuation-line indent, backslash continuation); invariants:
   IndentsBalance, ValidIndent, LayoutInsensitive.
2. spec -> code: for every (program, layout) the concrete text defined by the spec is tokenized by the real
   Tokenizer; the significant token sequence must equal Sig(program) - which does not depend on the layout -
   with CPython's tokenize as referee (a disagreement between spec and CPython is a machinery error);
   the raw lexer tokens must tile the source and each recorded span must address exactly the token's text.
3. spec/TokMunch.tla: the lexer proper as a transition system (one action per token domain, symbol lookup three,
   two, one characters, the unary-minus look-ahead, the end of the text) against Python's maximal-munch rule;
   TLC checks MunchAgrees / Progress on every run of symbol characters between operands (with and without
   blanks and a final line break) and must find the counterexample when the lookup is single characters only;
   every text goes through the real Tokenizer, the spec and CPython (clause MaximalMunch; tiling for all texts).
"""
import io
import json
import re
import tokenize
from concurrent.futures import ProcessPoolExecutor

from harness import compat  # noqa: F401
from harness import tlc
from harness.core import Ctx, Machinery, Violation, finish

LEVEL = 'model_checking'


def cpython_sig(text: str) -> list[tuple[str, str]]:
	res = []
	for t in tokenize.generate_tokens(io.StringIO(text).readline):
		if t.type in (tokenize.COMMENT, tokenize.NL, tokenize.ENDMARKER):
			continue
		if t.type == tokenize.NEWLINE:
			res.append(('newline', ''))
		elif t.type == tokenize.INDENT:
			res.append(('indent', ''))
		elif t.type == tokenize.DEDENT:
			res.append(('dedent', ''))
		elif t.type == tokenize.NAME:
			res.append(('name', t.string))
		elif t.type == tokenize.NUMBER:
			res.append(('number', t.string))
		elif t.type == tokenize.STRING:
			res.append(('string', t.string))
		else:
			res.append(('op', t.string))
	return res


def _tiling(lexer, TokenTypes, text: str, layout) -> list[dict]:
	"""raw tokens: tile the source, spans address the text"""
	failures = []
	raw = lexer.parse_impl(text)
	line_starts = [0]
	for i, ch in enumerate(text):
		if ch == '\n':
			line_starts.append(i + 1)

	def offset_of(line: int, col: int) -> int:
		return line_starts[line] + col if line < len(line_starts) else len(text)

	pos = 0
	for tok in raw:
		sm = tok.source_map
		b = offset_of(sm.begin_line, sm.begin_column)
		e = offset_of(sm.end_line, sm.end_column)
		piece = text[b:e]
		expect = tok.string
		if tok.type == TokenTypes.Minus and tok.string != '-':
			expect = '-'
		if tok.type in (TokenTypes.LineBreak, TokenTypes.WhiteSpace):
			piece = piece.replace('\\\n', '')
		if b != pos:
			failures.append({'clause': 'RoundTrip', 'detail': f'raw token {tok.string!r} starts at {b}, previous ended at {pos}', 'text': text, 'layout': layout})
			break
		if piece != expect:
			failures.append({'clause': 'SpanExact', 'detail': f'span of {tok.string!r} addresses {piece!r}', 'text': text, 'layout': layout})
			break
		pos = e
	else:
		if pos != len(text):
			failures.append({'clause': 'RoundTrip', 'detail': f'raw tokens end at {pos}, source has {len(text)} characters', 'text': text, 'layout': layout})
	return failures


def _classify(TokenTypes, tok) -> tuple[str, str]:
	t = tok.type
	if t == TokenTypes.NewLine:
		return ('newline', '')
	if t == TokenTypes.Indent:
		return ('indent', '')
	if t == TokenTypes.Dedent:
		return ('dedent', '')
	if t == TokenTypes.Name:
		return ('name', tok.string)
	if t in (TokenTypes.Digit, TokenTypes.Decimal):
		return ('number', tok.string)
	if t == TokenTypes.String:
		return ('string', tok.string)
	if t == TokenTypes.Minus:
		return ('op', '-')
	return ('op', tok.string)


def _check_munch(args) -> dict:
	"""TokMunch / TokQuote: the lexer's final state for every text - the tokens of a supported text are Python's"""
	cases, clause, tile_all = args
	from rogw.tranp.implements.syntax.tranp.token import TokenDefinition, TokenTypes
	from rogw.tranp.implements.syntax.tranp.tokenizer import Lexer, Tokenizer
	tokenizer = Tokenizer()
	lexer = Lexer(TokenDefinition())
	failures, machinery, supported, drift = [], [], 0, []
	for case in cases:
		text = case['text']
		layout = {'model': clause}
		if tile_all or case['supported']:
			try:
				failures += _tiling(lexer, TokenTypes, text, layout)
			except Exception as e:
				failures.append({'clause': 'RoundTrip', 'detail': f'the lexer raises {type(e).__name__}: {str(e)[:80]}', 'text': text, 'layout': layout})
				continue
		if not case['supported']:
			continue
		supported += 1
		ref = [(t['c'], t['s']) for t in case['ref']]
		model = [(t['c'], t['s']) for t in case['toks']]
		try:
			py = cpython_sig(text)
			py_kinds = cpython_minus_kinds(text)
		except (tokenize.TokenError, IndentationError, SyntaxError) as e:
			machinery.append(f'CPython rejects a supported text: {type(e).__name__} {text!r}')
			continue
		if py != ref:
			machinery.append(f'spec (Ref) and CPython disagree on {text!r}: spec {ref} cpython {py}')
			continue
		if py_kinds != model:
			machinery.append(f'the lexer model and CPython\'s token positions disagree on which minus signs touch their operand in {text!r}: model {model} cpython {py_kinds}')
			continue
		try:
			toks = tokenizer.parse(text)
		except Exception as e:
			failures.append({'clause': clause, 'detail': f'{type(e).__name__}: {str(e)[:100]}', 'text': text, 'layout': layout})
			continue
		got = [_classify(TokenTypes, t) for t in toks]
		got_kinds = [('uminus', '-') if t.type == TokenTypes.Minus and t.string != '-' else c for t, c in zip(toks, got)]
		if got != ref:
			k = next((i for i, (a, b) in enumerate(zip(got, ref)) if a != b), min(len(got), len(ref)))
			failures.append({'clause': clause, 'detail': f'token #{k}: tranp {got[k:k + 3]} vs python {ref[k:k + 3]}', 'text': text, 'layout': layout})
		elif got_kinds != model:
			# which minus sign counts as the unary one is tranp's own convention: C13 leaves it open ("other than after
			# a minus sign"), so a departure from the model is reported as a note; the own parser's sentences (C11) decide
			k = next(i for i, (a, b) in enumerate(zip(got_kinds, model)) if a != b)
			drift.append(f'{text!r}: token #{k} is {got_kinds[k][0]}, the lexer model has {model[k][0]}')
	return {'failures': failures, 'machinery': machinery, 'supported': supported, 'drift': drift}


def cpython_minus_kinds(text: str) -> list[tuple[str, str]]:
	"""cpython_sig, with a minus sign that directly touches the next token on its line marked 'uminus' (positions from CPython's tokenizer)"""
	toks = [t for t in tokenize.generate_tokens(io.StringIO(text).readline) if t.type not in (tokenize.COMMENT, tokenize.NL, tokenize.ENDMARKER)]
	sig = cpython_sig(text)
	res = []
	for i, (t, c) in enumerate(zip(toks, sig)):
		if t.type == tokenize.OP and t.string == '-' and i + 1 < len(toks) and toks[i + 1].type != tokenize.NEWLINE and toks[i + 1].start == t.end:
			res.append(('uminus', '-'))
		else:
			res.append(c)
	return res


def _check(cases: list[dict]) -> dict:
	from rogw.tranp.implements.syntax.tranp.token import TokenDefinition, TokenTypes
	from rogw.tranp.implements.syntax.tranp.tokenizer import Lexer, Tokenizer
	tokenizer = Tokenizer()
	lexer = Lexer(TokenDefinition())
	failures = []
	machinery = []

	def classify(tok) -> tuple[str, str]:
		t = tok.type
		if t == TokenTypes.NewLine:
			return ('newline', '')
		if t == TokenTypes.Indent:
			return ('indent', '')
		if t == TokenTypes.Dedent:
			return ('dedent', '')
		if t == TokenTypes.Name:
			return ('name', tok.string)
		if t in (TokenTypes.Digit, TokenTypes.Decimal):
			return ('number', tok.string)
		if t == TokenTypes.String:
			return ('string', tok.string)
		if t == TokenTypes.Minus:
			return ('op', '-')
		return ('op', tok.string)

	for case in cases:
		text = case['text']
		sig = [(t['c'], t['s']) for t in case['sig']]
		try:
			ref = cpython_sig(text)
		except (tokenize.TokenError, IndentationError, SyntaxError) as e:
			machinery.append(f'CPython rejects a generated source: {type(e).__name__} {text!r}')
			continue
		if ref != sig:
			machinery.append(f'spec and CPython disagree on {text!r}: spec {sig[:12]} ... cpython {ref[:12]}')
			continue
		try:
			got = [classify(t) for t in tokenizer.parse(text)]
		except Exception as e:
			failures.append({'clause': 'TokensEqualPython', 'detail': f'{type(e).__name__}: {str(e)[:100]}', 'text': text, 'layout': case['layout']})
			continue
		if got != sig:
			k = next((i for i, (a, b) in enumerate(zip(got, sig)) if a != b), min(len(got), len(sig)))
			failures.append({'clause': 'TokensEqualPython' if case['layout']['n'] == 0 else 'LayoutInsensitive', 'detail': f'token #{k}: tranp {got[k:k + 3]} vs python {sig[k:k + 3]}', 'text': text, 'layout': case['layout']})
			continue
		failures += _tiling(lexer, TokenTypes, text, case['layout'])
	return {'failures': failures, 'machinery': machinery}


def shape(text: str) -> str:
	feats = []
	if '\\\n' in text:
		feats.append('backslash-continuation')
	if '#' in text:
		feats.append('comment')
	if '\n\n' in text or text.startswith('\n'):
		feats.append('blank-line')
	if '\t' not in text and '\n ' in text:
		feats.append('space-indent')
	if '\r\n' in text:
		feats.append('crlf')
	if not text.endswith('\n'):
		feats.append('no-final-line-break')
	if re.search(r'\n[ \t]+\r?\n', text):
		feats.append('blanks-on-blank-line')
	if '\\"' in text or "r'" in text:
		feats.append('escapes')
	return '+'.join(feats) or 'canonical'


def run(ctx: Ctx) -> int:
	quick = ctx.quick
	# all TLC jobs are independent of one another: run them side by side
	from concurrent.futures import ThreadPoolExecutor
	layout_cfgs = ['TokLayout_emit_2_2.cfg', 'TokLayout_emit_3_1.cfg', 'TokLayout_emit_deep.cfg'] if quick else ['TokLayout_emit_2_3.cfg', 'TokLayout_emit.cfg', 'TokLayout_emit_deep.cfg']
	jobs = {
		**({'laws': ('TokLayout', 'TokLayout_q31.cfg', 4, 1500), 'laws2': ('TokLayout', 'TokLayout_q22.cfg', 2, 1500)} if quick else {'laws': ('TokLayout', 'TokLayout.cfg', 8, 1500)}),
		'munch': ('TokMunch', 'TokMunch_2.cfg' if quick else 'TokMunch_3.cfg', 2, 2400),
		'munch_pinned': ('TokMunch', 'TokMunch_pinned.cfg', 1, 600),
		'munch_emit': ('TokMunch', 'TokMunch_emit2.cfg' if quick else 'TokMunch_emit3.cfg', 1, 3000),
		'quote': ('TokQuote', 'TokQuote_3.cfg' if quick else 'TokQuote_5.cfg', 2, 2400),
		'quote_pinned': ('TokQuote', 'TokQuote_pinned.cfg', 1, 600),
		'quote_emit': ('TokQuote', 'TokQuote_emit3.cfg' if quick else 'TokQuote_emit5.cfg', 1, 3000),
		**{f'layout_emit_{k}': ('TokLayout', cfg, 1, 2400) for k, cfg in enumerate(layout_cfgs)},
		'blocks': ('TokBlocks', 'TokBlocks_4.cfg' if quick else 'TokBlocks_5.cfg', 2, 3000),
		'blocks_pinned': ('TokBlocks', 'TokBlocks_pinned.cfg', 1, 600),
		'blocks_emit': ('TokBlocks', 'TokBlocks_emit4.cfg' if quick else 'TokBlocks_emit5.cfg', 1, 3000),
	}
	with ThreadPoolExecutor(max_workers=len(jobs)) as tex:
		futures = {name: tex.submit(tlc.run, module, cfg, workers=workers, timeout=timeout, heap='8g') for name, (module, cfg, workers, timeout) in jobs.items()}
		done = {name: f.result() for name, f in futures.items()}
	laws, munch, pinned, quote, qpinned = done['laws'], done['munch'], done['munch_pinned'], done['quote'], done['quote_pinned']
	for name in ('laws', 'laws2'):
		if name in done and not done[name].ok:
			raise Machinery(f'TLC: TokLayout.tla violates one of its own properties: {done[name].out[-1200:]}')
	n_layout_states = laws.distinct + (done['laws2'].distinct if 'laws2' in done else 0)
	ctx.log(f'TLC: {n_layout_states} states (programs x layouts), IndentsBalance / ValidIndent / LayoutInsensitive hold')
	cases = []
	for k in range(len(layout_cfgs)):
		cases += [json.loads(line) for line in done[f'layout_emit_{k}'].lines('CASE ')]
	# the lexer proper: TokMunch.tla - the lexer as a transition system against Python's maximal-munch rule
	if not munch.ok:
		raise Machinery(f'TLC: TokMunch.tla violates MunchAgrees / Progress as coded: {munch.out[-1200:]}')
	if pinned.ok:
		raise Machinery('TokMunch_pinned.cfg (single characters only) satisfies MunchAgrees: the invariant is vacuous')
	munch_cases = [json.loads(line) for line in done['munch_emit'].lines('CASE ')]
	if len(munch_cases) < 7000:
		raise Machinery(f'TokMunch emitted {len(munch_cases)} texts only')
	ctx.log(f'TLC: TokMunch {munch.distinct} lexer states, MunchAgrees / Progress hold as coded, violated with single-character lookup; {len(munch_cases)} texts emitted')
	# string literals: TokQuote.tla - parse_quote's search for the closing quote against Python's left-to-right rule
	if not quote.ok:
		raise Machinery(f'TLC: TokQuote.tla violates QuoteAgrees / Progress: {quote.out[-1200:]}')
	if qpinned.ok:
		raise Machinery('TokQuote_pinned.cfg (search resumes behind the whole closing quote) satisfies QuoteAgrees: the invariant is vacuous')
	quote_cases = [json.loads(line) for line in done['quote_emit'].lines('CASE ')]
	if len(quote_cases) < 4000:
		raise Machinery(f'TokQuote emitted {len(quote_cases)} texts only')
	ctx.log(f'TLC: TokQuote {quote.distinct} lexer states, QuoteAgrees / Progress hold, violated when the search skips a whole closing quote; {len(quote_cases)} texts emitted')
	# statement ends and block markers: TokBlocks.tla - the rebuild step (nest / enclosure / indent unit) against Python's width stack
	if not done['blocks'].ok:
		raise Machinery(f'TLC: TokBlocks.tla violates BlocksAgree / IndentsBalance / Progress: {done["blocks"].out[-1200:]}')
	if done['blocks_pinned'].ok:
		raise Machinery('TokBlocks_pinned.cfg (any widths Python accepts) satisfies BlocksAgree: the consistency condition is vacuous')
	block_cases = [json.loads(line) for line in done['blocks_emit'].lines('CASE ')]
	if len(block_cases) < 3000:
		raise Machinery(f'TokBlocks emitted {len(block_cases)} programs only')
	ctx.log(f'TLC: TokBlocks {done["blocks"].distinct} rebuild states, BlocksAgree / IndentsBalance hold for consistent widths, violated without that condition; {len(block_cases)} programs emitted')
	seen = {}
	for c in cases:
		seen.setdefault(c['text'], c)
	cases = list(seen.values())
	nproc = 16
	with ProcessPoolExecutor(max_workers=nproc) as ex:
		results = list(ex.map(_check, [cases[i::nproc] for i in range(nproc)]))
		mresults = list(ex.map(_check_munch, [(munch_cases[i::nproc], 'MaximalMunch', True) for i in range(nproc)]))
		qresults = list(ex.map(_check_munch, [(quote_cases[i::nproc], 'LiteralEndsWherePythonEndsIt', False) for i in range(nproc)]))
		bresults = list(ex.map(_check_munch, [(block_cases[i::nproc], 'BlockMarkers', True) for i in range(nproc)]))
	results += mresults + qresults + bresults
	b_supported = sum(r['supported'] for r in bresults)
	if b_supported < len(block_cases) // 10:
		raise Machinery(f'only {b_supported} of {len(block_cases)} block programs are in the supported subset')
	q_supported = sum(r['supported'] for r in qresults)
	if q_supported < len(quote_cases) // 10:
		raise Machinery(f'only {q_supported} of {len(quote_cases)} string-literal texts are in the supported subset')
	n_supported = sum(r['supported'] for r in mresults)
	if n_supported < len(munch_cases) // 4:
		raise Machinery(f'only {n_supported} of {len(munch_cases)} symbol-run texts are in the supported subset')
	drift = [d for r in mresults for d in r['drift']]
	if drift:
		ctx.log(f'NOTE: the lexer departs from the model of the unary-minus convention on {len(drift)} texts (e.g. {drift[0]}); C13 leaves that convention open')
	machinery = [m for r in results for m in r['machinery']]
	if machinery:
		raise Machinery(f'{len(machinery)} generated sources where spec and CPython disagree, e.g. {machinery[0]}')
	failures = [f for r in results for f in r['failures']]
	ctx.log(f'{len(cases)} distinct sources and {len(munch_cases)} symbol-run texts ({n_supported} supported), {len(quote_cases)} string-literal texts ({q_supported} supported), {len(block_cases)} block programs ({b_supported} supported) tokenized by tranp, CPython and the spec: {len(failures)} discrepancies')
	violations = []
	groups: dict[str, list] = {}
	for f in failures:
		groups.setdefault(f'{f["clause"]}:{shape(f["text"])}', []).append(f)
	for key, fs in sorted(groups.items()):
		s = min(fs, key=lambda f: len(f['text']))
		violations.append(Violation(key, s['clause'], f'{s["detail"]} on {s["text"]!r} ({len(fs)} sources)', {'text': s['text'], 'layout': s['layout']}))
	coverage = {
		'states': n_layout_states,
		'transitions': laws.generated,
		'traces_validated_against_impl': len(cases),
		'sources_tokenized': len(cases),
		'symbol_run_texts': len(munch_cases),
		'symbol_run_texts_supported': n_supported,
		'lexer_states': munch.distinct + quote.distinct,
		'string_literal_texts': len(quote_cases),
		'block_programs': len(block_cases),
		'block_programs_supported': b_supported,
		'string_literal_texts_supported': q_supported,
		'unary_minus_convention_departures': len(drift),
		'three_way_agreement_spec_cpython': len(cases),
		'exhaustive': True,
		'bounds': {'layout': '3 lines x 1 rewrite and 2 lines x 2 rewrites' if quick else '3 lines x 2-3 rewrites', 'deep_programs': '5 lines, 3 levels', 'bodies': 12, 'indent_units': 4, 'symbol_run': 2 if quick else 3, 'literal_body': 3 if quick else 5},
		'samples': [cases[len(cases) // 2]['text'], cases[len(cases) // 5]['text']],
	}
	assumptions = ['lexical subset: decimal ints/floats, \' " """ quotes with escapes and r-prefix, operators of tranp\'s own tables that CPython lexes identically']
	return finish(ctx, LEVEL, coverage, violations, assumptions)
