"""C13 — the tokenizer agrees with Python and ignores insignificant layout (spec/TokLayout.tla).

1. TLC builds every program of up to N logical lines from a pool of bodies (valid indentation by construction)
   and every layout reachable by up to R rewrites (indent unit, blank / comment lines, trailing comments and
   blanks, blanks around operators, continuation-line indent, backslash continuation); invariants:
   IndentsBalance, ValidIndent, LayoutInsensitive.
2. spec -> code: for every (program, layout) the concrete text defined by the spec is tokenized by the real
   Tokenizer; the significant token sequence must equal Sig(program) - which does not depend on the layout -
   with CPython's tokenize as referee (a disagreement between spec and CPython is a machinery error);
   the raw lexer tokens must tile the source and each recorded span must address exactly the token's text.
"""
import io
import json
import tokenize
from concurrent.futures import ProcessPoolExecutor

from harness import compat  # noqa: F401
from harness import tlc
from harness.core import Ctx, Machinery, Violation, finish

LEVEL = 'model_checking'


def cpython_sig(text: str) -> list[tuple[str, str]]:
	res = []
	for t in tokenize.generate_tokens(io.StringIO(text).readline):
		if t.type in (tokenize.COMMENT, tokenize.NL, tokenize.ENDMARKER):
			continue
		if t.type == tokenize.NEWLINE:
			res.append(('newline', ''))
		elif t.type == tokenize.INDENT:
			res.append(('indent', ''))
		elif t.type == tokenize.DEDENT:
			res.append(('dedent', ''))
		elif t.type == tokenize.NAME:
			res.append(('name', t.string))
		elif t.type == tokenize.NUMBER:
			res.append(('number', t.string))
		elif t.type == tokenize.STRING:
			res.append(('string', t.string))
		else:
			res.append(('op', t.string))
	return res


def _check(cases: list[dict]) -> dict:
	from rogw.tranp.implements.syntax.tranp.token import TokenDefinition, TokenTypes
	from rogw.tranp.implements.syntax.tranp.tokenizer import Lexer, Tokenizer
	tokenizer = Tokenizer()
	lexer = Lexer(TokenDefinition())
	failures = []
	machinery = []

	def classify(tok) -> tuple[str, str]:
		t = tok.type
		if t == TokenTypes.NewLine:
			return ('newline', '')
		if t == TokenTypes.Indent:
			return ('indent', '')
		if t == TokenTypes.Dedent:
			return ('dedent', '')
		if t == TokenTypes.Name:
			return ('name', tok.string)
		if t in (TokenTypes.Digit, TokenTypes.Decimal):
			return ('number', tok.string)
		if t == TokenTypes.String:
			return ('string', tok.string)
		if t == TokenTypes.Minus:
			return ('op', '-')
		return ('op', tok.string)

	def offset_of(text: str, line_starts: list[int], line: int, col: int) -> int:
		return line_starts[line] + col if line < len(line_starts) else len(text)

	for case in cases:
		text = case['text']
		sig = [(t['c'], t['s']) for t in case['sig']]
		try:
			ref = cpython_sig(text)
		except (tokenize.TokenError, IndentationError, SyntaxError) as e:
			machinery.append(f'CPython rejects a generated source: {type(e).__name__} {text!r}')
			continue
		if ref != sig:
			machinery.append(f'spec and CPython disagree on {text!r}: spec {sig[:12]} ... cpython {ref[:12]}')
			continue
		try:
			got = [classify(t) for t in tokenizer.parse(text)]
		except Exception as e:
			failures.append({'clause': 'TokensEqualPython', 'detail': f'{type(e).__name__}: {str(e)[:100]}', 'text': text, 'layout': case['layout']})
			continue
		if got != sig:
			k = next((i for i, (a, b) in enumerate(zip(got, sig)) if a != b), min(len(got), len(sig)))
			failures.append({'clause': 'TokensEqualPython' if case['layout']['n'] == 0 else 'LayoutInsensitive', 'detail': f'token #{k}: tranp {got[k:k + 3]} vs python {sig[k:k + 3]}', 'text': text, 'layout': case['layout']})
			continue
		# raw tokens: tile the source, spans address the text
		raw = lexer.parse_impl(text)
		line_starts = [0]
		for i, ch in enumerate(text):
			if ch == '\n':
				line_starts.append(i + 1)
		pos = 0
		for tok in raw:
			sm = tok.source_map
			b = offset_of(text, line_starts, sm.begin_line, sm.begin_column)
			e = offset_of(text, line_starts, sm.end_line, sm.end_column)
			piece = text[b:e]
			expect = tok.string
			if tok.type == TokenTypes.Minus and tok.string != '-':
				expect = '-'
			if tok.type in (TokenTypes.LineBreak, TokenTypes.WhiteSpace):
				piece = piece.replace('\\\n', '')
			if b != pos:
				failures.append({'clause': 'RoundTrip', 'detail': f'raw token {tok.string!r} starts at {b}, previous ended at {pos}', 'text': text, 'layout': case['layout']})
				break
			if piece != expect:
				failures.append({'clause': 'SpanExact', 'detail': f'span of {tok.string!r} addresses {piece!r}', 'text': text, 'layout': case['layout']})
				break
			pos = e
		else:
			if pos != len(text):
				failures.append({'clause': 'RoundTrip', 'detail': f'raw tokens end at {pos}, source has {len(text)} characters', 'text': text, 'layout': case['layout']})
	return {'failures': failures, 'machinery': machinery}


def shape(text: str) -> str:
	feats = []
	if '\\\n' in text:
		feats.append('backslash-continuation')
	if '#' in text:
		feats.append('comment')
	if '\n\n' in text or text.startswith('\n'):
		feats.append('blank-line')
	if '\t' not in text and '\n ' in text:
		feats.append('space-indent')
	if '\\"' in text or "r'" in text:
		feats.append('escapes')
	return '+'.join(feats) or 'canonical'


def run(ctx: Ctx) -> int:
	quick = ctx.quick
	laws = tlc.run('TokLayout', 'TokLayout.cfg', workers=16, timeout=1500)
	if not laws.ok:
		raise Machinery(f'TLC: TokLayout.tla violates one of its own properties: {laws.out[-1200:]}')
	ctx.log(f'TLC: {laws.distinct} states (programs x layouts), IndentsBalance / ValidIndent / LayoutInsensitive hold')
	cases = []
	for cfg in (['TokLayout_emit_2_2.cfg', 'TokLayout_emit_3_1.cfg', 'TokLayout_emit_deep.cfg'] if quick else ['TokLayout_emit_2_3.cfg', 'TokLayout_emit.cfg', 'TokLayout_emit_deep.cfg']):
		res = tlc.run('TokLayout', cfg, workers=1, timeout=2400, heap='8g')
		cases += [json.loads(line) for line in res.lines('CASE ')]
	seen = {}
	for c in cases:
		seen.setdefault(c['text'], c)
	cases = list(seen.values())
	nproc = 16
	with ProcessPoolExecutor(max_workers=nproc) as ex:
		results = list(ex.map(_check, [cases[i::nproc] for i in range(nproc)]))
	machinery = [m for r in results for m in r['machinery']]
	if machinery:
		raise Machinery(f'{len(machinery)} generated sources where spec and CPython disagree, e.g. {machinery[0]}')
	failures = [f for r in results for f in r['failures']]
	ctx.log(f'{len(cases)} distinct sources tokenized by tranp, CPython and the spec: {len(failures)} discrepancies')
	violations = []
	groups: dict[str, list] = {}
	for f in failures:
		groups.setdefault(f'{f["clause"]}:{shape(f["text"])}', []).append(f)
	for key, fs in sorted(groups.items()):
		s = min(fs, key=lambda f: len(f['text']))
		violations.append(Violation(key, s['clause'], f'{s["detail"]} on {s["text"]!r} ({len(fs)} sources)', {'text': s['text'], 'layout': s['layout']}))
	coverage = {
		'states': laws.distinct,
		'transitions': laws.generated,
		'traces_validated_against_impl': len(cases),
		'sources_tokenized': len(cases),
		'three_way_agreement_spec_cpython': len(cases),
		'exhaustive': True,
		'bounds': {'logical_lines': 3, 'bodies': 10, 'rewrites': 2, 'indent_units': 4},
		'samples': [cases[len(cases) // 2]['text'], cases[len(cases) // 5]['text']],
	}
	assumptions = ['lexical subset: decimal ints/floats, \' " """ quotes with escapes and r-prefix, operators of tranp\'s own tables that CPython lexes identically']
	return finish(ctx, LEVEL, coverage, violations, assumptions)
