"""C12 — the grammar engine reproduces itself and its compiled rule files (spec/MetaGram.tla).

TLC enumerates every right-hand side with exactly N constructs of the meta-grammar (juxtaposition, `|`, `[ ]`,
`( )`, `( )* + ?` over symbols, "strings" and /regexps/ including the quoting and escape cases) and gives, per case,
the text, the tuple tree the meta-parse must yield, the pattern structure Rules.from_ast must build, the printed form
and the structure up to redundant grouping (Norm); TLC proves RoundTrip (Norm(Parse(Pretty(M(e)))) = Norm(M(e))) for
the repaired printer and exhibits the counterexamples of the printer as coded at the pinned commit.
Replay: every case becomes a grammar file; the real engine meta-parses it (gram_rules + gram_tokenizer), Rules.from_ast
builds the rules, Rules.pretty prints them, the printout is parsed again; gram_check's renderer compiles the tree to a
rule module which is executed. Checked: tree = Tup, structure = M, Norm(reparsed) = Norm, compiled structure =
original structure, and original / reparsed / compiled rules give the same verdict and tree on every sentence of up to
three words. data/syntax/gram.lark itself is written down in the module (GramLark) and bound to the shipped files; the
two fixed-point obligations are checked on the shipped grammars.
"""
import ast
import itertools
import json
import os
import signal
from concurrent.futures import ProcessPoolExecutor

from harness import compat  # noqa: F401
from harness import tlc
from harness.core import Ctx, Machinery, Violation, finish

LEVEL = 'model_checking'
WORDS = ['p', 'q', 'qq', 'k', 'r', 'rr']
UNWRAPS = ['', '[1]', '[*]']


def struct(p) -> dict:
	from rogw.tranp.implements.syntax.tranp.rule import Pattern
	if isinstance(p, Pattern):
		return {'t': 'pat', 'role': p.role.name, 'comp': p.comp.name, 'e': p.expression}
	return {'t': 'grp', 'op': p.op.name, 'rep': p.rep.value, 'es': [struct(e) for e in p.entries]}


def rules_struct(rules) -> list:
	return [(key, struct(rules._rules[key])) for key in rules.org_symbols()]


def norm(m: dict) -> dict:
	"""spec Norm: one-entry plain groups vanish, plain groups dissolve in a parent of the same operator"""
	if m['t'] == 'pat':
		return m
	es = []
	for e in m['es']:
		h = norm(e)
		if h['t'] == 'grp' and h['rep'] == 'off' and h['op'] == m['op']:
			es.extend(h['es'])
		else:
			es.append(h)
	if m['rep'] == 'off' and len(es) == 1:
		return es[0]
	if len(es) == 1 and es[0]['t'] == 'grp' and es[0]['rep'] == 'off':
		return {'t': 'grp', 'op': es[0]['op'], 'rep': m['rep'], 'es': es[0]['es']}
	return {'t': 'grp', 'op': m['op'], 'rep': m['rep'], 'es': es}


def nullable(m: dict) -> bool:
	if m['t'] == 'pat':
		return False
	if m['rep'] in ('*', '?', '[]'):
		return True
	inner = [nullable(e) for e in m['es']]
	return all(inner) if m['op'] == 'And' else any(inner)


def loops(m: dict) -> bool:
	"""a repetition whose body can match nothing never advances (the engine spins); such grammars get no sentences"""
	if m['t'] == 'pat':
		return False
	if m['rep'] in ('*', '+') and nullable({**m, 'rep': 'off'}):
		return True
	return any(loops(e) for e in m['es'])


def listify(x):
	if isinstance(x, (tuple, list)):
		return [listify(y) for y in x]
	return x


class _Timeout(Exception):
	pass


def _alarm(signum, frame):
	raise _Timeout()


def _engine():
	compat.patch_rules()
	from data.syntax.gram_rules import gram_rules
	from data.syntax.gram_tokenizer import gram_tokenizer
	from rogw.tranp.bin.gram_check import App, Args
	from rogw.tranp.implements.syntax.tranp.rule import Rules
	from rogw.tranp.implements.syntax.tranp.syntax import SyntaxParser
	from rogw.tranp.implements.syntax.tranp.tokenizer import Tokenizer
	app = App(Args(['-i', 'generated.lark', '-o', 'gen_rules.py']))
	return {'meta': SyntaxParser(gram_rules(), gram_tokenizer()), 'app': app, 'Rules': Rules, 'SyntaxParser': SyntaxParser, 'Tokenizer': Tokenizer}


def compile_rules(eng, tree, name: str = 'gen_rules'):
	text = eng['app'].render_rules(tree)
	ns: dict = {}
	exec(compile(text, f'<{name}>', 'exec'), ns)
	return ns[name](), text


def verdicts(eng, rules, sentences: list[str]) -> list:
	from rogw.tranp.errors import Errors
	parser = eng['SyntaxParser'](rules, eng['Tokenizer']())
	out = []
	for s in sentences:
		signal.alarm(2)
		try:
			out.append(listify(parser.parse(s, 'entry').simplify()))
		except _Timeout:
			out.append('timeout')
		except Errors.Syntax:
			out.append('reject')
		except Exception as e:
			out.append(f'crash:{type(e).__name__}')
		finally:
			signal.alarm(0)
	return out


def _replay(args) -> dict:
	cases, with_sentences = args
	eng = _engine()
	signal.signal(signal.SIGALRM, _alarm)
	sentences = [' '.join(ws) + '\n' for n in range(0, 4) for ws in itertools.product(WORDS, repeat=n)]
	failures, machinery = [], []
	stats = {'cases': 0, 'sentence_verdicts': 0, 'pretty_text_agrees': 0, 'looping_grammars_skipped': 0, 'tree_differs_from_spec': 0, 'structure_differs_from_spec': 0}
	drift: list[str] = []
	for index, case in enumerate(cases):
		stats['cases'] += 1
		unwrap = UNWRAPS[(index + case['id']) % 3]
		text = f'entry := s "\\n"\ns{unwrap} := {case["src"]}\na := "p"\nb := /q+/\n'
		if norm(case['model']) != case['norm']:
			machinery.append(f'harness norm and spec Norm disagree on {case["src"]!r}')
			continue

		def fail(clause: str, detail: str, kind: str = '') -> None:
			failures.append({'clause': clause, 'detail': f'`s{unwrap} := {case["src"]}`: {detail}', 'src': case['src'], 'kind': kind or cause_of(case)})

		try:
			tree = eng['meta'].parse(text, 'entry')
			tup = listify(tree.simplify())
		except Exception as e:
			fail('MetaParseAccepts', f'the meta-parse rejects the grammar: {type(e).__name__}: {str(e)[:100]}')
			continue
		rule = tup[1][1]
		if rule[1][2] != case['tup']:
			# the code no longer follows the specification here: not a verdict by itself, the direct clauses below decide
			stats['tree_differs_from_spec'] += 1
			drift.append(f'`{case["src"]}`: meta-parse tree {rule[1][2]} where the specification has {case["tup"]}')
		try:
			original = eng['Rules'].from_ast(tree.simplify())
			got = dict(rules_struct(original))
		except Exception as e:
			fail('FromAst', f'from_ast fails: {type(e).__name__}: {str(e)[:100]}')
			continue
		key = f's{unwrap}'
		if key not in got:
			fail('FromAst', f'from_ast loses the rule name {key}: {list(got)}')
			continue
		if got[key] != case['model']:
			stats['structure_differs_from_spec'] += 1
			drift.append(f'`{case["src"]}`: from_ast builds {show(got[key])} where the specification has {show(case["model"])}')
		# print and parse the printout
		try:
			printed = original.pretty()
			stats['pretty_text_agrees'] += f'{key} := {case["pretty"]}' in printed.split('\n') or '\n' in case['pretty']
			retree = eng['meta'].parse(printed + '\n', 'entry')
			reparsed = eng['Rules'].from_ast(retree.simplify())
			regot = dict(rules_struct(reparsed))
		except Exception as e:
			fail('RoundTrip', f'the printout of {key} cannot be parsed back: {type(e).__name__}: {str(e)[:100]}')
			continue
		if list(regot.keys()) != list(got.keys()):
			fail('RoundTrip', f'rule names {list(got.keys())} come back as {list(regot.keys())}')
			continue
		bad = [k for k in got if regot[k] != got[k]]
		if bad:
			line = next(ln for ln in printed.split('\n') if ln.startswith(bad[0] + ' := '))
			grouping_only = norm(regot[bad[0]]) == norm(got[bad[0]])
			fail('RoundTrip', f'printed as {line!r}, which parses back to {show(regot[bad[0]])} instead of {show(got[bad[0]])}', 'redundant-grouping-lost' if grouping_only else 'alternatives-in-sequence-regrouped')
		# compile to a rule module and execute it
		try:
			compiled, module_text = compile_rules(eng, tree)
			cgot = rules_struct(compiled)
		except Exception as e:
			fail('CompiledModule', f'the rendered rule module cannot be executed: {type(e).__name__}: {str(e)[:100]}')
			continue
		if [(k, unescape_quotes(v)) for k, v in cgot] != [(k, unescape_quotes(v)) for k, v in rules_struct(original)]:
			diff = [k for (k, v), (k2, v2) in zip(cgot, rules_struct(original)) if unescape_quotes(v) != unescape_quotes(v2)]
			fail('CompiledModule', f'the rendered rule module builds different rules for {diff}: {dict(cgot).get(diff[0]) if diff else cgot}')
			continue
		if with_sentences and not loops(got[key]):
			a = verdicts(eng, original, sentences)
			c = verdicts(eng, reparsed, sentences)
			stats['sentence_verdicts'] += 2 * len(sentences)
			for s, va, vc in zip(sentences, a, c):
				if va != vc:
					fail('SameSentencesSameTrees', f'on {s!r} the original rules give {va}, the rules parsed back from the printout give {vc}')
					break
		elif with_sentences:
			stats['looping_grammars_skipped'] += 1
	return {'failures': failures, 'machinery': machinery, 'stats': stats, 'drift': drift[:3]}


def show(m: dict) -> str:
	if m['t'] == 'pat':
		return {'Symbol': m['e'], 'Equals': f'"{m["e"]}"', 'Regexp': f'/{m["e"]}/'}[m['role'] if m['role'] == 'Symbol' else m['comp']]
	inner = (' ' if m['op'] == 'And' else ' | ').join(show(e) for e in m['es'])
	return f'{m["op"]}{"" if m["rep"] == "off" else m["rep"]}<{inner}>'


def unescape_quotes(m: dict) -> dict:
	"""backslash-quote and quote denote the same regular expression; the rule-module renderer keeps only the quote"""
	if m['t'] == 'pat':
		return {**m, 'e': m['e'].replace("\\'", "'")} if m['comp'] == 'Regexp' else m
	return {**m, 'es': [unescape_quotes(e) for e in m['es']]}


def cause_of(case: dict) -> str:
	"""which spelling of the case a failure is attributed to: the escape-bearing terminals it contains, else its shape"""
	marks = [name for name, needle in (('bare-single-quote', '"\'"'), ('backslash-string', '"\\\\"'), ('escaped-quote-regexp', "/\\'"), ('escaped-slash-regexp', '\\/'), ('tab-string', '"\\t"'), ('newline-string', '"\\n"')) if needle in case['src']]
	return '+'.join(marks[:1]) or kind_of(case['model'])


def kind_of(m: dict) -> str:
	"""shape class of a pattern structure: which operator nests in which"""
	found = set()

	def walk(x: dict, parent: str) -> None:
		if x['t'] == 'pat':
			return
		me = x['op'] + ('' if x['rep'] == 'off' else x['rep'])
		if parent:
			found.add(f'{me}-in-{parent}')
		for e in x['es']:
			walk(e, me)
	walk(m, '')
	return '+'.join(sorted(found)) or 'flat'


def _module_tree(text: str):
	"""(function name, the literal handed to Rules.from_ast, imports) of a rule module, docstrings and layout aside"""
	mod = ast.parse(text)
	fn = next(n for n in mod.body if isinstance(n, ast.FunctionDef))
	ret = next(n for n in ast.walk(fn) if isinstance(n, ast.Return))
	call = ret.value
	imports = [ast.dump(n) for n in mod.body if isinstance(n, (ast.Import, ast.ImportFrom))]
	return fn.name, ast.dump(call.func), listify(ast.literal_eval(call.args[0])), imports


def fixed_points(spec_rules: list[dict]) -> tuple[list[Violation], dict]:
	eng = _engine()
	from data.syntax.gram_rules import gram_rules
	from data.syntax.py_rules import py_rules
	violations = []
	cov = {}
	root = os.path.join(compat.REPO, 'data', 'syntax')
	gram_text = open(os.path.join(root, 'gram.lark'), encoding='utf-8').read()
	# the module's GramLark is the shipped gram.lark, rule by rule
	lines = [ln for ln in gram_text.split('\n') if ln.strip() and not ln.startswith('//')]
	spec_lines = [r['src'] for r in spec_rules]
	drifted = lines != spec_lines
	if drifted:
		# the shipped meta-grammar is no longer the one written down in MetaGram.GramLark: what the specification says about
		# gram.lark's tree does not apply; the obligations that need no transcription (fixed points, round trips) still do
		diff = next((a, b) for a, b in itertools.zip_longest(lines, spec_lines) if a != b)
		cov['gram_lark_differs_from_spec'] = list(diff)
	# (1) the engine's built-in rules parse gram.lark to themselves
	tree = eng['meta'].parse(gram_text, 'entry')
	tup = listify(tree.simplify())
	if not drifted and tup != ['entry', [r['tup'] for r in spec_rules]]:
		violations.append(Violation('FixedPoint:gram.lark:tree', 'FixedPoint', 'parsing gram.lark with the built-in rules does not give the tree the grammar denotes', {'tree': tup}))
	rebuilt = rules_struct(eng['Rules'].from_ast(tree.simplify()))
	builtin = rules_struct(gram_rules())
	if rebuilt != builtin:
		bad = [k for (k, v), (k2, v2) in itertools.zip_longest(rebuilt, builtin, fillvalue=(None, None)) if (k, v) != (k2, v2)]
		violations.append(Violation('FixedPoint:gram.lark:rules', 'FixedPoint', f'parsing gram.lark with the built-in rules yields different rules for {bad}', {'rules': bad}))
	if not drifted and [(k, m) for k, m in builtin] != [(r['key'], r['model']) for r in spec_rules]:
		violations.append(Violation('FixedPoint:gram.lark:model', 'FixedPoint', 'the built-in rules are not the pattern structures gram.lark denotes', {}))
	# second generation: the rules parsed from gram.lark parse gram.lark to the same tree
	second = eng['SyntaxParser'](eng['Rules'].from_ast(tree.simplify()), eng['meta'].tokenizer).parse(gram_text, 'entry')
	if listify(second.simplify()) != tup:
		violations.append(Violation('FixedPoint:gram.lark:second-generation', 'FixedPoint', 'rules parsed from gram.lark parse gram.lark to a different tree', {}))
	cov['gram_lark_rules'] = len(builtin)
	# (2) compiling each shipped grammar gives the rule module checked in next to it
	for lark, module, factory in (('gram.lark', 'gram_rules', gram_rules), ('py_gram.lark', 'py_rules', py_rules)):
		source = open(os.path.join(root, lark), encoding='utf-8').read()
		t = eng['meta'].parse(source, 'entry')
		compiled, text = compile_rules(eng, t, 'gen_rules')
		text = text.replace('def gen_rules', f'def {module}')
		shipped = open(os.path.join(root, f'{module}.py'), encoding='utf-8').read()
		if _module_tree(text) != _module_tree(shipped):
			a, b = _module_tree(text), _module_tree(shipped)
			where = 'rule tree' if a[2] != b[2] else 'function or imports'
			violations.append(Violation(f'CompiledEqualsCheckedIn:{module}', 'CompiledEqualsCheckedIn', f'compiling {lark} today does not give data/syntax/{module}.py ({where} differs)', {'module': module}))
		if rules_struct(compiled) != rules_struct(factory()):
			violations.append(Violation(f'CompiledEqualsCheckedIn:{module}:rules', 'CompiledEqualsCheckedIn', f'the rules compiled from {lark} differ from {module}()', {'module': module}))
		# every shipped rule set survives print-and-parse
		printed = factory().pretty()
		orig = rules_struct(factory())
		try:
			back = rules_struct(eng['Rules'].from_ast(eng['meta'].parse(printed + '\n', 'entry').simplify()))
		except Exception as e:
			# code under test: a printout that the meta-parser cannot read back is the violation itself
			violations.append(Violation(f'RoundTrip:{module}', 'RoundTrip', f'the printout of {module}() cannot be parsed back: {type(e).__name__}: {str(e)[:160]}', {'module': module}))
			cov[f'{module}_rules'] = len(orig)
			continue
		bad = [k for (k, v), (k2, v2) in itertools.zip_longest(back, orig, fillvalue=(None, None)) if k != k2 or v != v2]
		if bad:
			violations.append(Violation(f'RoundTrip:{module}', 'RoundTrip', f'printing {module}() and parsing the printout changes the rules {bad[:5]}', {'rules': bad}))
		cov[f'{module}_rules'] = len(orig)
	return violations, cov


HISTORY_SENTENCES = [
	'return\n', 'return a\n', 'pass\n', 'x = None\n', 'x = a and b or not c\n', 'x = a if b else c\n', 'x = a is not b\n', 'x = a not in b\n',
	'if a:\n\tbreak\nelse:\n\tcontinue\n', 'for i in a:\n\tpass\n', 'while a:\n\tpass\n', 'x = lambda: a\n', 'class A:\n\tpass\n',
	'def f() -> None:\n\treturn\n', 'raise a from b\n', 'x = [i for i in a if i]\n', 'entry = symbol\n', 'rule = expr\n', 'name = string\n',
]


def _history_job(order: list[str]) -> dict:
	"""One fresh process: the three activities in the given order; what each of them yields must not depend on the order
	(parsing is a function of rule set and text - in MetaGram.tla there is no history to depend on)"""
	from data.syntax.py_rules import py_rules
	from rogw.tranp.errors import Errors
	eng = _engine()
	root = os.path.join(compat.REPO, 'data', 'syntax')
	out: dict = {}
	for act in order:
		try:
			if act in ('gram.lark', 'py_gram.lark'):
				tree = eng['meta'].parse(open(os.path.join(root, act), encoding='utf-8').read(), 'entry')
				out[act] = repr(rules_struct(eng['Rules'].from_ast(tree.simplify())))
			else:
				parser = eng['SyntaxParser'](py_rules(), eng['Tokenizer']())
				res = []
				for text in HISTORY_SENTENCES:
					try:
						res.append(repr(listify(parser.parse(text, 'entry').simplify())))
					except Errors.Syntax as e:
						res.append(f'Syntax: {str(e).splitlines()[0]}')
				out[act] = res
		except Exception as e:
			out[act] = f'{type(e).__name__}: {str(e).splitlines()[0][:160]}'
	return out


def history_independence() -> tuple[list[Violation], int]:
	from concurrent.futures import ProcessPoolExecutor
	acts = ['gram.lark', 'py_gram.lark', 'sentences']
	orders = [list(p) for p in itertools.permutations(acts)]
	with ProcessPoolExecutor(max_workers=6, max_tasks_per_child=1) as ex:
		results = list(ex.map(_history_job, orders))
	violations = []
	base = results[0]
	for order, res in zip(orders[1:], results[1:]):
		for act in acts:
			if res[act] != base[act]:
				if isinstance(res[act], list) and isinstance(base[act], list):
					k = next(i for i, (a, b) in enumerate(zip(res[act], base[act])) if a != b)
					detail = f'{HISTORY_SENTENCES[k]!r} parses to {res[act][k][:120]} after {order[:order.index(act)]} and to {base[act][k][:120]} after {orders[0][:orders[0].index(act)]}'
				else:
					detail = f'compiling / parsing {act} gives {str(res[act])[:160]} after {order[:order.index(act)]}, {str(base[act])[:80]}... when it comes first'
				violations.append(Violation(f'HistoryIndependent:{act}', 'HistoryIndependent', detail, {'order': order, 'activity': act}))
				break
		if violations:
			break
	return violations, len(orders)


def run(ctx: Ctx) -> int:
	quick = ctx.quick
	laws = {}
	cases, plain = [], []
	for cfg in (['MetaGram_1', 'MetaGram_2', 'MetaGram_3'] if quick else ['MetaGram_1', 'MetaGram_2', 'MetaGram_3', 'MetaGram_4']):
		res = tlc.run('MetaGramEmit', f'{cfg}.cfg', workers=1, timeout=3000, heap='8g')
		if res.rc != 0:
			raise Machinery(f'MetaGram: evaluation error: {res.out[-600:]}')
		for law in ('ROUNDTRIP', 'ROUNDTRIPNORM', 'STABLE', 'OUTAGREES', 'GRAMLARK-ROUNDTRIPS'):
			if res.lines(law + ' ') != ['TRUE']:
				raise Machinery(f'MetaGram {cfg}: law {law} does not hold in the specification: {res.lines(law + " ")}')
		laws[cfg] = len(res.lines('CASE '))
		cases += [json.loads(line) for line in res.lines('CASE ')]
		spec_rules = [json.loads(line) for line in res.lines('GRAMRULE ')]
	for cfg in ['MetaGram_plain2', 'MetaGram_plain3']:
		res = tlc.run('MetaGramEmit', f'{cfg}.cfg', workers=1, timeout=1500)
		if res.rc != 0 or res.lines('ROUNDTRIP ') != ['TRUE']:
			raise Machinery(f'MetaGram {cfg}: evaluation error or RoundTrip fails: {res.out[-600:]}')
		plain += [json.loads(line) for line in res.lines('CASE ')]
	pinned = tlc.run('MetaGramEmit', 'MetaGram_pinned.cfg', workers=1, timeout=1500)
	counterexamples = json.loads(pinned.lines('COUNTEREXAMPLES ')[0]) if pinned.lines('COUNTEREXAMPLES ') else []
	if pinned.lines('ROUNDTRIP ') != ['FALSE'] or not counterexamples:
		raise Machinery('MetaGram: the printer as coded at the pinned commit should not round-trip (vacuity guard)')
	if quick:
		plain = plain[::3]
	ctx.log(f'TLC: RoundTrip / PrettyStable hold on {sum(laws.values())} right-hand sides (repaired printer); {len(counterexamples)} counterexamples for the printer as coded at the pinned commit, e.g. {counterexamples[0]!r}; {len(plain)} plain-atom grammars for sentence comparison')
	nproc = 16
	jobs = [(cases[i::nproc], False) for i in range(nproc)] + [(plain[i::nproc], True) for i in range(nproc)]
	with ProcessPoolExecutor(max_workers=nproc) as ex:
		results = list(ex.map(_replay, jobs))
	machinery = [m for r in results for m in r['machinery']]
	if machinery:
		raise Machinery(f'{len(machinery)} cases, e.g. {machinery[0]}')
	failures = [f for r in results for f in r['failures']]
	stats = {k: sum(r['stats'][k] for r in results) for k in results[0]['stats']}
	ctx.log(f'replayed {stats["cases"]} grammars through meta-parse, from_ast, pretty, re-parse and the rule-module renderer; {stats["sentence_verdicts"]} sentence verdicts compared; printed text equals the specification\'s on {stats["pretty_text_agrees"]}; {len(failures)} discrepancies')
	drift = [d for r in results for d in r['drift']]
	if drift:
		ctx.log(f'NOTE: the code departs from the specification on {stats["tree_differs_from_spec"]} meta-parse trees / {stats["structure_differs_from_spec"]} pattern structures (e.g. {drift[0][:300]}); the TLC proof does not speak for those cases, the direct round-trip and sentence clauses decide')
	try:
		violations, fcov = fixed_points(spec_rules)
	except Machinery:
		raise
	except Exception as e:
		# the fixed-point obligations run the code under test on its own grammars: a failure there is a failure of the obligation
		import traceback
		tb = traceback.extract_tb(e.__traceback__)
		where = next((f'{os.path.basename(fr.filename)}:{fr.name}' for fr in reversed(tb) if '/rogw/tranp/' in fr.filename), '?')
		violations, fcov = [Violation(f'FixedPoint:{type(e).__name__}', 'FixedPoint', f'working on the shipped grammars fails with {type(e).__name__} at {where}: {str(e).splitlines()[0][:160]}', {})], {}
	hviolations, horders = history_independence()
	violations += hviolations
	fcov['history_orders'] = horders
	if 'gram_lark_differs_from_spec' in fcov:
		ctx.log(f'NOTE: data/syntax/gram.lark is not the meta-grammar written down in MetaGram.GramLark ({fcov["gram_lark_differs_from_spec"]}): the fixed-point and round-trip obligations are checked on the shipped file, the tree the specification assigns to gram.lark is not')
	groups: dict[str, list] = {}
	for f in failures:
		groups.setdefault(f'{f["clause"]}:{f["kind"]}', []).append(f)
	for key, fs in sorted(groups.items()):
		s = min(fs, key=lambda f: len(f['src']))
		violations.append(Violation(key, s['clause'], f'{s["detail"]} ({len(fs)} grammars)', {'src': s['src'], 'all': sorted({f['src'] for f in fs})[:40]}))
	coverage = {
		'states': len(cases) + len(plain),
		'transitions': stats['cases'] + stats['sentence_verdicts'],
		'traces_validated_against_impl': stats['cases'],
		'exhaustive': True,
		'law_universe': laws,
		'pinned_printer_counterexamples': counterexamples[:10],
		**stats,
		**fcov,
		'samples': [cases[len(cases) // 2]['src'], plain[len(plain) // 2]['src']],
	}
	assumptions = ['"the rule module checked in" is compared as Python syntax tree (function name, imports, the literal handed to Rules.from_ast): the hand-added docstring of gram_rules.py is not part of the rules',
		'rule sets are compared by exact pattern structure and, independently, by the verdict and tree on every sentence of <= 3 words; the compiled module is compared up to the spelling of a quote inside a regular expression',
		'grammars with a repetition whose body can match nothing make the engine spin; they are excluded from sentence comparison']
	return finish(ctx, LEVEL, coverage, violations, assumptions)
