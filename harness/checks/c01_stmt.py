"""Layer L1 of C01: statement programs of spec/PyExec.tla transpiled, compiled, run and compared."""
import json
import os
import signal
from concurrent.futures import ProcessPoolExecutor

from harness import compat  # noqa: F401
from harness import tlc
from harness.core import Ctx, Machinery, Violation

BATCH = 60


def load() -> tuple[list[dict], list[dict]]:
	res = tlc.run('PyExecEmit', 'PyExec.cfg', workers=1, timeout=900)
	if res.rc != 0:
		raise Machinery(f'PyExec: FlowWellFormed fails or evaluation error: {res.out[-600:]}')
	cases = [json.loads(line) for line in res.lines('EXEC ')]
	args = [json.loads(line) for line in res.lines('ARGS ')]
	if not cases or not args:
		raise Machinery('PyExec: nothing emitted')
	return cases, args[0]


def show_outcome(o: dict) -> str:
	return f'return {o["v"]}' if o['kind'] == 'return' else 'raise'


class _Timeout(Exception):
	pass


def _python_outcome(text: str, name: str, arg: dict) -> str:
	scope: dict = {}
	exec(text, scope)

	def on_alarm(signum, frame):
		raise _Timeout()

	signal.signal(signal.SIGALRM, on_alarm)
	signal.alarm(2)
	try:
		return f'return {scope[name](arg["a"], arg["b"], list(arg["xs"]))}'
	except _Timeout:
		return 'timeout'
	except RuntimeError:
		return 'raise'
	except Exception as e:
		return f'!{type(e).__name__}'
	finally:
		signal.alarm(0)


def _kind(text: str) -> str:
	body = text.split('\n')[2:-2]
	kws = []
	for ln in body:
		w = ln.strip().split(' ')[0].rstrip(':')
		if w in ('if', 'elif', 'else', 'while', 'for', 'try', 'except', 'break', 'continue', 'raise', 'return') and w not in kws:
			kws.append(w)
	return '/'.join(kws)


def _run_batch(args) -> dict:
	cases, first, argv = args
	from harness.cpp.build import compile_and_run
	from harness.tranp_env import Env, enter_scratch
	root = enter_scratch('verif-c01s-')
	failures, machinery = [], []
	for i, case in enumerate(cases):
		for arg, out in zip(argv, case['outcomes']):
			if out['kind'] == 'undef':
				continue
			ref = _python_outcome(case['text'], 'f', arg)
			if ref != show_outcome(out):
				machinery.append(f'spec and CPython disagree on {case["text"]!r} with {arg}: spec {show_outcome(out)} vs {ref}')
	if machinery:
		return {'failures': [], 'machinery': machinery, 'programs': 0, 'results': 0}
	program = '\n'.join(c['text'].replace('def f(', f'def f{first + i}(', 1) for i, c in enumerate(cases))
	try:
		text = Env().transpile_source(program)
	except Exception as e:
		if len(cases) == 1:
			return {'failures': [{'clause': 'NeverRejected', 'detail': f'rejected by the transpiler: {type(e).__name__}: {str(e)[:120]}', 'text': cases[0]['text'], 'kind': _kind(cases[0]['text'])}], 'machinery': [], 'programs': 1, 'results': 0}
		half = len(cases) // 2
		return _merge(_run_batch((cases[:half], first, argv)), _run_batch((cases[half:], first + half, argv)))
	lines = []
	for i, case in enumerate(cases):
		for j, (arg, out) in enumerate(zip(argv, case['outcomes'])):
			if out['kind'] == 'undef':
				continue
			vec = 'std::vector<int>{' + ', '.join(str(x) for x in arg['xs']) + '}'
			lines.append(f'\ttry {{ auto v = f{first + i}({arg["a"]}, {arg["b"]}, {vec}); std::cout << "{first + i} {j} return " << verif::show(v) << "\\n"; }} catch (const std::exception& ex) {{ std::cout << "{first + i} {j} raise\\n"; }}')
	res = compile_and_run(os.path.join(root, f's{first}'), text, '\n'.join(lines))
	if not res['compiled']:
		if len(cases) == 1:
			err = next((ln for ln in res['stderr'].splitlines() if 'error' in ln), res['stderr'][:200])
			return {'failures': [{'clause': 'CompilerAccepts', 'detail': f'emitted C++ is rejected by the compiler: {err[:200]}', 'text': cases[0]['text'], 'kind': _kind(cases[0]['text']), 'emitted': text[-600:]}], 'machinery': [], 'programs': 1, 'results': 0}
		half = len(cases) // 2
		return _merge(_run_batch((cases[:half], first, argv)), _run_batch((cases[half:], first + half, argv)))
	got = {}
	for ln in res['stdout'].splitlines():
		i, j, v = ln.split(' ', 2)
		got[(int(i), int(j))] = v
	results = 0
	for i, case in enumerate(cases):
		for j, (arg, out) in enumerate(zip(argv, case['outcomes'])):
			if out['kind'] == 'undef':
				continue
			results += 1
			if got.get((first + i, j)) != show_outcome(out):
				failures.append({'clause': 'SameOutcome', 'detail': f'f({arg["a"]}, {arg["b"]}, {list(arg["xs"])}): C++ gives `{got.get((first + i, j))}`, Python `{show_outcome(out)}`', 'text': case['text'], 'kind': _kind(case['text'])})
				break
	return {'failures': failures, 'machinery': [], 'programs': len(cases), 'results': results}


def _merge(a: dict, b: dict) -> dict:
	return {k: a[k] + b[k] for k in ('failures', 'machinery', 'programs', 'results')}


def run_statements(ctx: Ctx) -> tuple[list[Violation], dict]:
	cases, argv = load()
	batches = [(cases[i:i + BATCH], i, argv) for i in range(0, len(cases), BATCH)]
	with ProcessPoolExecutor(max_workers=16) as ex:
		results = list(ex.map(_run_batch, batches))
	machinery = [m for r in results for m in r['machinery']]
	if machinery:
		raise Machinery(f'{len(machinery)} statement programs where spec and CPython disagree, e.g. {machinery[0]}')
	failures = [f for r in results for f in r['failures']]
	nres = sum(r['results'] for r in results)
	ctx.log(f'L1: {len(cases)} statement programs transpiled, compiled and run, {nres} outcomes compared: {len(failures)} deviate')
	groups: dict[str, list] = {}
	for f in failures:
		groups.setdefault(f'{f["clause"]}:{f["kind"]}', []).append(f)
	violations = []
	for key, fs in sorted(groups.items()):
		s = min(fs, key=lambda f: len(f['text']))
		violations.append(Violation(key, s['clause'], f'{s["detail"]} on {s["text"]!r} ({len(fs)} programs)', {'text': s['text'], 'emitted': s.get('emitted', '')}))
	return violations, {'statement_programs': len(cases), 'statement_results': nres, 'constructs': ['if/elif/else, while, for over range, for over list, break, continue, augmented assignment, try/raise/except, early return - every depth-1 statement in every block context']}
