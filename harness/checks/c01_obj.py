"""Layer L3 of C01: class programs of spec/PyObj.tla (class-table variants x operations) transpiled, compiled, run and compared."""
import ast
import json
import os
import random
import re
from concurrent.futures import ProcessPoolExecutor

from harness import compat  # noqa: F401
from harness import tlc
from harness.core import Ctx, Machinery, Violation

BATCH = 40


def load(cfg: str) -> tuple[list[dict], list]:
	res = tlc.run('PyObjEmit', cfg, workers=1, timeout=2400, heap='8g')
	if res.rc != 0:
		raise Machinery(f'PyObj: evaluation error: {res.out[-600:]}')
	if res.lines('DISPATCH ') != ['TRUE'] or res.lines('SUPER ') != ['TRUE'] or res.lines('BASEUNAFFECTED ') != ['TRUE']:
		raise Machinery('PyObj: DispatchIsDynamic / SuperReachesParent / BaseUnaffected does not hold in the specification')
	classes = {json.dumps(c['variant'], sort_keys=True): c['text'] for c in (json.loads(line) for line in res.lines('CLASSES '))}
	cases = [json.loads(line) for line in res.lines('PROG ')]
	for c in cases:
		c['classes'] = classes[json.dumps(c['variant'], sort_keys=True)]
		c['init'] = '/'.join(f'{k}={v}' for k, v in sorted(c['variant'].items()))
	args = [json.loads(line) for line in res.lines('ARGS ')]
	if not cases or not args:
		raise Machinery('PyObj: nothing emitted')
	return cases, args[0]


def value_of(o: dict) -> tuple:
	return (o['on'], o['otag'], list(o['oitems']), o['sn'], o['sm'], o['stag'], list(o['sitems']), o['n'], o['bb'], o['st'])


def _python_value(text: str, arg: list, classes: str = ''):
	scope: dict = {}
	exec(classes + text, scope)
	try:
		return scope['f'](*arg)
	except Exception as e:
		return f'!{type(e).__name__}'


def _run_batch(args) -> dict:
	cases, first, argv = args
	from harness.cpp.build import compile_and_run
	from harness.tranp_env import Env, enter_scratch
	root = enter_scratch('verif-c01o-')
	failures, machinery = [], []
	for case in cases:
		for arg, out in zip(argv, case['outcomes']):
			ref = _python_value(case['text'], arg, case['classes'])
			if ref != value_of(out):
				machinery.append(f'spec and CPython disagree on {case["ops"]} with class table {case["init"]} and {arg}: spec {value_of(out)} vs {ref}')
	if machinery:
		return {'failures': [], 'machinery': machinery, 'programs': 0, 'results': 0}
	program = cases[0]['classes'] + '\n'.join(c['text'].replace('def f(', f'def f{first + i}(', 1) for i, c in enumerate(cases))
	kind = lambda c: '+'.join(c['ops'])
	try:
		text = Env().transpile_source(program)
	except Exception as e:
		if len(cases) == 1:
			return {'failures': [{'clause': 'NeverRejected', 'detail': f'rejected by the transpiler: {type(e).__name__}: {str(e)[:160]}', 'text': cases[0]['text'], 'kind': kind(cases[0]), 'table': cases[0]['init']}], 'machinery': [], 'programs': 1, 'results': 0}
		half = len(cases) // 2
		return _merge(_run_batch((cases[:half], first, argv)), _run_batch((cases[half:], first + half, argv)))
	lines = []
	for i, case in enumerate(cases):
		for j, (arg, out) in enumerate(zip(argv, case['outcomes'])):
			if True:
				lines.append(f'\tstd::cout << "start {first + i} {j}\\n" << std::flush; try {{ auto v = f{first + i}({arg[0]}, {arg[1]}); std::cout << "{first + i} {j} " << verif::show(v) << "\\n"; }} catch (const std::exception& ex) {{ std::cout << "{first + i} {j} raise\\n"; }}')
	res = compile_and_run(os.path.join(root, f'c{first}'), text, '\n'.join(lines))
	if not res['compiled']:
		# attribute every compiler error to the function whose emitted text contains the line, drop those, compile the rest
		starts = []
		for no, ln in enumerate(text.split('\n'), 1):
			m = re.match(r'/\*\* f(\d+) \*/', ln)
			if m:
				starts.append((no, int(m.group(1))))
		bad: dict[int, str] = {}
		for m in re.finditer(r'case\.h:(\d+):\d+: error: (.*)', res['stderr_full']):
			line = int(m.group(1))
			owner = [idx for no, idx in starts if no <= line]
			if owner and owner[-1] not in bad:
				bad[owner[-1]] = m.group(2)
		if not bad or len(cases) == 1:
			if len(cases) == 1:
				err = next((ln for ln in res['stderr'].splitlines() if 'error' in ln), res['stderr'][:200]).split('error:')[-1].strip()
				return {'failures': [{'clause': 'CompilerAccepts', 'detail': f'emitted C++ is rejected by the compiler: {err[:200]}', 'text': cases[0]['text'], 'kind': kind(cases[0]), 'emitted': text[-900:]}], 'machinery': [], 'programs': 1, 'results': 0}
			half = len(cases) // 2
			return _merge(_run_batch((cases[:half], first, argv)), _run_batch((cases[half:], first + half, argv)))
		failures = [{'clause': 'CompilerAccepts', 'detail': f'emitted C++ is rejected by the compiler: {bad[first + i][:200]}', 'text': c['text'], 'kind': kind(c), 'table': c['init']} for i, c in enumerate(cases) if first + i in bad]
		rest = [c for i, c in enumerate(cases) if first + i not in bad]
		sub = _run_batch((rest, first, argv)) if rest else {'failures': [], 'machinery': [], 'programs': 0, 'results': 0}
		return _merge({'failures': failures, 'machinery': [], 'programs': len(failures), 'results': 0}, sub)
	if res.get('timeout'):
		# the program did not return: the last started call is the one that hangs; report it and run the rest again
		started = [ln.split() for ln in res['stdout'].splitlines() if ln.startswith('start ')]
		if not started:
			return {'failures': [{'clause': 'Terminates', 'detail': 'the compiled program does not return and prints nothing', 'text': cases[0]['text'], 'kind': kind(cases[0])}], 'machinery': [], 'programs': len(cases), 'results': 0}
		idx, j = int(started[-1][1]) - first, int(started[-1][2])
		hang = cases[idx]
		rest = [c for k, c in enumerate(cases) if k != idx]
		sub = _run_batch((rest, first, argv)) if rest else {'failures': [], 'machinery': [], 'programs': 0, 'results': 0}
		return _merge({'failures': [{'clause': 'Terminates', 'detail': f'f({argv[j][0]}, {argv[j][1]}): the compiled C++ does not return within 20 s, Python returns {value_of(hang["outcomes"][j])}', 'text': hang['text'], 'kind': kind(hang)}], 'machinery': [], 'programs': 1, 'results': 0}, sub)
	got = {}
	for ln in res['stdout'].splitlines():
		parts = ln.split(' ', 2)
		if len(parts) == 3 and parts[0] != 'start':
			got[(int(parts[0]), int(parts[1]))] = parts[2]
	results = 0
	for i, case in enumerate(cases):
		for j, (arg, out) in enumerate(zip(argv, case['outcomes'])):
			results += 1
			raw = got.get((first + i, j))
			try:
				val = ast.literal_eval(raw) if raw and raw != 'raise' else raw
			except Exception:
				val = raw
			if val != value_of(out):
				failures.append({'clause': 'SameValue', 'detail': f'f({arg[0]}, {arg[1]}): C++ gives {raw}, Python {value_of(out)}' + (f' (the program died: exit {res["rc"]})' if raw is None else ''), 'text': case['text'], 'kind': kind(case), 'table': case['init']})
				break
	return {'failures': failures, 'machinery': [], 'programs': len(cases), 'results': results}


def _merge(a: dict, b: dict) -> dict:
	return {k: a[k] + b[k] for k in ('failures', 'machinery', 'programs', 'results')}


def culprit(fs: list[dict]) -> str:
	"""the operation common to the failing programs of one clause (a failure of one operation shows in every program that uses it)"""
	counts: dict[str, int] = {}
	for f in fs:
		for op in set(f['kind'].split('+')):
			counts[op] = counts.get(op, 0) + 1
	return max(sorted(counts), key=lambda k: counts[k])


def run_classes(ctx: Ctx) -> tuple[list[Violation], dict]:
	cases, argv = load('PyObj_1.cfg')
	two, _ = load('PyObj_2few.cfg' if ctx.quick else 'PyObj_2.cfg')
	rnd = random.Random(ctx.seed)
	if ctx.quick:
		cases = cases[::3] + cases[1::7]
	two = rnd.sample(two, 250 if ctx.quick else min(len(two), 12000))
	cases = cases + two
	by_variant: dict[str, list] = {}
	for c in cases:
		by_variant.setdefault(c['init'], []).append(c)
	batches, first = [], 0
	for _, cs in sorted(by_variant.items()):
		for i in range(0, len(cs), BATCH):
			batches.append((cs[i:i + BATCH], first, argv))
			first += BATCH
	with ProcessPoolExecutor(max_workers=16) as ex:
		results = list(ex.map(_run_batch, batches))
	machinery = [m for r in results for m in r['machinery']]
	if machinery:
		raise Machinery(f'{len(machinery)} class programs where spec and CPython disagree, e.g. {machinery[0]}')
	failures = [f for r in results for f in r['failures']]
	nres = sum(r['results'] for r in results)
	ctx.log(f'L3: {len(cases)} class programs over {len(by_variant)} class tables transpiled, compiled and run, {nres} results compared: {len(failures)} programs deviate')
	violations = []
	by_clause: dict[str, list] = {}
	for f in failures:
		by_clause.setdefault(f['clause'], []).append(f)
	for clause, fs in sorted(by_clause.items()):
		rest = list(fs)
		while rest:
			singles = [f for f in rest if '+' not in f['kind']]
			op = singles[0]['kind'] if singles else culprit(rest)
			mine = [f for f in rest if op in f['kind'].split('+')]
			rest = [f for f in rest if op not in f['kind'].split('+')]
			s = min(mine, key=lambda f: (f['kind'].count('+'), len(f['text'])))
			tables = sorted({f.get('table', '') for f in mine})
			violations.append(Violation(f'{clause}:class-op:{op}', clause, f'{s["detail"]} on {s["text"]!r} with class table {s.get("table")} ({len(mine)} programs use `{op}`, {len(tables)} class tables)', {'text': s['text'], 'table': s.get('table'), 'emitted': s.get('emitted', '')}))
	return violations, {'class_programs': len(cases), 'class_results': nres, 'class_tables': len(by_variant), 'constructs': ['classes: fields, constructor with super().__init__, methods with default / keyword arguments, properties, a classmethod constructing cls, single inheritance with overriding (with and without super()), dynamic dispatch through self, enum members / comparison / value / name / as list element and dict key, objects in lists, temporaries, objects passed to nested functions - 24 class-table variants x every operation alone and sampled pairs']}
