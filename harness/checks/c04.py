"""C04 — output is deterministic and independent of session history (spec/Session.tla).

1. TLC explores Session.tla: every history of load / unload / transpile / re-submission over the module pool
   (chain a->b->c, independent d, in-memory main in five variants incl. three failing ones) with HistoryFree,
   Frame, UnloadExact as action properties.
2. spec -> code: every explored edge is replayed behind its shortest prefix on ONE long-lived application; after
   each step the projection of the real tables (Modules, Entrypoints, SymbolDB keys per module, completed,
   walker frames) must equal the spec state and every transpile text must be byte-identical to the text of a
   fresh application for the same sources.
3. the real interactive loop (bin/transpile.py Interactive) is driven with scripted submissions, failing ones
   included; each printed result must equal the fresh-process text.
4. configuration axis: the real command-line runner in OS subprocesses under different PYTHONHASHSEED values
   and target orders must write byte-identical files.
"""
import itertools
import json
import os
import subprocess
import sys
from concurrent.futures import ProcessPoolExecutor

from harness import compat  # noqa: F401
from harness import tlc
from harness.core import Ctx, Machinery, Violation, finish
from harness.tranp_env import REPO, scratch_dir

LEVEL = 'model_checking'

DISK = {
	'c': 'def make() -> int:\n\treturn 1\n',
	'b': 'from vm.c import make\n\nv = make()\n',
	# (a class and a function returning it: main holds a list in which the class is reached through the imported class itself and
	# through the signature declared in a - two generations of a must not meet in one type)
	# (`twice` is the fourth statement of a, as the generic `ident` is the fourth statement of d: both are `function_def[3]`)
	'a': 'from vm.b import v\n\nx = v\n\nclass A:\n\tn: int\n\n\tdef __init__(self, n: int) -> None:\n\t\tself.n = n\n\ndef twice(n: int) -> int:\n\treturn n * 2 + x\n\ndef mka() -> A:\n\treturn A(3)\n',
	# (the generic function stands at the same tree path as a function of a: anything remembered per tree path across modules shows)
	# (... and a generic class of the module itself takes a class declared further down as its type argument: the stored
	# symbol table has to list `Late` before the key that mentions it, whatever was registered under `Box` before)
	'd': "from typing import Generic, TypeVar\n\nT = TypeVar('T')\n\nclass K:\n\tn: int\n\tdef __init__(self, n: int) -> None:\n\t\tself.n = n\n\ndef ident(v: T) -> T:\n\treturn v\n\nk = K(1)\n\ndef mk() -> K:\n\treturn K(3)\n"
		"\nclass Box(Generic[T]):\n\tvalue: T\n\n\tdef __init__(self, value: T) -> None:\n\t\tself.value = value\n"
		"\nclass Scene:\n\tdef late(self) -> 'Box[Late]':\n\t\treturn Box(Late())\n\n\tdef size(self) -> int:\n\t\treturn self.late().value.size()\n"
		"\nclass Late:\n\tdef size(self) -> int:\n\t\treturn 1\n",
}
MAIN = {
	'ia': 'from vm.a import x, twice, A, mka\n\nm = twice(x)\n\ndef run() -> None:\n\txs = [A(4), mka()]\n',
	# (the list holds one class reached in two ways: through the imported class itself and through a signature declared in d)
	'id': 'from vm.d import k, K, mk\n\nm = k.n\nks = [K(2), k]\n\ndef run() -> None:\n\txs = [K(4), mk()]\n',
	'syn': 'def f(:\n\tpass\n',
	'pre': 'from typing import Callable\n\nm = 1\n',
	'walk': 'm = undefined_name\n',
}
POOL = ['a', 'b', 'c', 'd', 'main']

# a module rich in constructs whose rendering collects names / members (anything built from a set or an unordered
# walk would show up as hash-seed dependence): closures and lambdas capturing several names, classes, enums, dicts
RICH = '''from enum import Enum

class Kind(Enum):
	North = 1
	East = 2
	South = 3
	West = 4

class Box:
	width: int
	height: int
	label: str

	def __init__(self, width: int, height: int, label: str) -> None:
		self.width = width
		self.height = height
		self.label = label

	def area(self, scale: int, offset: int) -> int:
		def inner(extra: int) -> int:
			return (self.width * self.height + extra) * scale + offset

		return inner(1)

	@classmethod
	def unit(cls) -> 'Box':
		return cls(1, 1, 'unit')

	@property
	def title(self) -> str:
		return self.label + ':' + str(self.width)

def mix(alpha: int, beta: int, gamma: int, delta: int) -> int:
	def blend() -> int:
		return alpha + beta * 2 + gamma * 3 + delta * 4

	return blend()

def apply(values: list[int], low: int, high: int, step: int) -> list[int]:
	return [v * step for v in values if v > low and v < high]

def table(first: str, second: str, third: str) -> dict[str, int]:
	return {first: 1, second: 2, third: 3, 'zeta': 4, 'eta': 5, 'theta': 6}

def pick(kind: Kind, one: int, two: int) -> int:
	if kind == Kind.North or kind == Kind.South:
		return one
	elif kind == Kind.East:
		return two
	return one + two
'''


# file stems of the abstract modules: every dotted path is a string prefix of another one (vm.n < vm.n1 < vm.n10, vm.n100), so
# that nothing in the code under test may select a module - or its symbols - by partial match of the path
STEM4 = {'a': 'n10', 'b': 'n1', 'c': 'n', 'd': 'n100'}


def _stemmed(text: str) -> str:
	import re
	return re.sub(r'\bvm\.([abcd])\b', lambda mm: f'vm.{STEM4[mm.group(1)]}', text)


DISK = {m: _stemmed(src) for m, src in DISK.items()}
MAIN = {m: _stemmed(src) for m, src in MAIN.items()}


PCHAIN = {
	'pa': 'class K:\n\tn: int\n\n\tdef __init__(self, n: int) -> None:\n\t\tself.n = n\n\n\tdef get(self) -> int:\n\t\treturn self.n\n',
	'pb': 'from vm.pa import K\n\ndef use(k: K) -> int:\n\th = k.get()\n\treturn h + k.n\n',
	'pc': 'from vm.pa import K\nfrom vm.pb import use\n\nr = use(K(2))\n',
}


def real_name(m: str) -> str:
	return '__main__' if m == 'main' else f'vm.{STEM4[m]}'


def setup_disk(root: str) -> None:
	os.makedirs(os.path.join(root, 'vm'), exist_ok=True)
	for m, src in DISK.items():
		with open(os.path.join(root, 'vm', f'{STEM4[m]}.py'), 'w') as f:
			f.write(src)


# storage axis: the modules whose text the application holds in memory next to `__main__` instead of reading a file (where
# the text of a module lives is no part of the specification's state: every law holds for either world)
HELD: tuple = ()


def held_sources() -> dict:
	return {real_name(m): DISK[m] for m in HELD}


class Session:
	"""One long-lived application with the projection used by the spec."""

	def __init__(self) -> None:
		from harness.tranp_env import Env
		self.env = Env(sources={'__main__': MAIN['ia'], **held_sources()})

	def step(self, op: dict) -> dict:
		from rogw.tranp.errors import Errors
		name = op['name']
		env = self.env
		try:
			if name == 'source':
				env.sources['__main__'] = MAIN[op['v']]
				return {'res': 'ok'}
			if name == 'load':
				env.modules.load(real_name(op['m']))
				return {'res': 'ok'}
			if name == 'unload':
				env.modules.unload(real_name(op['m']))
				return {'res': 'ok'}
			if name == 'reload':
				env.modules.unload(real_name(op['m']))
				env.modules.load(real_name(op['m']))
				return {'res': 'ok'}
			if name == 'transpile':
				module = env.modules.load(real_name(op['m']))
				return {'res': 'ok', 'text': env.transpiler.transpile(module.entrypoint)}
		except Exception as e:  # which class escapes is C07's business; here: it failed
			return {'res': 'fail', 'error': f'{type(e).__name__}: {str(e)[:120]}'}
		raise ValueError(name)

	def project(self) -> dict:
		from rogw.tranp.semantics.reflection.db import SymbolDB
		from rogw.tranp.syntax.ast.entrypoints import Entrypoints
		env = self.env
		names = {real_name(m): m for m in POOL}
		loaded = sorted(names[m.path] for m in env.modules.loaded() if m.path in names)
		ents = getattr(env.get(Entrypoints), '_Entrypoints__entrypoints', None)
		db = env.get(SymbolDB)
		paths = getattr(db, '_SymbolDB__paths', None)
		comp = getattr(db, '_SymbolDB__completed', None)
		proc = getattr(env.transpiler, '_Py2Cpp__procedure', None)
		deps = getattr(env.transpiler, '_Py2Cpp__stack_on_depends', None)
		if ents is None or paths is None or comp is None or proc is None or deps is None:
			raise Machinery('projection: a private table of Entrypoints / SymbolDB / Py2Cpp is missing (refactored?)')
		stacks = getattr(proc, '_Procedure__stacks')
		return {
			'loaded': loaded,
			'entry': sorted(names[k] for k in ents if k in names),
			'dbm': sorted({names[p[0]] for p in paths.values() if p[0] in names}),
			'completed': sorted(names[k] for k in comp if k in names),
			'leak': len(stacks),
			'dep_frames': len(deps),
		}


def fresh_text(m: str, mv: str) -> str:
	"""Text a fresh application prints for module m (main in variant mv)"""
	from harness.tranp_env import Env
	env = Env(sources={'__main__': MAIN[mv], **held_sources()})
	return env.transpile(real_name(m))


def _replay(args) -> dict:
	global HELD
	paths, HELD = args
	from harness.tranp_env import enter_scratch
	root = enter_scratch('verif-c04-')
	setup_disk(root)
	memo: dict[tuple, str] = {}
	failures = []
	ntexts = 0
	for path in paths:
		history = []
		try:
			sess = Session()
			prev = None
			for op, to in path:
				history.append({k: v for k, v in op.items() if k in ('name', 'm', 'v')})
				obs = sess.step(op)
				problem = None
				if op['name'] != 'source' and obs['res'] != op['res']:
					problem = ('result', f'{op["name"]}({op.get("m", op.get("v"))}) -> {obs["res"]} {obs.get("error", "")}, spec {op["res"]}')
					if op['name'] == 'transpile' and obs['res'] == 'fail' and prev is not None:
						# the target is still in the module table while a module of its import closure was unloaded
						closure = {'a': {'a', 'b', 'c'}, 'b': {'b', 'c'}, 'c': {'c'}, 'd': {'d'}, 'main': {'main'} | ({'a', 'b', 'c'} if prev[5] == 'ia' else {'d'} if prev[5] == 'id' else set())}[op['m']]
						if op['m'] in prev[0] and not closure <= set(prev[2]):
							problem = ('HistoryFree:transpile-after-unload-of-loaded-dependency', problem[1])
				else:
					got = sess.project()
					expect = {'loaded': sorted(to[0]), 'entry': sorted(to[1]), 'dbm': sorted(to[2]), 'completed': sorted(to[3]), 'leak': to[6], 'dep_frames': to[6]}
					if got != expect:
						diff = {k: (got[k], expect[k]) for k in got if got[k] != expect[k]}
						problem = ('state', f'after {op["name"]}({op.get("m", op.get("v"))}): code vs spec {diff}')
					elif op['name'] == 'transpile' and obs['res'] == 'ok':
						mv = to[5] if op['m'] == 'main' else 'ia'
						key = (op['m'], mv if op['m'] == 'main' else '-')
						if key not in memo:
							memo[key] = fresh_text(op['m'], mv)
						ntexts += 1
						if obs['text'] != memo[key]:
							problem = ('HistoryFree', f'transpile({op["m"]}) inside the history differs from a fresh process: {_diff(obs["text"], memo[key])}')
				if problem:
					failures.append({'clause': problem[0], 'detail': problem[1], 'history': list(history)})
					break
				prev = to
		except Machinery:
			raise
		except Exception as e:
			failures.append({'clause': f'crash:{type(e).__name__}', 'detail': f'{type(e).__name__}: {str(e)[:200]}', 'history': list(history)})
	return {'failures': failures, 'texts': ntexts}


def _diff(a: str, b: str) -> str:
	la, lb = a.splitlines(), b.splitlines()
	for i, (x, y) in enumerate(zip(la, lb)):
		if x != y:
			return f'line {i + 1}: {x!r} vs {y!r}'
	return f'length {len(la)} vs {len(lb)} lines'


def _interactive(seed: int) -> dict:
	"""Drive the real Interactive loop with scripted submissions (tty replaced), compare printed results."""
	import contextlib
	import io
	import random
	from harness.tranp_env import Env, enter_scratch, transpiler_definitions
	root = enter_scratch('verif-c04-it-')
	setup_disk(root)
	import rogw.tranp.bin.transpile as cli
	from rogw.tranp.app.app import App
	from rogw.tranp.lang.module import to_fullyname
	rnd = random.Random(seed)
	script = [rnd.choice(list(MAIN)) for _ in range(14)] + ['ia', 'id']
	feed = iter([MAIN[v].rstrip('\n').split('\n') for v in script] + [['exit']])
	failures = []
	fresh = {v: fresh_text('main', v) for v in ('ia', 'id')}
	org_tty = cli.tty
	def fake_tty(prompt: str):
		print(prompt)
		return next(feed)

	cli.tty = fake_tty
	defs = transpiler_definitions(os.path.join(root, 'cache-it'))
	defs.pop(to_fullyname(cli.SourceProvider), None)
	defs.pop(to_fullyname(cli.ModuleMetaFactory), None)
	out = io.StringIO()
	crashed = None
	try:
		with contextlib.redirect_stdout(out):
			app = App(defs)
			app.run(lambda invoker=None: None) if False else None
			from rogw.tranp.lang.locator import Invoker
			app.resolve(Invoker)(cli.Interactive).run()
	except Exception as e:
		crashed = f'{type(e).__name__}: {str(e)[:160]}'
	finally:
		cli.tty = org_tty
	text = out.getvalue()
	results = text.split('===============\nResult:\n---------------\n')[1:]
	body = lambda t: t.partition('\n')[2]  # the interactive loop uses a dummy source hash in the header line
	printed = [body(r.split('\n===============\nPython code here')[0].split('\nQuit\n')[0]).rstrip('\n') for r in results]
	ok_script = [v for v in script if v in ('ia', 'id')]
	return {'script': script, 'printed': printed, 'expected': [body(fresh[v]).rstrip('\n') for v in ok_script], 'crashed': crashed, 'quit': text.rstrip().endswith('Quit'), 'tail': text[-300:]}


def _cli_run(args) -> dict:
	root, order, hashseed = args
	from harness.fs_binding import World
	w = World(root, 'Chain')
	with open(os.path.join(root, 'vm', 'rich.py'), 'w') as f:
		f.write(RICH)
	# a second chain whose middle module needs the symbols of the module it imports WHILE it is transpiled (an attribute and a
	# method of an imported class): pc -> pb -> pa, listed in the same permutation as a, b, c
	for name, src in PCHAIN.items():
		with open(os.path.join(root, 'vm', f'{name}.py'), 'w') as f:
			f.write(src)
	w.mods = list(w.mods) + ['rich', 'pa', 'pb', 'pc']
	import yaml
	cfg_path = os.path.join(root, 'config.yml')
	cfg = yaml.safe_load(open(cfg_path))
	from harness.fs_binding import stem_of
	cfg['input_globs'] = [f'vm/{stem_of("Chain", m).replace(".", "/")}.py' for m in order] + ['vm/rich.py'] + [f'vm/{ {"a": "pc", "b": "pb", "c": "pa"}[m] }.py' for m in order]
	yaml.safe_dump(cfg, open(cfg_path, 'w'))
	env = dict(os.environ)
	env.update({'PYTHONHASHSEED': hashseed, 'VERIF_CACHE_DIR': os.path.join(root, 'cache'), 'VERIF_CACHE_ENABLED': '1', 'PYTHONPATH': f'{os.path.dirname(os.path.dirname(os.path.dirname(os.path.abspath(__file__))))}:{root}'})
	code = 'from harness import compat\nimport sys\nfrom rogw.tranp.app.app import App\nfrom rogw.tranp.bin.transpile import Args, TranspileApp\nApp(TranspileApp.definitions(Args(["-c", "config.yml", "-f"]))).run(TranspileApp.run)\n'
	proc = subprocess.run(['/venv/bin/python', '-c', code], cwd=root, env=env, capture_output=True, text=True, timeout=300)
	files = {}
	for m in w.mods:
		p = w.out_path(m)
		files[m] = open(p).read() if os.path.exists(p) else None
	return {'order': order, 'hashseed': hashseed, 'rc': proc.returncode, 'files': files, 'stderr': proc.stderr[-300:]}


def run(ctx: Ctx) -> int:
	quick = ctx.quick
	violations: list[Violation] = []
	res = tlc.run('Session', 'Session.cfg', workers=16, timeout=900)
	if not res.ok:
		raise Machinery(f'TLC reports an error on Session.tla: {res.out[-1500:]}')
	ctx.log(f'TLC: {res.distinct} states, {res.generated} transitions')
	er = tlc.run('Session', 'Session_edges4.cfg' if quick else 'Session_edges5.cfg', workers=1, timeout=900)
	edges = [json.loads(line) for line in er.lines('EDGE ')]
	key = lambda v: json.dumps(v, sort_keys=True)
	parent: dict[str, tuple | None] = {}
	paths = []
	for e in edges:
		kf, kt = key(e['from']), key(e['to'])
		if not parent:
			parent[kf] = None
		if kt not in parent:
			parent[kt] = (kf, e['op'], e['to'])
		prefix = []
		k = kf
		while parent[k] is not None:
			pk, pop, pto = parent[k]
			prefix.append((pop, pto))
			k = pk
		prefix.reverse()
		paths.append(prefix + [(e['op'], e['to'])])
	# the specification's state does not tell a module that was loaded from one that was transpiled (transpiling loads):
	# the breadth-first tree reaches a state by whichever came first.  What the transpiler itself remembers between
	# transpiles is not in that state, so every history that ends in a transpile is replayed a second time with the
	# loads of disk modules on the way done by transpiling them
	variants = []
	for path in paths:
		if path[-1][0]['name'] == 'transpile' and any(op['name'] == 'load' and op['m'] != 'main' and op['res'] == 'ok' for op, _ in path[:-1]):
			variants.append([({'name': 'transpile', 'm': op['m'], 'res': 'ok'}, to) if op['name'] == 'load' and op['m'] != 'main' and op['res'] == 'ok' else (op, to) for op, to in path[:-1]] + [path[-1]])
	# ... and a state is reached by the FIRST history that leads to it: an operation that leaves the specification's state as
	# it is (the reload of a module whose imports are all loaded) never stands in front of a later operation.  Every history
	# that ends in a transpile is replayed once more with each such reload - an edge of TLC's stream - put before the transpile
	loops: dict[str, list] = {}
	for e in edges:
		if e['op']['name'] == 'reload' and key(e['from']) == key(e['to']):
			loops.setdefault(key(e['from']), []).append((e['op'], e['to']))
	init_key = next(k for k, v in parent.items() if v is None)
	reloads = []
	for path in paths:
		if path[-1][0]['name'] == 'transpile' and path[-1][0].get('res') == 'ok':
			pre = key(path[-2][1]) if len(path) > 1 else init_key
			for step in loops.get(pre, []):
				reloads.append(path[:-1] + [step, path[-1]])
	paths = paths + variants + reloads
	nproc = 16
	with ProcessPoolExecutor(max_workers=nproc) as ex:
		results = list(ex.map(_replay, [(paths[i::nproc], ()) for i in range(nproc)]))
		# ... and once more with module a held in memory (storage axis)
		held_results = list(ex.map(_replay, [(paths[i::nproc], ('a',)) for i in range(nproc)]))
	for r in held_results:
		for f in r['failures']:
			f['detail'] = '[module a held in memory] ' + f['detail']
	results = results + held_results
	failures = [f for r in results for f in r['failures']]
	ntexts = sum(r['texts'] for r in results)
	ctx.log(f'{len(paths)} edges replayed on long-lived applications, {ntexts} transpile texts compared with fresh processes: {len(failures)} failures')
	groups: dict[str, list] = {}
	for f in failures:
		groups.setdefault(f['clause'] if f['clause'].startswith('HistoryFree:') else f'replay:{f["history"][-1]["name"]}:{f["clause"]}', []).append(f)
	for k, fs in groups.items():
		s = min(fs, key=lambda f: len(f['history']))
		violations.append(Violation(k, s['clause'], f'{s["detail"]} ({len(fs)} edges)', {'history': s['history']}))

	# interactive loop
	with ProcessPoolExecutor(max_workers=4) as ex:
		its = list(ex.map(_interactive, [ctx.seed + i for i in range(2 if quick else 8)]))
	n_it = 0
	for it in its:
		n_it += len(it['printed'])
		if it['printed'] != it['expected']:
			if it['crashed']:
				# the loop dying on a failing submission is C07's finding (foreign exception escapes); C04 compares what was printed before
				n = len(it['printed'])
				if it['printed'] != it['expected'][:n]:
					violations.append(Violation('interactive:text', 'HistoryFree', f'interactive result differs from fresh process after script {it["script"]}', it))
			else:
				violations.append(Violation('interactive:text', 'HistoryFree', f'interactive results differ from fresh process after script {it["script"]}: {len(it["printed"])} printed vs {len(it["expected"])} expected', it))
	ctx.log(f'interactive loop: {len(its)} scripted sessions, {n_it} printed results compared')

	# configuration axis: hash seeds x target orders in OS processes
	orders = [list(p) for p in itertools.permutations(['a', 'b', 'c'])]
	seeds = ['0', '1', '12345', 'random']
	# quick: every target order once, the hash seeds spread over them; thorough: the full product
	pairs = [(order, seeds[i % len(seeds)]) for i, order in enumerate(orders)] + [(orders[0], '12345'), (orders[-1], 'random')] if quick else [(order, seed) for order in orders for seed in seeds]
	jobs = [(os.path.join(scratch_dir('verif-c04-cli-'), 'w'), order, seed) for order, seed in pairs]
	with ProcessPoolExecutor(max_workers=min(16, len(jobs))) as ex:
		cli = list(ex.map(_cli_run, jobs))
	base = cli[0]
	if base['rc'] != 0 or any(v is None for v in base['files'].values()):
		raise Machinery(f'command-line run failed: order={base["order"]} seed={base["hashseed"]} rc={base["rc"]} {base["stderr"]}')
	for r in cli:
		if r['rc'] != 0 or any(v is None for v in r['files'].values()):
			# the same targets in another order (or under another hash seed) do not even finish: the output depends on the order
			missing = [m for m, v in r['files'].items() if v is None]
			violations.append(Violation(f'cli:{"order" if r["order"] != base["order"] else "hashseed"}:run-fails', 'Deterministic', f'the run with order={r["order"]}, PYTHONHASHSEED={r["hashseed"]} ends with rc={r["rc"]} and leaves {missing} unwritten ({r["stderr"][-160:]!r}); order={base["order"]} writes everything', {'a': base, 'b': r}))
			continue
		if r['files'] != base['files']:
			which = [m for m in r['files'] if r['files'][m] != base['files'][m]]
			violations.append(Violation(f'cli:{"order" if r["order"] != base["order"] else "hashseed"}', 'Deterministic', f'output of {which} differs between (order={base["order"]}, PYTHONHASHSEED={base["hashseed"]}) and (order={r["order"]}, PYTHONHASHSEED={r["hashseed"]})', {'a': base, 'b': r}))
	ctx.log(f'command-line runs: {len(cli)} OS processes (hash seeds x target orders) byte-compared')

	coverage = {
		'states': res.distinct,
		'transitions': res.generated,
		'traces_validated_against_impl': len(paths) + len(its),
		'edges_replayed_on_impl': len(paths),
		'transpile_texts_compared_with_fresh_process': ntexts + n_it,
		'interactive_sessions': len(its),
		'cli_processes': len(cli),
		'hash_seeds': seeds,
		'target_orders': orders,
		'exhaustive': True,
		'bounds': {'modules': POOL, 'main_variants': list(MAIN), 'operations_exhaustive': 5, 'operations_replayed': 3 if quick else 4},
		'samples': [{'history': [op for op, _ in paths[len(paths) // 2]]}, {'interactive_script': its[0]['script']}],
	}
	assumptions = [
		'projection reads private tables (_Modules__modules via loaded(), _Entrypoints__entrypoints, _SymbolDB__paths/__completed, _Py2Cpp__procedure/_Procedure__stacks)',
		'fresh process = fresh application object for the replay; OS subprocesses for the hash-seed / target-order axis',
	]
	return finish(ctx, LEVEL, coverage, violations, assumptions)
