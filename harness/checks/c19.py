"""C19 — the dependency container follows its reference model (spec/DI.tla).

1. TLC explores DI.tla exhaustively (MCDI universe) with all C19 action properties.
2. spec -> code: TLC's labelled edge stream (BFS, plus -simulate for long behaviours) is replayed on real
   LazyDI objects; after every step the observation (result / exception class / instance identity) and the
   projection of the real containers must equal the spec state.
3. code -> spec: recorded executions of a recording LazyDI subclass (random driver over the universe, the
   repository's own DI test scenarios, the real application booting and loading modules) are validated by
   TraceDI.tla.
"""
import json
import os
import random
import shutil
from concurrent.futures import ProcessPoolExecutor

from harness import compat  # noqa: F401
from harness import tlc
from harness.core import Ctx, Machinery, Violation, finish
from harness.tranp_env import REPO, scratch_dir

LEVEL = 'model_checking'


def explore(ctx: Ctx, cfg: str) -> tlc.TLCResult:
	res = tlc.run('MCDI', cfg, workers=16, timeout=1500, coverage=False)
	if not res.ok:
		raise Machinery(f'TLC reports an error on the specification itself ({cfg}): {res.out[-1500:]}')
	return res


def edge_stream(ctx: Ctx, cfg: str, simulate: str = '', depth: int = 0, seed: int = 0) -> list[dict]:
	if simulate:
		res = tlc.run('MCDI', cfg, workers=1, mode='simulate', simulate=simulate, depth=depth, seed=seed, timeout=900)
	else:
		res = tlc.run('MCDI', cfg, workers=1, timeout=900)
	edges = [json.loads(line) for line in res.lines('EDGE ')]
	if not edges:
		raise Machinery(f'no edges emitted by TLC ({cfg}): {res.out[-800:]}')
	return edges


def _replay_chunk(args) -> list[dict]:
	"""Worker: replay a list of op paths; each path = list of (op, expected view after)"""
	paths, scratch = args
	from harness.di_binding import Replayer, install_universe, normalize_view
	universe = install_universe(scratch)
	rp = Replayer(universe)
	failures = []
	for path in paths:
		rp.reset()
		for index, (op, to_view) in enumerate(path):
			obs = rp.step(op)
			expect = normalize_view(to_view)
			problem = None
			if obs['res'] != op['res']:
				problem = ('result', f'{op["name"]}: code raised/returned {obs["res"]} ({obs.get("msg", "")}), spec says {op["res"]}')
			elif op.get('ret', 0) and obs.get('ret') != op['ret']:
				problem = ('instance', f'{op["name"]}: code returned instance #{obs.get("ret")}, spec says #{op["ret"]}')
			else:
				got = rp.project()
				if got != expect:
					diff = _first_diff(got, expect)
					problem = ('state', f'after {op["name"]}: {diff}')
			if problem:
				failures.append({'clause': problem[0], 'detail': problem[1], 'history': [p[0] for p in path[:index + 1]]})
				break
	return failures


def _first_diff(got: dict, expect: dict) -> str:
	if len(got['cont']) != len(expect['cont']):
		return f'number of containers {len(got["cont"])} vs spec {len(expect["cont"])}'
	for i, (g, e) in enumerate(zip(got['cont'], expect['cont'])):
		for field in ('defs', 'inj', 'inst', 'memo'):
			if g[field] != e[field]:
				return f'container {i + 1} {field}: code {g[field]} vs spec {e[field]}'
		if 'can_resolve_disagrees' in g:
			return f'container {i + 1}: can_resolve disagrees with definitions for {g["can_resolve_disagrees"]}'
	if got['born'] != expect['born']:
		return f'created instances: code {got["born"][-3:]} vs spec {expect["born"][-3:]}'
	return 'unknown difference'


def paths_from_bfs_edges(edges: list[dict]) -> list[list]:
	"""Every edge behind the BFS-tree path to its source state."""
	key = lambda view: json.dumps(view, sort_keys=True)
	parent: dict[str, tuple[str, dict, list] | None] = {}
	init_key = key([[], []])
	parent[init_key] = None
	for e in edges:  # BFS order: a state's first incoming edge is a shortest one
		k_to = key(e['to'])
		if k_to not in parent:
			parent[k_to] = (key(e['from']), e['op'], e['to'])
	prefix_cache: dict[str, list] = {init_key: []}

	def prefix(k: str) -> list:
		if k in prefix_cache:
			return prefix_cache[k]
		pk, op, to = parent[k]  # type: ignore
		res = prefix(pk) + [(op, to)]
		prefix_cache[k] = res
		return res

	paths = []
	for e in edges:
		kf = key(e['from'])
		if kf not in parent:
			raise Machinery('edge stream: source state of an edge was never reached')
		paths.append(prefix(kf) + [(e['op'], e['to'])])
	return paths


def paths_from_sim_edges(edges: list[dict]) -> list[list]:
	"""-simulate emits one chain per behaviour: a new chain starts at the initial state."""
	paths: list[list] = []
	current: list = []
	for e in edges:
		if e['from'] == [[], []]:
			if current:
				paths.append(current)
			current = []
		current.append((e['op'], e['to']))
	if current:
		paths.append(current)
	return paths


def replay(ctx: Ctx, paths: list[list]) -> list[dict]:
	nproc = 16
	chunks = [paths[i::nproc] for i in range(nproc)]
	scratches = [scratch_dir('verif-di-') for _ in range(nproc)]
	with ProcessPoolExecutor(max_workers=nproc) as ex:
		results = list(ex.map(_replay_chunk, zip(chunks, scratches)))
	for s in scratches:
		shutil.rmtree(s, ignore_errors=True)
	return [f for chunk in results for f in chunk]


# ------------------------------------------------------------------------------------------------
# code -> spec


def record_random(seed: int, nops: int) -> dict:
	"""Drive recording containers over the MCDI universe with a seeded random op sequence."""
	from harness.di_binding import Recorder, finalize_trace, install_universe, recording_class, SYMS
	scratch = scratch_dir('verif-di-')
	U = install_universe(scratch)
	rec = Recorder()
	R = recording_class(rec)
	rnd = random.Random(seed)
	facs = {'s1': ['s1a', 's1b'], 's2': ['s2a', 's2b'], 's3': ['s3a', 's3b']}
	conts = []
	for _ in range(nops):
		choice = rnd.random()
		try:
			if not conts or (choice < 0.08 and len(conts) < 6):
				defs = {}
				for s in SYMS:
					if rnd.random() < 0.5:
						f = rnd.choice(facs[s])
						defs[f'verif_di_syms.{SYMS[s]}'] = f'verif_di_syms.{f}' if rnd.random() < 0.5 else getattr(U, f)
				conts.append(R.instantiate(defs))
				continue
			di = rnd.choice(conts)
			s = rnd.choice(list(SYMS))
			sym = getattr(U, SYMS[s])
			if s == 's3' and rnd.random() < 0.5:
				sym = sym[int]
			f = getattr(U, rnd.choice(facs[s]))
			if choice < 0.25:
				di.bind(sym, f)
			elif choice < 0.35:
				di.unbind(sym)
			elif choice < 0.5:
				di.rebind(sym, f)
			elif choice < 0.7:
				di.resolve(sym)
			elif choice < 0.75:
				di.can_resolve(sym)
			elif choice < 0.9:
				g = getattr(U, rnd.choice(['g1', 'g2', 'g3', 's1a', 's2b', 's3a', 's3b']))
				extras = rnd.choice([[], ['x'], [7], ['x', 'y'], [3, 'x']])
				di.invoke(g, *extras)
			elif len(conts) < 8:
				conts.append(di.combine(rnd.choice(conts)))
		except Machinery:
			raise
		except Exception:  # whatever the container raises is in the recorded event; the trace specification judges it
			pass
	shutil.rmtree(scratch, ignore_errors=True)
	return finalize_trace(rec)


def record_repo_di_tests() -> list[dict]:
	"""The repository's own DI unit-test scenarios, run on the recording subclass instead of DI."""
	import importlib
	import unittest
	from harness.di_binding import Recorder, finalize_trace, recording_class
	import sys
	if REPO not in sys.path:
		sys.path.insert(0, REPO)
	mod = importlib.import_module('tests.unit.rogw.tranp.lang.test_di')
	traces = []
	names = [n for n in dir(mod.TestDI) if n.startswith('test_')]
	for name in names:
		rec = Recorder()
		R = recording_class(rec)
		saved = mod.DI
		mod.DI = R
		try:
			result = unittest.TestResult()
			mod.TestDI(name).run(result)
			if result.errors or result.failures:
				raise Machinery(f'repository DI test {name} fails on the recording subclass: {(result.errors + result.failures)[0][1][-400:]}')
		finally:
			mod.DI = saved
		tr = finalize_trace(rec)
		if tr['events']:
			traces.append(tr)
	return traces


def record_app_boot(limit: int) -> dict:
	"""The real application: boot, load and transpile two small in-memory modules, interactive-style rebinds."""
	import rogw.tranp.providers.app as papp
	import rogw.tranp.providers.syntax.entrypoints as pentry
	from harness.di_binding import Recorder, finalize_trace, recording_class
	from harness.tranp_env import Env, enter_scratch
	enter_scratch('verif-di-app-')
	rec = Recorder()
	rec.limit = limit
	R = recording_class(rec)
	saved = (papp.LazyDI, pentry.LazyDI)
	papp.LazyDI = R
	pentry.LazyDI = R
	try:
		env = Env(sources={'__main__': 'from verif_m import f\nx = f(1)\n', 'verif_m': 'def f(n: int) -> int:\n\treturn n + 1\n'})
		env.transpile('__main__')
		env.modules.unload('__main__')
		env.sources['__main__'] = 'y: str = "a"\n'
		env.transpile('__main__')
	finally:
		papp.LazyDI, pentry.LazyDI = saved
	return finalize_trace(rec)


def validate_traces(ctx: Ctx, traces: list[dict], label: str) -> tuple[int, list[Violation], tlc.TLCResult]:
	from harness.di_binding import group_compatible, write_trace_inputs
	groups = group_compatible(traces)
	if len(groups) > 1:
		total, violations, last = 0, [], None
		for group in groups:
			n, v, last = validate_traces(ctx, group, label)
			total += n
			violations += v
		return total, violations, last
	outdir = scratch_dir('verif-di-trace-')
	cfg, json_path = write_trace_inputs(traces, outdir)
	res = tlc.run('TraceDI', cfg, workers=1, timeout=900, env={'TRACE_FILE': json_path}, cwd=outdir, extra=[], dfs_queue=False)
	violations = []
	accepted = bool(res.lines('TRACES-ACCEPTED'))
	if not accepted or res.rc != 0:
		rejected = res.lines('TRACES-REJECTED ')
		detail = f'{label}: TLC rejects recorded executions {rejected or ""} {"; ".join(res.invariant_violated + res.action_property_violated)}'
		# diagnose: longest matched prefix of the first rejected trace
		violations.append(Violation(f'trace-rejected:{label}', 'TraceDI', detail + ' | ' + res.out[-600:].replace('\n', ' / '), {'traces_dir': outdir, 'label': label}))
	else:
		shutil.rmtree(outdir, ignore_errors=True)
	return len(traces), violations, res


def run(ctx: Ctx) -> int:
	quick = ctx.quick
	violations: list[Violation] = []

	# 1. exhaustive exploration of the spec
	res = explore(ctx, 'DI.cfg' if quick else 'DI_deep.cfg')
	ctx.log(f'TLC explore: {res.distinct} distinct states, {res.generated} transitions, depth {res.depth}')
	states, transitions = res.distinct, res.generated

	# 2. spec -> code
	edges = edge_stream(ctx, 'DI_edges.cfg' if quick else 'DI_edges5.cfg')
	paths = paths_from_bfs_edges(edges)
	ctx.log(f'edge stream: {len(edges)} labelled edges to replay behind their shortest prefixes')
	# long behaviours are covered in the code -> spec direction (random driver + TraceDI): TLC's -simulate
	# evaluates the emitting action constraint on every candidate successor, not only the chosen one
	sim_edges, sim_paths = [], []
	failures = replay(ctx, paths + sim_paths)
	op_names = set()
	for p in paths + sim_paths:
		op_names.update(op['name'] + ':' + op['res'] for op, _ in p)
	seen = set()
	for f in failures:
		last = f['history'][-1]
		key = f'replay:{last["name"]}:{f["clause"]}'
		if key in seen:
			continue
		seen.add(key)
		count = sum(1 for g in failures if f'replay:{g["history"][-1]["name"]}:{g["clause"]}' == key)
		shortest = min((g for g in failures if f'replay:{g["history"][-1]["name"]}:{g["clause"]}' == key), key=lambda g: len(g['history']))
		violations.append(Violation(key, f'conformance/{f["clause"]}', f'{shortest["detail"]} ({count} edges)', {'history': shortest['history']}))

	# 3. code -> spec
	traces = [record_random(ctx.seed * 1000 + i, 60 if quick else 200) for i in range(40 if quick else 400)]
	n1, v1, r1 = validate_traces(ctx, traces, 'random-driver')
	violations += v1
	repo_traces = record_repo_di_tests()
	n2, v2, r2 = validate_traces(ctx, repo_traces, 'repo-di-tests')
	violations += v2
	app_trace = record_app_boot(300 if quick else 1500)
	n3, v3, r3 = validate_traces(ctx, [app_trace], 'app-boot')
	violations += v3
	trace_events = sum(len(t['events']) for t in traces + repo_traces + [app_trace])
	ctx.log(f'trace validation: {n1} random + {n2} repo-test + {n3} app traces, {trace_events} events')

	coverage = {
		'states': states,
		'transitions': transitions,
		'traces_validated_against_impl': n1 + n2 + n3,
		'edges_replayed_on_impl': len(edges) + len(sim_edges),
		'behaviours_replayed_on_impl': len(paths) + len(sim_paths),
		'trace_events_validated': trace_events,
		'trace_states': r1.distinct + r2.distinct + r3.distinct,
		'op_result_kinds_replayed': sorted(op_names),
		'exhaustive': True,
		'bounds': {'containers': 3, 'symbols': 3, 'factories': 6, 'invoke_functions': 6, 'ops_exhaustive': 3 if quick else 4, 'ops_random_driver': 60 if quick else 200},
		'samples': [
			{'replayed_history': [op for op, _ in paths[len(paths) // 2]]},
			{'recorded_trace_head': app_trace['events'][:6], 'legend_head': dict(list(app_trace['legend']['sym'].items())[:6])},
		],
		'properties_checked_by_tlc': ['TypeOK', 'Layered', 'InstanceOfBinding', 'InstanceStable', 'ResolveReturnsHeld', 'RebindDiscards', 'RebindTotal', 'CombineRightWins', 'OperandsUnaffected', 'UnknownRaises', 'OnlyValueError', 'InvokePrefixRule', 'InvokeMismatchRaises'],
	}
	assumptions = [
		'DI.tla transcribes LazyDI/DI method by method; binding is by replay of every explored edge and by trace validation',
		'projection reads the private dictionaries of DI/LazyDI (name-mangled attributes); a rename is reported as machinery failure',
		'exhaustive only within the stated bounds; longer behaviours by random simulation',
	]
	return finish(ctx, LEVEL, coverage, violations, assumptions)
