"""Statement-level part of C02 (spec/PyStmt.tla): block nesting / elif-else binding / loops / try, and the
classification of definitions and declarations."""
import ast
from concurrent.futures import ProcessPoolExecutor

from harness import compat  # noqa: F401
from harness.core import Ctx, Machinery, Violation

NUMBER_CASES: list[dict] = []
BATCH = 60


def _check_stmts(args) -> dict:
	cases, first = args
	from harness import srcmodel
	from harness.tranp_env import Env, enter_scratch
	enter_scratch('verif-c02s-')
	failures, machinery = [], []
	program = '\n'.join(c['text'].replace('def f(', f'def f{first + i}(', 1) for i, c in enumerate(cases))
	try:
		env = Env()
		module = env.reload_main(program)
		funcs = srcmodel.function_nodes(module.entrypoint)
	except Exception as e:
		return {'failures': [{'clause': 'accepted', 'detail': f'{type(e).__name__}: {str(e)[:200]}', 'text': cases[0]['text'], 'kinds': 'batch'}], 'machinery': []}
	tree = ast.parse(program)
	for i, (case, fn) in enumerate(zip(cases, funcs)):
		want = srcmodel.canon_model_stmt(case['canon'])
		ref = srcmodel.canon_cpython_stmt(tree.body[i].body[1])
		if want != ref:
			machinery.append(f'spec and CPython disagree on {case["text"]!r}: {want} vs {ref}')
			continue
		try:
			got = srcmodel.canon_tranp_stmt(fn.statements[1])
			nstmts = len(fn.statements)
		except Exception as e:
			got, nstmts = ('error', type(e).__name__, str(e)[:100]), 3
		if got != want or nstmts != 3:
			failures.append({'clause': 'statement-nesting', 'detail': f'tranp {got} vs python {want} (function has {nstmts} statements, python 3)', 'text': case['text'], 'kinds': _kinds(case['canon'])})
	return {'failures': failures, 'machinery': machinery}


def _kinds(c: dict) -> str:
	k = c['k']
	inner = []
	for key in ('body', 'orelse', 'handler'):
		for s in c.get(key, []):
			if s['k'] in ('if', 'while', 'for', 'try'):
				inner.append(_kinds(s))
	return k + (f'[{",".join(sorted(set(inner)))}]' if inner else '')


def _check_defs(cases: list[dict]) -> list[dict]:
	from harness.tranp_env import Env, enter_scratch
	import rogw.tranp.syntax.node.definition as defs
	enter_scratch('verif-c02d-')
	failures = []
	for case in cases:
		try:
			env = Env()
			module = env.reload_main(case['text'])
			entry = module.entrypoint
			found: dict[str, str] = {}
			decls: dict[str, str] = {}
			for node in [entry, *entry.procedural()]:
				if isinstance(node, defs.ClassDef) and not isinstance(node, (defs.AltClass, defs.TemplateClass)):
					found.setdefault(node.symbol.tokens, type(node).__name__)
				if isinstance(node, defs.Declable):
					decls.setdefault(node.tokens.split('.')[-1], type(node).__name__)
			for name, kind in case['expect'].items():
				if found.get(name) != kind:
					failures.append({'clause': 'classification', 'detail': f'{case["id"]}: {name} is classified {found.get(name)}, Python semantics says {kind}', 'text': case['text'], 'kinds': f'{case["id"]}:{name}'})
			for name, kind in case.get('decls', {}).items():
				if decls.get(name) != kind:
					failures.append({'clause': 'classification', 'detail': f'{case["id"]}: declaration {name} is {decls.get(name)}, expected {kind}', 'text': case['text'], 'kinds': f'{case["id"]}:{name}'})
			if case['params']:
				fn = next(n for n in entry.statements if isinstance(n, defs.Function))
				got = [[p.symbol.tokens, p.var_type.tokens, '' if isinstance(p.default_value, defs.Empty) else p.default_value.tokens] for p in fn.parameters]
				if got != [list(p) for p in case['params']]:
					failures.append({'clause': 'parameters', 'detail': f'{case["id"]}: parameters {got} vs {case["params"]}', 'text': case['text'], 'kinds': case['id']})
		except Exception as e:
			failures.append({'clause': 'accepted', 'detail': f'{case["id"]}: {type(e).__name__}: {str(e)[:160]}', 'text': case['text'], 'kinds': case['id']})
	return failures


def _py_kinds(text: str) -> list:
	"""(name, kind) of every definition in document order, by Python's semantics read off CPython's ast"""
	import ast
	out = []

	def walk(body, parent: str) -> None:
		for n in body:
			if isinstance(n, ast.ClassDef):
				out.append((n.name, 'Class'))
				walk(n.body, 'class')
			elif isinstance(n, ast.FunctionDef):
				decos = [d.id for d in n.decorator_list if isinstance(d, ast.Name)]
				if parent == 'module':
					kind = 'Function'
				elif parent == 'class':
					# a static method is a plain function that lives in the class: not a method (no receiver), not a closure (no enclosing def's scope)
					kind = 'ClassMethod' if 'classmethod' in decos else 'Function' if 'staticmethod' in decos else 'Constructor' if n.name == '__init__' else 'Method'
				else:
					kind = 'Closure'
				out.append((n.name, kind))
				walk(n.body, 'def')
			else:
				# a compound statement opens no scope: what it holds belongs to what encloses it
				for field in ('body', 'orelse', 'finalbody', 'handlers'):
					walk([c for c in getattr(n, field, []) if isinstance(c, ast.AST)], parent)
	walk(ast.parse(text).body, 'module')
	return out


def _check_nests(cases: list[dict]) -> dict:
	from harness.tranp_env import Env, enter_scratch
	import rogw.tranp.syntax.node.definition as defs
	enter_scratch('verif-c02n-')
	failures, machinery = [], []
	for case in cases:
		want = [(e['name'], e['kind']) for e in case['expect']]
		if _py_kinds(case['text']) != want:
			machinery.append(f'spec and CPython disagree on the definitions of {case["text"]!r}: {want} vs {_py_kinds(case["text"])}')
			continue
		path = ''.join(case['path'])
		try:
			entry = Env().reload_main(case['text']).entrypoint
			got = [(n.symbol.tokens, type(n).__name__) for n in [entry, *entry.procedural()] if isinstance(n, defs.ClassDef) and not isinstance(n, (defs.AltClass, defs.TemplateClass))]
		except Exception as e:
			failures.append({'clause': 'accepted', 'detail': f'nesting {path}: {type(e).__name__}: {str(e)[:160]}', 'text': case['text'], 'kinds': f'nest:{path}'})
			continue
		if sorted(got) != sorted(want):
			bad = sorted(set(got) ^ set(want))
			failures.append({'clause': 'classification', 'detail': f'nesting {path} ({case["text"]!r}): tranp classifies {got}, Python semantics says {want}', 'text': case['text'], 'kinds': f'nest:{"/".join(sorted({k for _, k in bad}))}'})
	return {'failures': failures, 'machinery': machinery}


def _py_list(construct: str, text: str) -> list[str]:
	"""the items of the list the case is about, as CPython's ast orders them"""
	import ast
	tree = ast.parse(text)
	top = tree.body[0]
	name = lambda e: e.id if isinstance(e, ast.Name) else e.func.id if isinstance(e, ast.Call) else ast.unparse(e)
	if construct in ('decorators-def', 'decorators-class'):
		return [name(d) for d in top.decorator_list]
	if construct == 'decorator-args':
		return [name(a) for a in top.decorator_list[0].args]
	if construct == 'bases':
		return [name(b) for b in top.bases]
	if construct == 'elifs':
		out, node = [], top.body[0]
		while node.orelse and isinstance(node.orelse[0], ast.If):
			node = node.orelse[0]
			out.append(node.test.left.id)
		return out
	if construct == 'with-items':
		return [name(i.context_expr) for i in top.body[0].items]
	if construct == 'params':
		return [a.arg for a in top.args.args]
	if construct == 'call-args':
		return [name(a) for a in top.body[0].value.args]
	if construct == 'dict-items':
		return [k.value for k in top.body[0].value.keys]
	raise Machinery(f'unknown list construct {construct}')


def _tranp_list(construct: str, entry) -> list[str]:
	import rogw.tranp.syntax.node.definition as defs
	top = entry.statements[0]
	first = lambda node: node.tokens.split('.')[0].split('(')[0]
	if construct in ('decorators-def', 'decorators-class'):
		return [d.path.tokens for d in top.decorators]
	if construct == 'decorator-args':
		return [a.value.tokens for a in top.decorators[0].arguments]
	if construct == 'bases':
		return [t.tokens for t in top.inherits]
	if construct == 'elifs':
		return [e.condition.elements[0].tokens for e in top.statements[0].else_ifs]
	if construct == 'with-items':
		return [e.enter.calls.tokens for e in top.statements[0].entries]
	if construct == 'params':
		return [p.symbol.tokens for p in top.parameters]
	if construct == 'call-args':
		return [a.value.tokens for a in top.statements[0].return_value.arguments]
	if construct == 'dict-items':
		import ast
		return [ast.literal_eval(p.first.tokens) for p in top.statements[0].return_value.items]
	raise Machinery(f'unknown list construct {construct}')


def lists_in_source_order(entry, label: str) -> list[dict]:
	"""every list-valued property of every node holds its items in the order of the text (CPython's lists are in source order)"""
	import rogw.tranp.syntax.node.definition as defs
	failures = []
	for node in [entry, *entry.procedural()]:
		for key in node.prop_keys():
			value = getattr(node, key)
			if not isinstance(value, list) or len(value) < 2:
				continue
			spans = [(tuple(v.source_map['begin']), type(v).__name__) for v in value if not isinstance(v, defs.Empty) and tuple(v.source_map['begin']) != (0, 0)]
			if any(a[0] > b[0] for a, b in zip(spans, spans[1:])):
				failures.append({'clause': 'ListsInSourceOrder', 'detail': f'{label}: {type(node).__name__}.{key} at line {node.source_map["begin"][0]} lists its items out of text order: {spans[:4]}', 'text': label, 'kinds': f'order:{type(node).__name__}.{key}'})
	return failures


def _check_lists(cases: list[dict]) -> dict:
	from harness.tranp_env import Env, enter_scratch
	enter_scratch('verif-c02l-')
	failures, machinery = [], []
	for case in cases:
		if _py_list(case['construct'], case['text']) != list(case['order']):
			machinery.append(f'spec and CPython disagree on the {case["construct"]} of {case["text"]!r}: {case["order"]} vs {_py_list(case["construct"], case["text"])}')
			continue
		try:
			entry = Env().reload_main(case['text']).entrypoint
			got = _tranp_list(case['construct'], entry)
		except Exception as e:
			failures.append({'clause': 'accepted', 'detail': f'{case["construct"]} ({case["text"]!r}): {type(e).__name__}: {str(e)[:160]}', 'text': case['text'], 'kinds': f'list:{case["construct"]}'})
			continue
		if got != list(case['order']):
			failures.append({'clause': 'ListOrder', 'detail': f'{case["construct"]} of {case["text"]!r}: tranp lists {got}, the text and CPython have {list(case["order"])}', 'text': case['text'], 'kinds': f'list:{case["construct"]}'})
		failures += lists_in_source_order(entry, case['text'])
	return {'failures': failures, 'machinery': machinery}


LIST_CASES: list[dict] = []


def _py_roles(text: str) -> dict[str, list[str]]:
	"""name -> roles of its occurrences as bare names, from CPython's ast (Store / parameter / `as` target = bind; Load = ref)"""
	roles: dict[str, list[str]] = {}
	for n in ast.walk(ast.parse(text)):
		if isinstance(n, ast.Name):
			roles.setdefault(n.id, []).append('bind' if isinstance(n.ctx, ast.Store) else 'ref')
		elif isinstance(n, ast.arg):
			roles.setdefault(n.arg, []).append('bind')
		elif isinstance(n, ast.ExceptHandler) and n.name:
			roles.setdefault(n.name, []).append('bind')
	return roles


def _check_roles(cases: list[dict]) -> dict:
	"""PyRoles.tla: the role of every slot - spec = CPython (else machinery) = class family of tranp's node"""
	import rogw.tranp.syntax.node.definition as defs
	from harness.tranp_env import Env, enter_scratch
	from rogw.tranp.syntax.ast.entrypoints import Entrypoints
	from rogw.tranp.syntax.ast.finder import ASTFinder
	from rogw.tranp.syntax.ast.parser import SyntaxParser
	enter_scratch('verif-c02-')
	failures, machinery = [], []
	for case in cases:
		py = _py_roles(case['text'])
		for slot in case['slots']:
			if py.get(slot['name']) != [slot['role']]:
				machinery.append(f'spec and CPython disagree on the role of {slot["name"]} in {case["text"]!r}: spec {slot["role"]}, CPython {py.get(slot["name"])}')
		if machinery:
			continue
		kinds = f'role:{case["construct"]}'
		try:
			env = Env(sources={'vm_roles': case['text']})
			# the node tree alone: no symbol resolution (the names of a construct are deliberately not defined anywhere)
			entry = env.get(Entrypoints).load('vm_roles')
			nodes = entry._Node__nodes
			found: dict[str, set] = {}
			covered: list[tuple[str, str]] = []  # (path, tokens) of name nodes already counted: entries below them are their spelling
			for p in ASTFinder().full_pathfy(env.get(SyntaxParser)('vm_roles')):
				node = nodes.by(p)
				if isinstance(node, (defs.Declable, defs.Reference)) and not isinstance(node, (defs.Relay, defs.Indexer)):
					if any(p.startswith(cp + '.') and node.tokens == ct for cp, ct in covered):
						continue
					covered.append((p, node.tokens))
					found.setdefault(node.tokens, set()).add('bind' if isinstance(node, defs.Declable) else 'ref')
		except Exception as e:
			failures.append({'clause': 'accepted', 'detail': f'{case["construct"]} in {case["context"]}: {type(e).__name__}: {str(e)[:120]}', 'text': case['text'], 'kinds': kinds})
			continue
		for slot in case['slots']:
			got = sorted(found.get(slot['name'], set()))
			if got != [slot['role']]:
				what = {'bind': 'a declaration', 'ref': 'a reference'}
				failures.append({'clause': 'NameRole', 'detail': f'`{slot["name"]}` in {case["construct"]} ({case["context"]}) is {what[slot["role"]]} for Python; tranp has {" and ".join(what[g] for g in got) or "no name node"} there', 'text': case['text'], 'kinds': kinds})
	return {'failures': failures, 'machinery': machinery}


def _check_numbers(cases: list[dict]) -> dict:
	"""the kind of a numeric literal: spec = CPython's constant type (else machinery) = tranp's literal class"""
	import rogw.tranp.syntax.node.definition as defs
	from harness.tranp_env import Env, enter_scratch
	from rogw.tranp.syntax.ast.entrypoints import Entrypoints
	from rogw.tranp.syntax.ast.finder import ASTFinder
	from rogw.tranp.syntax.ast.parser import SyntaxParser
	enter_scratch('verif-c02-')
	failures, machinery = [], []
	for case in cases:
		text = case['place'].replace('#', case['text'])
		kinds = {type(n.value).__name__ for n in ast.walk(ast.parse(text)) if isinstance(n, ast.Constant) and isinstance(n.value, (int, float)) and not isinstance(n.value, bool)}
		n_literals = case['place'].count('#')
		py = [n for n in ast.walk(ast.parse(text)) if isinstance(n, ast.Constant) and type(n.value) in (int, float) and ast.get_source_segment(text, n) == case['text']]
		if len(py) != n_literals or {type(n.value).__name__ for n in py} != {case['kind']}:
			machinery.append(f'spec and CPython disagree on the kind of {case["text"]!r} in {text!r}')
			continue
		try:
			env = Env(sources={'vm_num': text})
			entry = env.get(Entrypoints).load('vm_num')
			nodes = entry._Node__nodes
			got = []
			for p in ASTFinder().full_pathfy(env.get(SyntaxParser)('vm_num')):
				node = nodes.by(p)
				if isinstance(node, defs.Number) and node.tokens == case['text']:
					got.append('int' if isinstance(node, defs.Integer) else 'float' if isinstance(node, defs.Float) else type(node).__name__)
		except Exception as e:
			failures.append({'clause': 'accepted', 'detail': f'number {case["text"]}: {type(e).__name__}: {str(e)[:120]}', 'text': text, 'kinds': 'number'})
			continue
		if got != [case['kind']] * n_literals:
			failures.append({'clause': 'NumberKind', 'detail': f'`{case["text"]}` in {text!r} is {"an" if case["kind"] == "int" else "a"} {case["kind"]} for Python; tranp has {got or "no number node"}', 'text': text, 'kinds': f'number:{case["kind"]}'})
	return {'failures': failures, 'machinery': machinery}


def load_roles() -> list[dict]:
	import json
	from harness import tlc
	res = tlc.run('PyRoles', 'PyRoles.cfg', workers=1, timeout=600)
	cases = [json.loads(line) for line in res.lines('ROLE ')]
	global NUMBER_CASES
	NUMBER_CASES = [json.loads(line) for line in res.lines('NUMBER ')]
	if res.rc != 0 or len(cases) < 150:
		raise Machinery(f'PyRoles: a model-level fact fails or evaluation error ({len(cases)} cases): {res.out[-600:]}')
	return cases


def load_nests() -> list[dict]:
	import json
	from harness import tlc
	res = tlc.run('PyDefsEmit', 'PyDefs.cfg', workers=1, timeout=600)
	if res.rc != 0 or res.lines('CLOSURE ') != ['TRUE'] or res.lines('CONSTRUCTOR ') != ['TRUE']:
		raise Machinery(f'PyDefs: a model-level fact fails or evaluation error: {res.out[-600:]}')
	global LIST_CASES
	LIST_CASES = [json.loads(line) for line in res.lines('LIST ')]
	return [json.loads(line) for line in res.lines('NEST ')]


def run_statements(ctx: Ctx) -> tuple[list[Violation], dict]:
	from harness import srcmodel
	stmts, defcases = srcmodel.load_stmt_cases()
	batches = [(stmts[i:i + BATCH], i) for i in range(0, len(stmts), BATCH)]
	with ProcessPoolExecutor(max_workers=16) as ex:
		results = list(ex.map(_check_stmts, batches))
	machinery = [m for r in results for m in r['machinery']]
	if machinery:
		raise Machinery(f'{len(machinery)} statement cases where spec and CPython disagree, e.g. {machinery[0]}')
	nests = load_nests()
	with ProcessPoolExecutor(max_workers=16) as ex:
		nres = list(ex.map(_check_nests, [nests[i::16] for i in range(16)]))
		nres += list(ex.map(_check_lists, [LIST_CASES[i::16] for i in range(16)]))
		roles = load_roles()
		nres += list(ex.map(_check_roles, [roles[i::16] for i in range(16)]))
		if len(NUMBER_CASES) < 60:
			raise Machinery(f'PyRoles emitted {len(NUMBER_CASES)} number cases')
		nres += list(ex.map(_check_numbers, [NUMBER_CASES[i::8] for i in range(8)]))
	machinery = [m for r in nres for m in r['machinery']]
	if machinery:
		raise Machinery(f'{len(machinery)} definition nestings, e.g. {machinery[0]}')
	failures = [f for r in results for f in r['failures']] + _check_defs(defcases) + [f for r in nres for f in r['failures']]
	ctx.log(f'{len(stmts)} statement skeletons + {len(defcases)} definition shapes + {len(nests)} definition nestings + {len(LIST_CASES)} ordered-list cases + {len(roles)} name-role programs: tranp differs on {len(failures)}')
	groups: dict[str, list] = {}
	for f in failures:
		groups.setdefault(f'{f["clause"]}:{f["kinds"]}', []).append(f)
	violations = []
	for key, fs in sorted(groups.items()):
		s = min(fs, key=lambda f: len(f['text']))
		violations.append(Violation(key, s['clause'], f'{s["detail"]} ({len(fs)} cases)', {'text': s['text']}))
	return violations, {'statement_cases': len(stmts), 'definition_cases': len(defcases), 'statement_sample': stmts[len(stmts) // 2]['text']}
