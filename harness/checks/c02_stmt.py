"""Statement-level part of C02 (spec/PyStmt.tla): block nesting / elif-else binding / loops / try, and the
classification of definitions and declarations."""
import ast
from concurrent.futures import ProcessPoolExecutor

from harness import compat  # noqa: F401
from harness.core import Ctx, Machinery, Violation

BATCH = 60


def _check_stmts(args) -> dict:
	cases, first = args
	from harness import srcmodel
	from harness.tranp_env import Env, enter_scratch
	enter_scratch('verif-c02s-')
	failures, machinery = [], []
	program = '\n'.join(c['text'].replace('def f(', f'def f{first + i}(', 1) for i, c in enumerate(cases))
	try:
		env = Env()
		module = env.reload_main(program)
		funcs = srcmodel.function_nodes(module.entrypoint)
	except Exception as e:
		return {'failures': [{'clause': 'accepted', 'detail': f'{type(e).__name__}: {str(e)[:200]}', 'text': cases[0]['text'], 'kinds': 'batch'}], 'machinery': []}
	tree = ast.parse(program)
	for i, (case, fn) in enumerate(zip(cases, funcs)):
		want = srcmodel.canon_model_stmt(case['canon'])
		ref = srcmodel.canon_cpython_stmt(tree.body[i].body[1])
		if want != ref:
			machinery.append(f'spec and CPython disagree on {case["text"]!r}: {want} vs {ref}')
			continue
		try:
			got = srcmodel.canon_tranp_stmt(fn.statements[1])
			nstmts = len(fn.statements)
		except Exception as e:
			got, nstmts = ('error', type(e).__name__, str(e)[:100]), 3
		if got != want or nstmts != 3:
			failures.append({'clause': 'statement-nesting', 'detail': f'tranp {got} vs python {want} (function has {nstmts} statements, python 3)', 'text': case['text'], 'kinds': _kinds(case['canon'])})
	return {'failures': failures, 'machinery': machinery}


def _kinds(c: dict) -> str:
	k = c['k']
	inner = []
	for key in ('body', 'orelse', 'handler'):
		for s in c.get(key, []):
			if s['k'] in ('if', 'while', 'for', 'try'):
				inner.append(_kinds(s))
	return k + (f'[{",".join(sorted(set(inner)))}]' if inner else '')


def _check_defs(cases: list[dict]) -> list[dict]:
	from harness.tranp_env import Env, enter_scratch
	import rogw.tranp.syntax.node.definition as defs
	enter_scratch('verif-c02d-')
	failures = []
	for case in cases:
		try:
			env = Env()
			module = env.reload_main(case['text'])
			entry = module.entrypoint
			found: dict[str, str] = {}
			decls: dict[str, str] = {}
			for node in [entry, *entry.procedural()]:
				if isinstance(node, defs.ClassDef) and not isinstance(node, (defs.AltClass, defs.TemplateClass)):
					found.setdefault(node.symbol.tokens, type(node).__name__)
				if isinstance(node, defs.Declable):
					decls.setdefault(node.tokens.split('.')[-1], type(node).__name__)
			for name, kind in case['expect'].items():
				if found.get(name) != kind:
					failures.append({'clause': 'classification', 'detail': f'{case["id"]}: {name} is classified {found.get(name)}, Python semantics says {kind}', 'text': case['text'], 'kinds': f'{case["id"]}:{name}'})
			for name, kind in case.get('decls', {}).items():
				if decls.get(name) != kind:
					failures.append({'clause': 'classification', 'detail': f'{case["id"]}: declaration {name} is {decls.get(name)}, expected {kind}', 'text': case['text'], 'kinds': f'{case["id"]}:{name}'})
			if case['params']:
				fn = next(n for n in entry.statements if isinstance(n, defs.Function))
				got = [[p.symbol.tokens, p.var_type.tokens, '' if isinstance(p.default_value, defs.Empty) else p.default_value.tokens] for p in fn.parameters]
				if got != [list(p) for p in case['params']]:
					failures.append({'clause': 'parameters', 'detail': f'{case["id"]}: parameters {got} vs {case["params"]}', 'text': case['text'], 'kinds': case['id']})
		except Exception as e:
			failures.append({'clause': 'accepted', 'detail': f'{case["id"]}: {type(e).__name__}: {str(e)[:160]}', 'text': case['text'], 'kinds': case['id']})
	return failures


def _py_kinds(text: str) -> list:
	"""(name, kind) of every definition in document order, by Python's semantics read off CPython's ast"""
	import ast
	out = []

	def walk(body, parent: str) -> None:
		for n in body:
			if isinstance(n, ast.ClassDef):
				out.append((n.name, 'Class'))
				walk(n.body, 'class')
			elif isinstance(n, ast.FunctionDef):
				decos = [d.id for d in n.decorator_list if isinstance(d, ast.Name)]
				if parent == 'module':
					kind = 'Function'
				elif parent == 'class':
					kind = 'ClassMethod' if 'classmethod' in decos else 'Constructor' if n.name == '__init__' else 'Method'
				else:
					kind = 'Closure'
				out.append((n.name, kind))
				walk(n.body, 'def')
	walk(ast.parse(text).body, 'module')
	return out


def _check_nests(cases: list[dict]) -> dict:
	from harness.tranp_env import Env, enter_scratch
	import rogw.tranp.syntax.node.definition as defs
	enter_scratch('verif-c02n-')
	failures, machinery = [], []
	for case in cases:
		want = [(e['name'], e['kind']) for e in case['expect']]
		if _py_kinds(case['text']) != want:
			machinery.append(f'spec and CPython disagree on the definitions of {case["text"]!r}: {want} vs {_py_kinds(case["text"])}')
			continue
		path = ''.join(case['path'])
		try:
			entry = Env().reload_main(case['text']).entrypoint
			got = [(n.symbol.tokens, type(n).__name__) for n in [entry, *entry.procedural()] if isinstance(n, defs.ClassDef) and not isinstance(n, (defs.AltClass, defs.TemplateClass))]
		except Exception as e:
			failures.append({'clause': 'accepted', 'detail': f'nesting {path}: {type(e).__name__}: {str(e)[:160]}', 'text': case['text'], 'kinds': f'nest:{path}'})
			continue
		if sorted(got) != sorted(want):
			bad = sorted(set(got) ^ set(want))
			failures.append({'clause': 'classification', 'detail': f'nesting {path} ({case["text"]!r}): tranp classifies {got}, Python semantics says {want}', 'text': case['text'], 'kinds': f'nest:{"/".join(sorted({k for _, k in bad}))}'})
	return {'failures': failures, 'machinery': machinery}


def load_nests() -> list[dict]:
	import json
	from harness import tlc
	res = tlc.run('PyDefsEmit', 'PyDefs.cfg', workers=1, timeout=600)
	if res.rc != 0 or res.lines('CLOSURE ') != ['TRUE'] or res.lines('CONSTRUCTOR ') != ['TRUE']:
		raise Machinery(f'PyDefs: a model-level fact fails or evaluation error: {res.out[-600:]}')
	return [json.loads(line) for line in res.lines('NEST ')]


def run_statements(ctx: Ctx) -> tuple[list[Violation], dict]:
	from harness import srcmodel
	stmts, defcases = srcmodel.load_stmt_cases()
	batches = [(stmts[i:i + BATCH], i) for i in range(0, len(stmts), BATCH)]
	with ProcessPoolExecutor(max_workers=16) as ex:
		results = list(ex.map(_check_stmts, batches))
	machinery = [m for r in results for m in r['machinery']]
	if machinery:
		raise Machinery(f'{len(machinery)} statement cases where spec and CPython disagree, e.g. {machinery[0]}')
	nests = load_nests()
	with ProcessPoolExecutor(max_workers=16) as ex:
		nres = list(ex.map(_check_nests, [nests[i::16] for i in range(16)]))
	machinery = [m for r in nres for m in r['machinery']]
	if machinery:
		raise Machinery(f'{len(machinery)} definition nestings, e.g. {machinery[0]}')
	failures = [f for r in results for f in r['failures']] + _check_defs(defcases) + [f for r in nres for f in r['failures']]
	ctx.log(f'{len(stmts)} statement skeletons + {len(defcases)} definition shapes + {len(nests)} definition nestings: tranp differs on {len(failures)}')
	groups: dict[str, list] = {}
	for f in failures:
		groups.setdefault(f'{f["clause"]}:{f["kinds"]}', []).append(f)
	violations = []
	for key, fs in sorted(groups.items()):
		s = min(fs, key=lambda f: len(f['text']))
		violations.append(Violation(key, s['clause'], f'{s["detail"]} ({len(fs)} cases)', {'text': s['text']}))
	return violations, {'statement_cases': len(stmts), 'definition_cases': len(defcases), 'statement_sample': stmts[len(stmts) // 2]['text']}
