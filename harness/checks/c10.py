"""C10 — tree addressing is a bijection; node resolution is order-independent (spec/TreePath.tla).

1. TLC builds every ordered entry tree up to the bound by actions and checks Bijection / IdsDocumentOrder /
   RelativesAgree on each; it also explores query histories against every small tree with the resolver cache
   and query memo as state (CacheIsClassify, CacheMonotone).
2. spec -> code: every enumerated tree is built as a real entry tree and pushed through ASTFinder
   (full_pathfy / pluck / exists), EntryCache (ids, group_by) and Nodes (by / parent / children / siblings /
   ancestor) with harness node classes that realise the spec's Classify; every explored query edge is
   replayed on a fresh Nodes with the resolver's instance cache projected after each step.
3. real trees: for the parse trees of real modules the same addressing laws are checked against the spec's
   functions (the tree is handed to TLC as a constant), and node classes are compared across query orders.
"""
import json
import os
import random
import shutil
from concurrent.futures import ProcessPoolExecutor

from harness import compat  # noqa: F401
from harness import tlc
from harness.core import Ctx, Machinery, Violation, finish
from harness.tranp_env import scratch_dir

LEVEL = 'model_checking'


def make_world():
	"""Harness node classes realising TreePath.tla's Classify and a DI wiring like the repository's own test."""
	import lark
	from rogw.tranp.implements.syntax.lark.entry import EntryOfLark
	from rogw.tranp.lang.di import DI
	from rogw.tranp.lang.locator import Invoker, Locator
	from rogw.tranp.module.types import ModulePath
	from rogw.tranp.providers.module import module_path_dummy
	from rogw.tranp.syntax.ast.entry import Entry
	from rogw.tranp.syntax.ast.query import Query
	from rogw.tranp.syntax.ast.resolver import SymbolMapping
	from rogw.tranp.syntax.node.node import Node
	from rogw.tranp.syntax.node.query import Nodes
	from rogw.tranp.syntax.node.resolver import NodeResolver

	class Root(Node):
		pass

	class A1(Node):
		@classmethod
		def match_feature(cls, via: Node) -> bool:
			return via._full_path.shift(-1).last_tag == 'r'

	class A2(Node):
		pass

	class B1(Node):
		@classmethod
		def match_feature(cls, via: Node) -> bool:
			return len(via._children()) > 0  # looks down through the node API: instantiates the children

	class B2(Node):
		pass

	class Empty(Node):
		pass

	class Terminal(Node):
		pass

	def settings() -> SymbolMapping:
		return SymbolMapping(symbols={Root: ['r'], A1: ['a'], A2: ['a'], B1: ['ab'], B2: ['ab'], Empty: ['__empty__']}, fallback=Terminal)

	def to_lark(case: dict, n: int):
		t = case['tag'][n - 1]
		if t == '__empty__':
			return None
		if t == 'tra':
			return lark.Token('tra', f'v{n}')
		return lark.Tree(t, [to_lark(case, k) for k in case['kids'][n - 1]])

	def build(case: dict):
		root = EntryOfLark(to_lark(case, 1))
		di = DI()
		di.bind(Locator, lambda: di)
		di.bind(Invoker, lambda: di.invoke)
		di.bind(Query[Node], Nodes)
		di.bind(NodeResolver, NodeResolver)
		di.bind(ModulePath, module_path_dummy)
		di.bind(SymbolMapping, settings)
		di.bind(Entry, lambda: root)
		return root, di

	return build


def _check_trees(cases: list[dict]) -> list[dict]:
	from rogw.tranp.errors import Errors
	from rogw.tranp.syntax.ast.cache import EntryCache
	from rogw.tranp.syntax.ast.finder import ASTFinder
	from rogw.tranp.syntax.ast.query import Query
	from rogw.tranp.syntax.node.node import Node
	build = make_world()
	failures = []

	def same(e1, e2) -> bool:
		# Entry objects are wrappers created on access: identity is that of the wrapped parse-tree object
		return e1.source is e2.source and e1.name == e2.name

	def fail(case, clause, detail):
		failures.append({'clause': clause, 'detail': detail, 'tree': {'tag': case['tag'], 'kids': case['kids']}})

	def check_one(case) -> None:
		root, di = build(case)
		finder = ASTFinder()
		n = len(case['tag'])
		entry_of = {1: root}  # entries of the real tree in the spec's numbering

		def walk(i, entry):
			children = entry.children if entry.has_child else []
			if len(children) != len(case['kids'][i - 1]):
				raise Machinery(f'tree construction: entry {i} has {len(children)} children, spec {len(case["kids"][i - 1])}')
			for k, child in zip(case['kids'][i - 1], children):
				entry_of[k] = child
				walk(k, child)

		walk(1, root)
		pathfy = finder.full_pathfy(root)
		# Bijection
		if len(pathfy) != n:
			return fail(case, 'Bijection', f'full_pathfy yields {len(pathfy)} paths for {n} entries: {list(pathfy)}')
		if sorted(pathfy) != sorted(case['paths']):
			return fail(case, 'Bijection', f'paths {sorted(pathfy)} vs spec {sorted(case["paths"])}')
		for i in range(1, n + 1):
			p = case['paths'][i - 1]
			if not same(pathfy[p], entry_of[i]):
				return fail(case, 'Bijection', f'path {p} maps to another entry than the spec\'s entry {i}')
			try:
				plucked = finder.pluck(root, p)
			except Errors.NodeNotFound:
				plucked = None
			if plucked is None or not same(plucked, entry_of[i]):
				return fail(case, 'Bijection', f'pluck({p}) does not return the entry full_pathfy recorded for it')
			if not finder.exists(root, p):
				return fail(case, 'Bijection', f'exists({p}) is False')
		# IdsDocumentOrder
		cache = EntryCache()
		for p, e in pathfy.items():
			cache.add(p, e)
		ids = [cache.index_of(case['paths'][i - 1]) for i in range(1, n + 1)]
		if ids != case['ids']:
			return fail(case, 'IdsDocumentOrder', f'ids {ids} vs spec {case["ids"]} for paths {case["paths"]}')
		# RelativesAgree + classes, through Nodes
		nodes = di.resolve(Query[Node])
		for i in range(1, n + 1):
			p = case['paths'][i - 1]
			node = nodes.by(p)
			if type(node).__name__ != case['classes'][i - 1]:
				fail(case, 'CacheIsClassify', f'{p}: class {type(node).__name__} vs spec {case["classes"][i - 1]}')
			if node.id != case['ids'][i - 1]:
				fail(case, 'IdsDocumentOrder', f'{p}: node.id {node.id} vs spec {case["ids"][i - 1]}')
			kids = [c.full_path for c in nodes.children(p)]
			expect_kids = [case['paths'][k - 1] for k in case['kids'][i - 1]]
			if kids != expect_kids:
				fail(case, 'RelativesAgree', f'children({p}) = {kids} vs spec {expect_kids}')
			try:
				parent = nodes.parent(p).full_path
			except Errors.NodeNotFound:
				parent = ''
			if parent != case['parent'][i - 1]:
				fail(case, 'RelativesAgree', f'parent({p}) = {parent!r} vs spec {case["parent"][i - 1]!r}')
			if i != 1:
				sibs = [s.full_path for s in nodes.siblings(p)]
				expect_sibs = [case['paths'][k - 1] for k in case['kids'][case['par'][i - 1] - 1]]
				if sibs != expect_sibs:
					fail(case, 'RelativesAgree', f'siblings({p}) = {sibs} vs spec {expect_sibs}')

	for case in cases:
		try:
			check_one(case)
		except Machinery:
			raise
		except Exception as e:  # anything the code under test throws at us here is a finding, not a harness failure
			fail(case, f'crash:{type(e).__name__}', f'{type(e).__name__}: {str(e)[:200]}')
	return failures


def _replay_queries(paths: list[list]) -> list[dict]:
	"""Replay query histories; each path = (tree case, [(op, to insts)])"""
	from rogw.tranp.errors import Errors
	from rogw.tranp.syntax.ast.query import Query
	from rogw.tranp.syntax.node.node import Node
	from rogw.tranp.syntax.node.resolver import NodeResolver
	build = make_world()
	failures = []

	def run_query(nodes, op):
		try:
			if op['name'] == 'by':
				return [nodes.by(op['path'])], 'ok'
			if op['name'] == 'parent':
				return [nodes.parent(op['path'])], 'ok'
			if op['name'] == 'children':
				return nodes.children(op['path']), 'ok'
			if op['name'] == 'siblings':
				return nodes.siblings(op['path']), 'ok'
			return [nodes.ancestor(op['path'], op['t'])], 'ok'
		except Errors.NodeNotFound:
			return [], 'NodeNotFound'
		except ValueError:
			# Nodes.ancestor for a tag that is not on the chain: list.index raises ValueError (that is C07's business)
			if op['name'] == 'ancestor':
				return [], 'NodeNotFound'
			raise

	for case, steps in paths:
		history = []
		try:
			_, di = build(case)
			nodes = di.resolve(Query[Node])
			resolver = di.resolve(NodeResolver)
			for op, expect_insts in steps:
				history.append({k: op[k] for k in ('name', 'path', 't')})
				got, res = run_query(nodes, op)
				problem = None
				if res != op['res']:
					problem = ('result', f'{op["name"]}({op["path"]},{op["t"]}) -> {res}, spec {op["res"]}')
				elif [g.full_path for g in got] != list(op['paths']):
					problem = ('RelativesAgree', f'{op["name"]}({op["path"]},{op["t"]}) -> {[g.full_path for g in got]}, spec {list(op["paths"])}')
				elif [type(g).__name__ for g in got] != list(op['classes']):
					problem = ('CacheIsClassify', f'{op["name"]}({op["path"]}) classes {[type(g).__name__ for g in got]}, spec {list(op["classes"])}')
				else:
					insts = getattr(resolver, '_NodeResolver__insts', None)
					if insts is None:
						raise Machinery('projection: NodeResolver.__insts missing')
					real = {p: type(nd).__name__ for p, nd in insts.items()}
					if real != dict(expect_insts):
						problem = ('instance-cache', f'after {op["name"]}({op["path"]}): cache {real} vs spec {dict(expect_insts)}')
				if problem:
					failures.append({'clause': problem[0], 'detail': problem[1], 'history': list(history), 'tree': {'tag': case['tag'], 'kids': case['kids']}})
					break
		except Machinery:
			raise
		except Exception as e:
			failures.append({'clause': f'crash:{type(e).__name__}', 'detail': f'{type(e).__name__}: {str(e)[:200]}', 'history': list(history) or [{'name': 'build', 'path': '', 't': ''}], 'tree': {'tag': case['tag'], 'kids': case['kids']}})
	return failures


def _real_module_case(args) -> dict:
	try:
		return _real_module_case_impl(args)
	except Machinery:
		raise
	except Exception as e:
		return {'module': args[0], 'crash': f'{type(e).__name__}: {str(e)[:300]}'}


def _real_module_case_impl(args) -> dict:
	"""Entry tree of a real module in TreePath.tla's vocabulary + what the code computes for it."""
	module_path, seed = args
	from harness.tranp_env import Env, enter_scratch
	from rogw.tranp.syntax.ast.finder import ASTFinder
	from rogw.tranp.syntax.ast.entry import Entry
	from rogw.tranp.syntax.ast.query import Query
	from rogw.tranp.syntax.node.node import Node
	from rogw.tranp.syntax.ast.parser import SyntaxParser
	enter_scratch('verif-c10-')
	env = Env()
	parser = env.get(SyntaxParser)
	root = parser(module_path)
	finder = ASTFinder()
	pathfy = finder.full_pathfy(root)
	paths = list(pathfy)
	# structure by walking the Entry API (independent of full_pathfy)
	tags, kids, par = [], [], []

	def walk(entry: Entry, parent: int) -> int:
		tags.append(entry.name)
		kids.append([])
		par.append(parent)
		me = len(tags)
		if entry.has_child:
			for child in entry.children:
				kids[me - 1].append(walk(child, me))
		return me

	walk(root, 0)
	# order independence on the real tree: classes by document order vs by shuffled mixed queries
	from rogw.tranp.errors import Errors
	rnd = random.Random(seed)
	mismatches = []

	def classes_in_order(order_paths, mix: bool):
		env_i = Env()
		entry = env_i.load(module_path).entrypoint
		nodes = entry._Node__nodes if hasattr(entry, '_Node__nodes') else None
		if nodes is None:
			raise Machinery('projection: Node.__nodes missing')
		result = {}
		for p in order_paths:
			try:
				if mix:
					r = rnd.random()
					if r < 0.2:
						nodes.children(p)
					elif r < 0.35 and '.' in p:
						nodes.siblings(p)
					elif r < 0.5 and '.' in p:
						try:
							nodes.parent(p)
						except Errors.NodeNotFound:
							pass
					elif r < 0.6:
						nodes.expand(p)
				result[p] = type(nodes.by(p)).__name__
			except Errors.Error as e:
				result[p] = f'!{type(e).__name__}'
		# whatever was asked before (expand, siblings, parent, ...): children(p) are the entries directly below p in the tree
		for p in inner_sample:
			try:
				got_children = [n.full_path for n in nodes.children(p)]
			except Errors.Error as e:
				got_children = [f'!{type(e).__name__}']
			if got_children != direct[p]:
				children_bad.append({'path': p, 'children': got_children[:6], 'tree': direct[p][:6], 'history': 'mixed queries' if mix else 'document order'})
		return result

	sample = paths if len(paths) <= 1500 else [paths[i] for i in sorted(rnd.sample(range(len(paths)), 1500))]
	direct: dict[str, list[str]] = {}
	for q in paths:
		if '.' in q:
			direct.setdefault(q.rsplit('.', 1)[0], []).append(q)
	inner_sample = [q for q in sample if q in direct][:400]
	children_bad: list[dict] = []
	base = classes_in_order(sample, False)
	for variant in range(2):
		shuffled = list(sample)
		rnd.shuffle(shuffled)
		if variant == 1:
			shuffled = list(reversed(sample))
		got = classes_in_order(shuffled, True)
		for p in sample:
			if got[p] != base[p]:
				mismatches.append({'path': p, 'document_order': base[p], 'other_order': got[p], 'variant': variant})
	# pluck returns the very entry full_pathfy recorded (entries are wrappers: compare the wrapped parse-tree object)
	pluck_bad = []
	for p in paths:
		try:
			plucked = finder.pluck(root, p)
			same = plucked.source is pathfy[p].source and plucked.name == pathfy[p].name
		except Errors.Error as e:
			same = False
		if not same:
			pluck_bad.append(p)
	return {'module': module_path, 'tag': tags, 'kids': kids, 'par': par, 'code_paths': paths,
		'entry_order': list(range(1, len(tags) + 1)), 'mismatches': mismatches[:20], 'n_paths_compared': len(sample), 'pluck_bad': pluck_bad[:5], 'children_bad': children_bad[:5]}


def run(ctx: Ctx) -> int:
	quick = ctx.quick
	violations: list[Violation] = []
	res_static = tlc.run('TreePath', 'TreePath_static5.cfg' if quick else 'TreePath_static.cfg', workers=16, timeout=1500)
	res_query = tlc.run('TreePath', 'TreePath_query.cfg', workers=16, timeout=1500)
	for r in (res_static, res_query):
		if not r.ok:
			raise Machinery(f'TLC reports an error on TreePath.tla: {r.out[-1500:]}')
	ctx.log(f'TLC: static {res_static.distinct} states, query {res_query.distinct} states')

	# spec -> code: all trees
	emit = tlc.run('TreePath', 'TreePath_emit5.cfg' if quick else 'TreePath_emit.cfg', workers=1, timeout=1500)
	seen = {}
	for line in emit.lines('TREE '):
		seen.setdefault(line, None)
	cases = [json.loads(line) for line in seen]
	if not cases:
		raise Machinery('no trees emitted')
	nproc = 16
	with ProcessPoolExecutor(max_workers=nproc) as ex:
		chunks = [cases[i::nproc] for i in range(nproc)]
		tree_failures = [f for chunk in ex.map(_check_trees, chunks) for f in chunk]
	ctx.log(f'{len(cases)} enumerated trees pushed through ASTFinder / EntryCache / Nodes: {len(tree_failures)} failures')
	by_clause: dict[str, list] = {}
	for f in tree_failures:
		by_clause.setdefault(f['clause'], []).append(f)
	for clause, fs in by_clause.items():
		smallest = min(fs, key=lambda f: len(f['tree']['tag']))
		violations.append(Violation(f'tree:{clause}', clause, f'{smallest["detail"]} ({len(fs)} trees)', {'tree': smallest['tree']}))

	# spec -> code: query edges
	edges_res = tlc.run('TreePath', 'TreePath_qedges3.cfg' if quick else 'TreePath_qedges.cfg', workers=1, timeout=2400, heap='8g')
	edges = [json.loads(line) for line in edges_res.lines('EDGE ')]
	key = lambda v: json.dumps(v, sort_keys=True)
	parent: dict[str, tuple | None] = {}
	paths = []
	for e in edges:
		kf, kt = key(e['from']), key(e['to'])
		frm = e['from']
		if e['op']['name'] == 'start':
			parent[kt] = None
			continue
		if kf not in parent:
			raise Machinery('query edge stream: source state never reached')
		if kt not in parent:
			parent[kt] = (kf, e['op'], e['to'][4])
		prefix = []
		k = kf
		while parent[k] is not None:
			pk, pop, pinsts = parent[k]
			prefix.append((pop, pinsts))
			k = pk
		prefix.reverse()
		case = {'tag': frm[0], 'kids': frm[1], 'par': frm[2]}
		paths.append((case, prefix + [(e['op'], e['to'][4])]))
	with ProcessPoolExecutor(max_workers=nproc) as ex:
		chunks = [paths[i::nproc] for i in range(nproc)]
		q_failures = [f for chunk in ex.map(_replay_queries, chunks) for f in chunk]
	ctx.log(f'{len(paths)} query edges replayed on real Nodes: {len(q_failures)} failures')
	by_clause = {}
	for f in q_failures:
		by_clause.setdefault(f'{f["history"][-1]["name"]}:{f["clause"]}', []).append(f)
	for k, fs in by_clause.items():
		smallest = min(fs, key=lambda f: (len(f['tree']['tag']), len(f['history'])))
		violations.append(Violation(f'query:{k}', smallest['clause'], f'{smallest["detail"]} ({len(fs)} edges)', {'tree': smallest['tree'], 'history': smallest['history']}))

	# real trees
	from harness import real_modules
	modules = real_modules.QUICK if quick else real_modules.LOAD_OK
	with ProcessPoolExecutor(max_workers=min(nproc, len(modules))) as ex:
		real = list(ex.map(_real_module_case, [(m, ctx.seed + i) for i, m in enumerate(modules)]))
	real_entries = 0
	outdir = scratch_dir('verif-c10-real-')
	for rc in list(real):
		if 'crash' in rc:
			violations.append(Violation(f'real-tree:crash:{rc["module"]}', 'crash', f'{rc["module"]}: {rc["crash"]}'))
			real.remove(rc)
			continue
		real_entries += len(rc['tag'])
		for p in rc['pluck_bad'][:1]:
			violations.append(Violation(f'real-tree:pluck:{rc["module"]}', 'Bijection', f'{rc["module"]}: pluck({p}) is not the entry full_pathfy recorded'))
		for cb in rc.get('children_bad', [])[:1]:
			violations.append(Violation(f'real-tree:RelativesAgree:{cb["history"].replace(" ", "-")}', 'RelativesAgree', f'{rc["module"]}: children({cb["path"]}) = {cb["children"]} after {cb["history"]}, the tree has {cb["tree"]}', cb))
		for mm in rc['mismatches'][:3]:
			violations.append(Violation(f'order:{rc["module"]}:{mm["document_order"]}->{mm["other_order"]}', 'order-independence', f'{rc["module"]} {mm["path"]}: class {mm["document_order"]} in document order, {mm["other_order"]} after other queries', mm))
	# the spec's addressing functions evaluated by TLC on the real trees, compared with what the code produced
	real_json = os.path.join(outdir, 'real.json')
	with open(real_json, 'w') as f:
		json.dump([{'tag': rc['tag'], 'kids': rc['kids'], 'par': rc['par'], 'paths': rc['code_paths'], 'order': rc['entry_order']} for rc in real], f)
	res_real = tlc.run('TreePathReal', 'TreePathReal.cfg', workers=1, timeout=2400, env={'TRACE_FILE': real_json}, heap='8g')
	bad_real = res_real.lines('REAL-MISMATCH ')
	if res_real.rc != 0 or not res_real.lines('REAL-OK'):
		detail = '; '.join(bad_real[:3]) or res_real.out[-600:].replace('\n', ' / ')
		violations.append(Violation('real-tree:addressing', 'Bijection/IdsDocumentOrder', f'paths/ids the code computes for a real parse tree differ from the spec: {detail}'))
	shutil.rmtree(outdir, ignore_errors=True)
	ctx.log(f'real trees: {len(real)} modules, {real_entries} entries validated by TLC against the spec')

	coverage = {
		'states': res_static.distinct + res_query.distinct,
		'transitions': res_static.generated + res_query.generated,
		'traces_validated_against_impl': len(real),
		'trees_replayed_on_impl': len(cases),
		'query_edges_replayed_on_impl': len(paths),
		'real_modules': modules,
		'real_entries_validated': real_entries,
		'real_paths_order_compared': sum(rc['n_paths_compared'] for rc in real),
		'exhaustive': True,
		'bounds': {'tree_entries_static': 5 if quick else 6, 'tree_entries_query': 3 if quick else 4, 'queries': 3},
		'samples': [cases[len(cases) // 2], {'query_history': [op for op, _ in paths[len(paths) // 2][1]]}],
	}
	assumptions = [
		'harness node classes (A1/A2/B1/B2) realise the spec\'s Classify through match_feature; real classes are covered by the order-independence comparison on real modules',
		'NodeResolver.__insts is read for the cache projection',
	]
	return finish(ctx, LEVEL, coverage, violations, assumptions)
