"""C07 — failures are always reported as tranp errors (spec/ErrFlow.tla).

1. TLC explores ErrFlow.tla with the wrapper table AS CODED (design-level counterexample: the stages that
   let foreign exceptions through) and with all stages wrapped (the clauses hold).
2. inputs: TLC-enumerated mutation descriptors (program x operator x position) applied to the tokens of valid
   programs, seeded token soups over the grammar alphabet, and well-formed but ill-typed programs; every input
   is run through the real pipeline both as an in-memory module and as an on-disk module, under an alarm.
3. code -> spec: one record per run (storage mode, stage of the root-cause exception, raised class, escaped
   class, error rendering) is validated by TraceErrFlow.tla against the as-coded wrapper table - a foreign
   exception leaving a stage the spec believes wrapped rejects the trace. Foreign exceptions that escape at
   unwrapped stages are the property's violations; each (stage, class, raising function) is one finding.
"""
import io
import json
import os
import random
import shutil
import signal
import tokenize
import traceback
from concurrent.futures import ProcessPoolExecutor

from harness import compat  # noqa: F401
from harness import tlc
from harness.core import Ctx, Machinery, Violation, finish
from harness.tranp_env import scratch_dir

LEVEL = 'model_checking'

PROGRAMS = [
	'''class Base:
	n: int
	def __init__(self, n: int) -> None:
		self.n = n

	def inc(self, d: int = 1) -> int:
		return self.n + d

class Sub(Base):
	tags: list[str]
	def __init__(self, n: int) -> None:
		super().__init__(n)
		self.tags = []

	@property
	def size(self) -> int:
		return len(self.tags)
''',
	'''def total(values: list[int], limit: int) -> int:
	acc = 0
	for i, v in enumerate(values):
		if v > limit:
			continue
		elif v == 0:
			break
		else:
			acc += v * i
	while acc > 100:
		acc -= 7
	return acc
''',
	'''def table(d: dict[str, int]) -> list[str]:
	keys = [k for k, v in d.items() if v > 0]
	try:
		if len(keys) == 0:
			raise RuntimeError('empty')
	except RuntimeError as e:
		return []
	return keys
''',
	'''def pick(a: int, b: int) -> int:
	return a + b if a < b else a & b | 1

def join(xs: list[str], sep: str = ',') -> str:
	out = ''
	for x in xs:
		out = out + x + sep
	return out
''',
	'''from enum import Enum

class Color(Enum):
	Red = 1
	Green = 2

def name_of(c: Color) -> str:
	if c == Color.Red:
		return 'red'
	return 'other'

pairs: dict[str, int] = {'a': 1, 'b': 2}
first = pairs['a']
''',
	'''def area(w: float, h: float) -> float:
	return w * h / 2.0

def clamp(x: int, lo: int, hi: int) -> int:
	if x < lo:
		return lo
	if x > hi:
		return hi
	return x

t = (1, 'a')
n, s = t
''',
]

ILL_TYPED = [
	# names whose type is derived from themselves: the lazy resolution recurses until the interpreter's limit
	'a = a\n',
	'a = b\nb = a\n',
	'for i in i:\n\tpass\n',
	'def f() -> None:\n\ta = a + 1\n',
	'x = [x for x in x]\n',
	'class A(A):\n\tpass\n\na = A().x\n',
	'def f(n: int) -> int:\n\treturn g(n)\n\ndef g(n: int) -> int:\n\treturn f(n)\n\nv = f(1)\nw = v.q\n',
	'x = undefined_name\n',
	'def f(a: int) -> int:\n\treturn a\n\ny = f(1, 2)\n',
	'def f(a: int) -> int:\n\treturn a\n\ny = f()\n',
	'a: int = 1\nb = a.nothing\n',
	'a: int = 1\nb = a()\n',
	'a: int = 1\nb = a[0]\n',
	"x = 1 + 'a'\n",
	"x: int = 'a'\n",
	'from nowhere import thing\n',
	'from typing import NothingLikeThis\n',
	'import os\n',
	'class A(Unknown):\n\tpass\n',
	'class A:\n\tdef m(self) -> int:\n\t\treturn self.missing\n',
	'def f() -> None:\n\tg = lambda x: x\n',
	'def f(self) -> int:\n\treturn self.n\n',
	'def f():\n\treturn 1\n',
	'def f(a, b):\n\treturn a + b\n',
	'x = [1, "a"]\ny = x[0]\n',
	'x = {}\n',
	'x = []\n',
	'for i in 5:\n\tpass\n',
	'x = None\ny = x.z\n',
	'def f(a: int) -> str:\n\treturn a\n',
	'class A:\n\tpass\n\na = A(1, 2, 3)\nb = a.q\n',
	'x: list[int] = [1]\ny = x.nothing()\n',
	'x: dict[str, int] = {}\nfor a, b, c in x.items():\n\tpass\n',
	'def f(xs: list[int]) -> int:\n\treturn xs.pop().nothing\n',
	'return 1\n',
	'break\n',
	'x = yield 1\n',
	'def f() -> int:\n\tx: Unknown = 1\n\treturn x\n',
	'class A:\n\tn: int\n\na = A()\na.n.m = 1\n',
	'lambda: x\n',
	'x = (1, 2)\na, b, c = x\n',
	'with open("f") as f:\n\tpass\n',
	'@unknown_decorator\ndef f() -> None:\n\tpass\n',
	'x = 1 if else 2\n',
	'def f(a: int = "s", *args: int, **kw: str) -> None:\n\tpass\nf(1, 2, k="v")\n',
	'x = not\n',
	'class A:\n\tdef __init__(self) -> None:\n\t\tself.x = 1\n',
	'x: int = 1\nx: str = "a"\n',
	'def f() -> int:\n\tpass\n\nclass f:\n\tpass\n',
]

ALPHABET = ['a', 'b', 'self', 'x1', '1', '2.5', "'s'", '"t"', '(', ')', '[', ']', '{', '}', ',', ':', '.', '=', '==', '+', '-', '*', '/', '%', '<', '>', '->', '+=', '&', '|', '^', '~', '@',
	'def', 'class', 'return', 'if', 'elif', 'else', 'for', 'in', 'while', 'not', 'and', 'or', 'is', 'lambda', 'import', 'from', 'pass', 'break', 'continue', 'raise', 'try', 'except', 'as', 'None', 'True', 'int', 'str', 'list',
	'\n', '\n\t', '\n\t\t', '\n']


def mutate(source: str, op: str, pos: int) -> str:
	toks = [t for t in tokenize.generate_tokens(io.StringIO(source).readline) if t.type not in (tokenize.ENDMARKER, tokenize.NEWLINE, tokenize.NL, tokenize.INDENT, tokenize.DEDENT) and t.string]
	lines = source.splitlines(keepends=True)
	offs = [0]
	for ln in lines:
		offs.append(offs[-1] + len(ln))
	t = toks[pos % len(toks)]
	begin = offs[t.start[0] - 1] + t.start[1]
	end = offs[t.end[0] - 1] + t.end[1]
	line_begin = offs[t.start[0] - 1]
	if op == 'delete':
		return source[:begin] + source[end:]
	if op == 'duplicate':
		return source[:end] + ' ' + t.string + source[end:]
	if op == 'swap':
		nxt = toks[(pos + 1) % len(toks)]
		nb = offs[nxt.start[0] - 1] + nxt.start[1]
		ne = offs[nxt.end[0] - 1] + nxt.end[1]
		if nb < end:
			return source
		return source[:begin] + nxt.string + source[end:nb] + t.string + source[ne:]
	if op == 'indent':
		return source[:line_begin] + '\t' + source[line_begin:]
	if op == 'dedent':
		return source[:line_begin] + source[line_begin:].lstrip('\t') if source[line_begin] == '\t' else source[:line_begin] + ' ' + source[line_begin:]
	if op == 'unbalance':
		return source[:begin] + ('(' if pos % 2 else ']') + source[begin:]
	if op == 'keyword':
		return source[:begin] + ('class' if pos % 2 else 'return') + source[end:]
	if op == 'truncate':
		return source[:begin]
	if op == 'stray':
		return source[:begin] + ('$' if pos % 3 == 0 else '?' if pos % 3 == 1 else '`') + source[begin:]
	if op == 'retype':
		if t.type == tokenize.NAME:
			return source[:begin] + 'zz_undefined' + source[end:]
		if t.type == tokenize.NUMBER:
			return source[:begin] + "'s'" + source[end:]
		return source[:begin] + '0' + source[end:]
	raise ValueError(op)


def token_soup(rnd: random.Random) -> str:
	return ' '.join(rnd.choice(ALPHABET) for _ in range(rnd.randrange(3, 28))) + '\n'


class Alarm(Exception):
	pass


def _on_alarm(signum, frame):
	raise Alarm()


STAGE_MARKERS = [
	('procedure.py', '__emit', 'handler'),
	('procedure.py', '__exec_impl', 'nodeapi'),
	('procedure.py', '__make_event', 'nodeapi'),
	('procedure.py', 'exec', 'nodeapi'),
	('lark/parser.py', '__load_entry', 'parse'),
	('providers/module.py', 'preprocess', 'preprocess'),
	('modules.py', '__load_dependencies', 'deps'),
	('modules.py', 'load', 'deps'),
	('py2cpp.py', 'transpile', 'nodeapi'),
]


def classify(e: BaseException, input_mode: str) -> dict:
	from rogw.tranp.errors import Errors
	chain = [e]
	while chain[-1].__cause__ is not None or (chain[-1].__context__ is not None and not chain[-1].__suppress_context__):
		nxt = chain[-1].__cause__ or chain[-1].__context__
		if nxt in chain:
			break
		chain.append(nxt)
	root = chain[-1]
	frames = []
	for ex in chain:  # outermost exception first; its traceback is the outer part of the call path
		frames.extend(traceback.extract_tb(ex.__traceback__))
	stage, mode = 'preprocess', input_mode
	for fr in reversed(frames):
		fn = fr.filename.replace(os.sep, '/')
		hit = next((st for f, name, st in STAGE_MARKERS if fn.endswith(f) and fr.name == name), None)
		if hit:
			stage = hit
			break
	if stage == 'parse':
		# the module being parsed may be an imported file even when the input itself is in memory
		mode = 'disk' if any(fr.name == 'instantiate' and fr.filename.replace(os.sep, '/').endswith('lark/parser.py') for fr in frames) else 'memory'
	tranp_frame = lambda tb: next((f'{fr.filename.replace(os.sep, "/").split("/rogw/tranp/")[1]}:{fr.name}' for fr in reversed(traceback.extract_tb(tb)) if '/rogw/tranp/' in fr.filename.replace(os.sep, '/')), None)
	where = tranp_frame(root.__traceback__) or tranp_frame(e.__traceback__) or '?'
	if stage == 'parse' and where.split(':')[0].endswith('loader.py'):
		# the file could not be READ (bytes that are no text): that is the loading of the module, not a verdict of the parser on a text
		stage, mode = 'deps', input_mode
	is_app = lambda x: isinstance(x, Errors.Error)
	reported = 'Foreign' if not is_app(e) else ('Syntax' if isinstance(e, Errors.Syntax) else 'Fatal' if stage == 'parse' else 'App')
	return {'mode': mode, 'stage': stage, 'raised': 'App' if is_app(root) else 'Foreign', 'escaped': 'App' if is_app(e) else 'Foreign', 'reported': reported,
		'root_class': f'{type(root).__module__}.{type(root).__qualname__}', 'escaped_class': f'{type(e).__module__}.{type(e).__qualname__}', 'where': where}


def _run_inputs(args) -> list[dict]:
	inputs, = args
	from harness.tranp_env import Env, enter_scratch
	from rogw.tranp.view.error_render import ErrorRender
	root = enter_scratch('verif-c07-')
	os.makedirs(os.path.join(root, 'vm'), exist_ok=True)
	signal.signal(signal.SIGALRM, _on_alarm)
	records = []
	env = None
	since_reset: list = []
	for index, (label, source) in enumerate(inputs):
		for mode in ('memory', 'disk'):
			if isinstance(source, bytes) and mode == 'memory':
				continue  # an in-memory source is text by construction
			if env is None or (index % 40 == 0 and mode == 'memory'):
				env = Env(cache_dir=os.path.join(root, 'cache'), cache_enabled=False)
				since_reset = []
			rec = {'label': label, 'input_mode': mode, 'source': source if isinstance(source, str) else repr(source), 'session': [x for x in since_reset[-6:]]}
			since_reset.append((label, mode))
			# a process memoises mtime / hash / parse result per file: every on-disk input gets its own file
			module_path = '__main__' if mode == 'memory' else f'vm.x{index}'
			if mode == 'memory':
				env.sources['__main__'] = source
			else:
				with open(os.path.join(root, 'vm', f'x{index}.py'), 'wb' if isinstance(source, bytes) else 'w') as f:
					f.write(source)
			signal.alarm(10)
			try:
				try:
					env.modules.unload(module_path)
					module = env.modules.load(module_path)
					env.transpiler.transpile(module.entrypoint)
					rec.update({'mode': mode, 'stage': 'done', 'raised': 'none', 'escaped': 'none', 'render': 'none'})
				except Alarm:
					rec.update({'mode': mode, 'stage': 'timeout', 'raised': 'none', 'escaped': 'none', 'render': 'none'})
					env = None
				except RecursionError as e:
					rec.update(classify(e, mode))
					env = None
				except Exception as e:
					rec.update(classify(e, mode))
					try:
						text = str(ErrorRender(e))
						rec['render'] = 'text' if isinstance(text, str) and len(text) > 0 else 'fail'
					except Alarm:
						raise
					except Exception as e2:
						rec['render'] = 'fail'
						rec['render_error'] = f'{type(e2).__name__}: {str(e2)[:120]}'
					# a failed load leaves a half-registered module behind; a fresh application keeps inputs independent
					if rec['escaped'] == 'Foreign' or rec['stage'] in ('preprocess', 'deps'):
						env = None
			except Alarm:
				rec.update({'mode': mode, 'stage': 'timeout', 'raised': 'none', 'escaped': 'none', 'render': 'none'})
				env = None
			finally:
				signal.alarm(0)
			rec.setdefault('render', 'none')
			records.append(rec)
	return records


SENTINEL = 'sentinel_ok = 12345'


def _interactive_session(args) -> dict:
	"""The real interactive loop (bin/transpile.py Interactive.run, tty replaced) fed with the inputs, a valid text after
	each: whatever an input does, the loop prints a result or an error and keeps running"""
	inputs, = args
	import contextlib
	import io
	from harness.tranp_env import enter_scratch, transpiler_definitions
	root = enter_scratch('verif-c07-it-')
	import rogw.tranp.bin.transpile as cli
	from rogw.tranp.app.app import App
	from rogw.tranp.lang.locator import Invoker
	from rogw.tranp.lang.module import to_fullyname
	failures = []
	alive = 0
	for label, source in inputs:
		# the keyboard: the text line by line as typed (an empty line ends a submission, as in the real loop), then a valid
		# text, then `exit`
		typed = source.split('\n')
		if any(ln == 'exit' for ln in typed):
			continue
		keys = iter(typed + ([''] if typed[-1] != '' else []) + [SENTINEL, '', 'exit'])
		import rogw.tranp.bin.io as cli_io
		org_readline = cli_io.readline
		cli_io.readline = lambda *a, **k: next(keys)
		org_tty = cli.tty
		defs = transpiler_definitions(os.path.join(root, 'cache-it'))
		defs.pop(to_fullyname(cli.SourceProvider), None)
		defs.pop(to_fullyname(cli.ModuleMetaFactory), None)
		out = io.StringIO()
		crashed = None
		try:
			with contextlib.redirect_stdout(out):
				App(defs).resolve(Invoker)(cli.Interactive).run()
		except BaseException as e:
			crashed = f'{type(e).__name__}: {str(e)[:120]}'
		finally:
			cli.tty = org_tty
			cli_io.readline = org_readline
		text = out.getvalue()
		if crashed is not None:
			failures.append({'label': label, 'source': source, 'detail': f'the interactive loop ended with {crashed}', 'kind': crashed.split(":")[0]})
		elif 'sentinel_ok = 12345' not in text.split('Python code here')[-2 if text.count('Python code here') >= 2 else -1] and 'int sentinel_ok = 12345;' not in text:
			failures.append({'label': label, 'source': source, 'detail': f'the valid text typed after the input was not transpiled: ...{text[-200:]!r}', 'kind': 'loop-dead'})
		else:
			alive += 1
	return {'failures': failures, 'alive': alive}


def run(ctx: Ctx) -> int:
	quick = ctx.quick
	coded = tlc.run('MCErrFlow', 'ErrFlow_coded.cfg', workers=4, timeout=300)
	pinned = tlc.run('MCErrFlow', 'ErrFlow_pinned.cfg', workers=4, timeout=300)
	sound = tlc.run('MCErrFlow', 'ErrFlow_sound.cfg', workers=4, timeout=300)
	if not sound.ok:
		raise Machinery(f'ErrFlow with all stages wrapped violates a clause: {sound.out[-800:]}')
	ctx.log(f'TLC: all-wrapped {sound.distinct} states OK; as coded {coded.distinct} states, violated: {coded.invariant_violated + coded.action_property_violated or "nothing"}; wrapper table of the pinned commit: {pinned.invariant_violated + pinned.action_property_violated}')
	mres = tlc.run('ErrFlowMut', 'ErrFlowMut.cfg', workers=1, timeout=300)
	descs = [json.loads(line) for line in mres.lines('MUT ')]
	rnd = random.Random(ctx.seed)
	if quick:
		descs = rnd.sample(descs, 1200)
	inputs = []
	for d in descs:
		try:
			inputs.append((f'mut:{d["program"]}:{d["op"]}:{d["pos"]}', mutate(PROGRAMS[d['program'] - 1], d['op'], d['pos'])))
		except (tokenize.TokenError, IndentationError):
			continue
	anns = [json.loads(line) for line in mres.lines('ANN ')]
	if len(anns) < 100:
		raise Machinery(f'ErrFlowMut emitted {len(anns)} annotation faults only')
	for i, d in enumerate(anns if not quick else anns[::2]):
		inputs.append((f'ann:{d["place"]}:{d["ctor"]}:{d["n"]}:{i}', d['text']))
	for i, src in enumerate(ILL_TYPED):
		inputs.append((f'ill:{i}', src))
	# resource faults of ErrFlowMut: nesting deeper than a recursive reader holds; bytes that are no text (disk only)
	deep = {'paren': lambda d: 'x = ' + '(' * d + '1' + ')' * d + '\n', 'minus': lambda d: 'x = ' + '-' * d + '1\n', 'attr': lambda d: 'x = a' + '.b' * d + '\n',
		'list': lambda d: 'x = ' + '[' * d + ']' * d + '\n', 'call': lambda d: 'x = ' + 'f(' * d + '1' + ')' * d + '\n'}
	deeps = [json.loads(line) for line in mres.lines('DEEP ')]
	bads = [json.loads(line) for line in mres.lines('BYTES ')]
	if len(deeps) < 10 or len(bads) < 10:
		raise Machinery('ErrFlowMut emitted no resource faults')
	for d in deeps:
		inputs.append((f'deep:{d["shape"]}:{d["depth"]}', deep[d['shape']](d['depth'])))
	place = {'string': lambda b: b"s = 'a" + b + b"'\n", 'comment': lambda b: b'x = 1  # ' + b + b'\n', 'name': lambda b: b'v' + b + b' = 1\n', 'start': lambda b: b + b'x = 1\n'}
	for i, d in enumerate(bads):
		inputs.append((f'bytes:{d["place"]}:{i}', place[d['place']](bytes(d['bytes']))))
	for i in range(400 if quick else 4000):
		inputs.append((f'soup:{i}', token_soup(rnd)))
	for i, src in enumerate(PROGRAMS):
		inputs.append((f'valid:{i}', src))
	# texts without a statement: nothing at all, line breaks, blanks, a comment - an empty module is a valid module
	for i, src in enumerate(['', '\n', '\n\n', '   ', '\t\n', '# nothing\n', '\n# nothing\n\n']):
		inputs.append((f'blank:{i}', src))
	nproc = 16
	with ProcessPoolExecutor(max_workers=nproc) as ex:
		records = [r for chunk in ex.map(_run_inputs, [(inputs[i::nproc],) for i in range(nproc)]) for r in chunk]
	ctx.log(f'{len(inputs)} inputs x 2 storage modes run through the pipeline')

	# the interactive loop: every kind of input, a valid text after each
	it_inputs = [x for x in inputs if isinstance(x[1], str)]  # what is typed is text
	with ProcessPoolExecutor(max_workers=nproc) as ex:
		sessions = list(ex.map(_interactive_session, [(it_inputs[i::nproc],) for i in range(nproc)]))
	it_fail = [f for r in sessions for f in r['failures']]
	ctx.log(f'interactive loop: {len(it_inputs)} inputs, each followed by a valid text: the loop survived {sum(r["alive"] for r in sessions)}, {len(it_fail)} failures')
	violations: list[Violation] = []
	for r in records:
		if r['label'].startswith('valid:') and r['stage'] != 'done':
			raise Machinery(f'a base program does not transpile on this tree: {r["label"]} {r["input_mode"]} {r.get("escaped_class")} at {r.get("where")} after {r.get("session")}')
	it_groups: dict[str, list] = {}
	for f in it_fail:
		it_groups.setdefault(f'InteractiveKeepsRunning:{f["kind"]}', []).append(f)
	for key, fs in sorted(it_groups.items()):
		sm = min(fs, key=lambda f: len(f['source']))
		violations.append(Violation(key, 'InteractiveKeepsRunning', f'{sm["detail"]} on {sm["source"][:80]!r} ({len(fs)} inputs)', {'source': sm['source'], 'label': sm['label']}))
	timeouts = [r for r in records if r['stage'] == 'timeout']
	for r in timeouts[:3]:
		violations.append(Violation(f'timeout:{r["label"].split(":")[0]}', 'Terminates', f'processing did not finish within 10 s: {r["label"]} ({r["input_mode"]})', {'source': r['source']}))
	render_fail = [r for r in records if r['render'] == 'fail']
	for r in render_fail[:3]:
		violations.append(Violation(f'render:{r.get("escaped_class")}', 'RenderTotal', f'ErrorRender failed on {r.get("escaped_class")}: {r.get("render_error")}', {'source': r['source'], 'mode': r['input_mode']}))

	# code -> spec
	trace = [{'mode': r['mode'], 'stage': r['stage'], 'raised': r['raised'], 'escaped': r['escaped'], 'render': r['render'], 'reported': r.get('reported', 'none')} for r in records if r['stage'] != 'timeout']
	outdir = scratch_dir('verif-c07-trace-')
	path = os.path.join(outdir, 'records.json')
	with open(path, 'w') as f:
		json.dump(trace, f)
	tres = tlc.run('TraceErrFlow', 'TraceErrFlow.cfg', workers=1, timeout=900, env={'TRACE_FILE': path})
	if tres.rc != 0 or not tres.lines('TRACES-ACCEPTED'):
		rej = tres.lines('TRACES-REJECTED ')
		ids = [int(x) for x in rej[0].strip('{} ').replace(' ', '').split(',') if x] if rej else []
		kept = [r for r in records if r['stage'] != 'timeout']
		seen = set()
		for t in ids:
			r = kept[t - 1]
			key = f'wrapper:{r["stage"]}:{r["mode"]}:{r["root_class"]}'
			if key in seen:
				continue
			seen.add(key)
			violations.append(Violation(key, 'TraceErrFlow', f'{r["root_class"]} raised at {r["where"]} (stage {r["stage"]}, {r["mode"]}) escaped as {r["escaped_class"]}: the spec\'s wrapper table says {"wrapped" if r["escaped"] == "Foreign" else "not wrapped"} there', {'source': r['source'], 'label': r['label']}))
		if not ids:
			raise Machinery(f'TraceErrFlow failed: {tres.out[-800:]}')
	shutil.rmtree(outdir, ignore_errors=True)

	# the property itself on the real observations: every escaped foreign exception is a finding, keyed by where it comes from
	leaks: dict[str, list] = {}
	for r in records:
		if r['escaped'] == 'Foreign':
			leaks.setdefault(f'leak:{r["stage"]}:{r["escaped_class"]}@{r["where"]}', []).append(r)
	for key, rs in sorted(leaks.items()):
		smallest = min(rs, key=lambda r: len(r['source']))
		violations.append(Violation(key, 'EscapesAreApp', f'{smallest["escaped_class"]} escapes the pipeline ({len(rs)} inputs), e.g. {smallest["source"][:80]!r}', {'source': smallest['source'], 'mode': smallest['input_mode'], 'label': smallest['label']}))

	# unparsable text is reported as Errors.Syntax, on disk and in memory
	unparsed: dict[str, list] = {}
	for r in records:
		if r['stage'] == 'parse' and r['escaped'] == 'App' and r.get('reported') != 'Syntax':
			unparsed.setdefault(f'UnparsableIsSyntax:{r["mode"]}:{r["root_class"]}', []).append(r)
	for key, rs in sorted(unparsed.items()):
		smallest = min(rs, key=lambda r: len(r['source']))
		violations.append(Violation(key, 'UnparsableIsSyntax', f'a failure of the parser ({smallest["root_class"]}) is reported as {smallest["escaped_class"]} instead of Errors.Syntax ({len(rs)} inputs), e.g. {smallest["source"][:80]!r}', {'source': smallest['source'], 'mode': smallest['input_mode'], 'label': smallest['label']}))

	# which (stage, raised) pairs the recorded executions witness: the wrapper table of the spec is exercised only there
	witnessed: dict[str, int] = {}
	for r in records:
		if r['stage'] not in ('done', 'timeout'):
			k = f'{r["stage"]}:{r["raised"]}'
			witnessed[k] = witnessed.get(k, 0) + 1
	missing = [k for k in ('parse:Foreign', 'preprocess:Foreign', 'preprocess:App', 'handler:Foreign', 'handler:App') if k not in witnessed]
	if missing:
		raise Machinery(f'no recorded execution raises at {missing}: the wrapper table is not exercised there (witnessed: {witnessed})')
	ctx.log(f'witnessed (stage:raised): {dict(sorted(witnessed.items()))}')
	outcomes: dict[str, int] = {}
	for r in records:
		k = 'ok' if r['stage'] == 'done' else (r.get('escaped_class') or r['stage'])
		outcomes[k] = outcomes.get(k, 0) + 1
	coverage = {
		'states': coded.distinct + sound.distinct + tres.distinct,
		'transitions': coded.generated + sound.generated + tres.generated,
		'traces_validated_against_impl': len(trace),
		'inputs': len(inputs),
		'runs': len(records),
		'mutation_descriptors_from_tlc': len(descs),
		'outcomes': dict(sorted(outcomes.items(), key=lambda kv: -kv[1])),
		'foreign_leak_sites': sorted(leaks),
		'interactive_inputs': len(it_inputs),
		'stage_raised_witnessed': dict(sorted(witnessed.items())),
		'timeouts': len(timeouts),
		'error_render_failures': len(render_fail),
		'exhaustive': False,
		'samples': [{'label': inputs[3][0], 'source': inputs[3][1]}, {'record': trace[5]}],
	}
	assumptions = [
		'the stage of a failure is read off the traceback of the root-cause exception (innermost marker frame)',
		'every input runs as in-memory __main__ and as on-disk vm/x.py; a fresh application after every failed load',
	]
	return finish(ctx, LEVEL, coverage, violations, assumptions)
