"""C11 — the self-hosted parser builds the trees CPython builds (spec/OwnGram.tla, spec/PyStmt.tla).

TLC enumerates every expression with exactly N constructs of py_gram's sub-language (boolean / comparison
chains, arithmetic, unary minus, ternary, walrus, lambda, attribute / call / index chains with keyword and packed
arguments, list / tuple / dict literals) rendered with the parentheses py_gram's own ladder requires, with the
structure CPython's ast assigns (Canon); statement skeletons come from PyStmt.tla (those inside py_gram).
For each sentence: canon(model) = canon(ast.parse) (else machinery error) must equal canon(own parser tree), and
the parser must consume every token. Mutated sentences (TLC-enumerated descriptors) must be accepted with the
tree CPython builds or rejected with Errors.Syntax whose summary names a token of the input and an existing line.
"""
import ast
import json
import re
import signal
from concurrent.futures import ProcessPoolExecutor

from harness import compat  # noqa: F401
from harness import tlc
from harness.core import Ctx, Machinery, Violation, finish

LEVEL = 'model_checking'


def tup(x):
	if isinstance(x, (list, tuple)):
		return tuple(tup(y) for y in x)
	return x


SOURCE = ['']  # the text being parsed (float literals are compared by spelling)
_CMP = {ast.Eq: '==', ast.NotEq: '!=', ast.Lt: '<', ast.Gt: '>', ast.LtE: '<=', ast.GtE: '>=', ast.In: 'in', ast.NotIn: 'not in', ast.Is: 'is', ast.IsNot: 'is not'}
_BIN = {ast.Add: '+', ast.Sub: '-', ast.Mult: '*', ast.Div: '/', ast.Mod: '%'}


def canon_py(n: ast.AST):
	if isinstance(n, ast.Name):
		return ('var', n.id)
	if isinstance(n, ast.Constant):
		if isinstance(n.value, bool) or n.value is None or n.value is Ellipsis:
			return ('const', str(n.value))
		if isinstance(n.value, int):
			return ('int', n.value)
		if isinstance(n.value, float):
			return ('float', ast.get_source_segment(SOURCE[0], n) or repr(n.value))
		return ('str', n.value)
	if isinstance(n, ast.BoolOp):
		op = 'and' if isinstance(n.op, ast.And) else 'or'
		res = canon_py(n.values[0])
		for v in n.values[1:]:
			res = ('bool', op, res, canon_py(v))
		return res
	if isinstance(n, ast.UnaryOp):
		if isinstance(n.op, ast.Not):
			return ('not', canon_py(n.operand))
		return ('un', {ast.USub: '-', ast.UAdd: '+', ast.Invert: '~'}[type(n.op)], canon_py(n.operand))
	if isinstance(n, ast.Compare):
		if len(n.ops) == 1:
			return ('cmp', _CMP[type(n.ops[0])], canon_py(n.left), canon_py(n.comparators[0]))
		return ('chain', tuple(_CMP[type(o)] for o in n.ops), tuple(canon_py(x) for x in [n.left, *n.comparators]))
	if isinstance(n, ast.BinOp):
		if type(n.op) not in _BIN:
			return ('py:BinOp', type(n.op).__name__, canon_py(n.left), canon_py(n.right))
		return ('bin', _BIN[type(n.op)], canon_py(n.left), canon_py(n.right))
	if isinstance(n, ast.IfExp):
		return ('tern', canon_py(n.test), canon_py(n.body), canon_py(n.orelse))
	if isinstance(n, ast.Attribute):
		return ('attr', canon_py(n.value), n.attr)
	if isinstance(n, ast.Call):
		args = []
		for a in n.args:
			args.append(('star', canon_py(a.value)) if isinstance(a, ast.Starred) else ('pos', canon_py(a)))
		for k in n.keywords:
			args.append(('kw', k.arg, canon_py(k.value)) if k.arg else ('dstar', canon_py(k.value)))
		return ('call', canon_py(n.func), tuple(args))
	if isinstance(n, ast.Subscript):
		s = n.slice
		if isinstance(s, ast.Slice):
			return ('index', canon_py(n.value), ('slice', tuple(canon_py(x) if x else None for x in (s.lower, s.upper, s.step))))
		return ('index', canon_py(n.value), canon_py(s))
	if isinstance(n, ast.List):
		return ('list', tuple(canon_py(x) for x in n.elts))
	if isinstance(n, ast.Tuple):
		return ('tuple', tuple(canon_py(x) for x in n.elts))
	if isinstance(n, ast.Dict):
		return ('dict', tuple((canon_py(k), canon_py(v)) for k, v in zip(n.keys, n.values)))
	if isinstance(n, ast.Lambda):
		return ('lambda', tuple(a.arg for a in n.args.args), canon_py(n.body))
	if isinstance(n, ast.NamedExpr):
		return ('walrus', n.target.id, canon_py(n.value))
	if isinstance(n, ast.Starred):
		return ('py:Starred', canon_py(n.value))
	# constructs outside py_gram: a canonical form of their own, so that a tree the own parser builds can never equal it
	return ('py:' + type(n).__name__, tuple(canon_py(c) if isinstance(c, ast.expr) else type(c).__name__ for c in ast.iter_child_nodes(n)))


def canon_py_stmt(n: ast.stmt):
	if isinstance(n, ast.Expr):
		return ('expr', canon_py(n.value))
	if isinstance(n, ast.Assign):
		if len(n.targets) != 1:
			return ('py:MultiAssign', len(n.targets))
		return ('assign', canon_py(n.targets[0]), canon_py(n.value))
	if isinstance(n, ast.Return):
		return ('return', canon_py(n.value) if n.value else None)
	if isinstance(n, ast.Raise):
		return ('raise', canon_py(n.exc) if n.exc else None, 'from' if n.cause else None)
	if isinstance(n, ast.Break):
		return ('break',)
	if isinstance(n, ast.Continue):
		return ('continue',)
	if isinstance(n, ast.If):
		return ('if', canon_py(n.test), tuple(canon_py_stmt(s) for s in n.body), tuple(canon_py_stmt(s) for s in n.orelse))
	if isinstance(n, ast.While):
		return ('while', canon_py(n.test), tuple(canon_py_stmt(s) for s in n.body), 'else' if n.orelse else None)
	if isinstance(n, ast.For):
		target = (n.target.id,) if isinstance(n.target, ast.Name) else tuple(e.id if isinstance(e, ast.Name) else 'py:' + type(e).__name__ for e in n.target.elts) if isinstance(n.target, ast.Tuple) else ('py:' + type(n.target).__name__,)
		return ('for', target, canon_py(n.iter), tuple(canon_py_stmt(s) for s in n.body), 'else' if n.orelse else None)
	if isinstance(n, ast.FunctionDef):
		a = n.args
		if a.vararg or a.kwarg or a.kwonlyargs or a.posonlyargs or n.decorator_list:
			return ('py:FunctionDef', ast.dump(a)[:200])
		defaults = [None] * (len(a.args) - len(a.defaults)) + list(a.defaults)
		params = tuple((p.arg, ast.unparse(p.annotation) if p.annotation else None, canon_py(d) if d else None) for p, d in zip(a.args, defaults))
		return ('def', n.name, params, ast.unparse(n.returns) if n.returns else None, tuple(canon_py_stmt(s) for s in n.body))
	if isinstance(n, ast.AugAssign):
		return ('py:AugAssign', type(n.op).__name__, canon_py(n.target), canon_py(n.value))
	if isinstance(n, ast.Pass):
		return ('py:Pass',)
	return ('py:' + type(n).__name__, ast.dump(n)[:200])


def fold(kind, elems, opname):
	res = elems[0]
	for i in range(1, len(elems), 2):
		res = (kind, opname(elems[i]), res, elems[i + 1])
	return res


def canon_own(t):
	tag, body = t
	if tag == 'var':
		return ('var', body[0][1])
	if tag == 'name':
		return ('var', body)
	if tag == 'digit':
		return ('int', int(body)) if body.isdigit() else ('digit?', body)
	if tag == 'decimal':
		return ('float', body)
	if tag == 'string':
		return ('str', ast.literal_eval(body))
	if tag in ('boolean', 'none'):
		return ('const', body)
	if tag in ('comp_or', 'comp_and'):
		return fold('bool', [canon_own(e) if i % 2 == 0 else e for i, e in enumerate(body)], lambda o: o[1])
	if tag == 'comp_not':
		return ('not', canon_own(body[1]))
	if tag == 'comp':
		ops = [' '.join(x[1] for x in e[1]) for e in body[1::2]]
		operands = [canon_own(e) for e in body[0::2]]
		if len(ops) == 1:
			return ('cmp', ops[0], operands[0], operands[1])
		return ('chain', tuple(ops), tuple(operands))
	if tag in ('calc_sum', 'calc_mul'):
		return fold('bin', [canon_own(e) if i % 2 == 0 else e for i, e in enumerate(body)], lambda o: o[1])
	if tag == 'unary':
		return ('un', '-', canon_own(body[1]))
	if tag == 'ternary':
		return ('tern', canon_own(body[1]), canon_own(body[0]), canon_own(body[2]))
	if tag == 'expr_move':
		return ('walrus', canon_own(body[0])[1], canon_own(body[1]))
	if tag == 'lambda':
		return ('lambda', tuple(e[1] for e in body[:-1] if e[0] == 'name'), canon_own(body[-1]))
	if tag == 'relay':
		return ('attr', canon_own(body[0]), body[1][1])
	if tag == 'invoke':
		args, rest = [], body[1:]
		i = 0
		while i < len(rest):
			e = rest[i]
			if e[0] == '__empty__':
				i += 1
			elif e[0] == 'name' and i + 1 < len(rest):
				args.append(('kw', e[1], canon_own(rest[i + 1])))
				i += 2
			elif e[0] == 'packing':
				args.append(('star' if e[1] == '*' else 'dstar', canon_own(rest[i + 1])))
				i += 2
			else:
				args.append(('pos', canon_own(e)))
				i += 1
		return ('call', canon_own(body[0]), tuple(args))
	if tag == 'indexer':
		parts = [canon_own(e) for e in body[1:]]
		return ('index', canon_own(body[0]), parts[0]) if len(parts) == 1 else ('index', canon_own(body[0]), ('slice', tuple(parts + [None] * (3 - len(parts)))))
	if tag == 'list':
		return ('list', tuple(canon_own(e) for e in body if e[0] != '__empty__'))
	if tag == 'tuple':
		return ('tuple', tuple(canon_own(e) for e in body))
	if tag == 'dict':
		return ('dict', tuple((canon_own(kv[1][0]), canon_own(kv[1][1])) for kv in body if kv[0] == 'key_value'))
	return ('other', tag)


def canon_own_stmt(t):
	tag, body = t
	blk = lambda b: tuple(canon_own_stmt(s) for s in b[1])
	if tag == 'move':
		# move_target is unwrapped into the statement: [name, value] | [primary, name, value] (attribute) | [primary, key, value] (subscript)
		if len(body) == 2:
			return ('assign', canon_own(body[0]), canon_own(body[1]))
		if len(body) == 3 and body[1][0] == 'name':
			return ('assign', ('attr', canon_own(body[0]), body[1][1]), canon_own(body[2]))
		if len(body) == 3:
			return ('assign', ('index', canon_own(body[0]), canon_own(body[1])), canon_own(body[2]))
		return ('assign', ('other', 'move', len(body)))
	if tag == 'return':
		return ('return', None if body[0][0] == '__empty__' else canon_own(body[0]))
	if tag == 'raise':
		return ('raise', canon_own(body[0]), None)
	if tag == 'break':
		return ('break',)
	if tag == 'continue':
		return ('continue',)
	if tag == 'pass':
		return ('expr', ('const', 'Ellipsis'))
	if tag == 'if':
		then = body[0][1]
		orelse: tuple = ()
		rest = body[1:]
		tail = [e for e in rest if e[0] == 'else']
		if tail:
			orelse = blk(tail[0][1][0])
		for e in reversed([e for e in rest if e[0] == 'elif']):
			orelse = (('if', canon_own(e[1][0]), blk(e[1][1]), orelse),)
		return ('if', canon_own(then[0]), blk(then[1]), orelse)
	if tag == 'while':
		return ('while', canon_own(body[0]), blk(body[1]), None)
	if tag == 'for':
		names = tuple(e[1] for e in body[:-2])
		return ('for', names, canon_own(body[-2]), blk(body[-1]), None)
	if tag == 'function':
		name = body[0][1]
		params = []
		rest = body[1:]
		block = rest[-1]
		ret = rest[-2]
		for p in rest[:-2]:
			if p[0] == 'params':
				for q in p[1]:
					items = q[1]
					default = None if items[2][0] == '__empty__' else canon_own(items[2])
					params.append((items[0][1], _type_text(items[1]), default))
		return ('def', name, tuple(params), None if ret[0] == '__empty__' else _type_text(ret), blk(block))
	return ('expr', canon_own(t))


def _type_text(t) -> str:
	tag, body = t
	if tag == 'type_var':
		return body[0][1]
	if tag == 'type_none':
		return 'None'
	if tag == 'name':
		return body
	return str(t)


class _Timeout(Exception):
	pass


def _alarm(signum, frame):
	raise _Timeout()


def _parse_all(args) -> dict:
	cases, kind, *rest = args
	limit = rest[0] if rest else 5
	compat.patch_rules()
	import sys
	if compat.REPO not in sys.path:
		sys.path.insert(0, compat.REPO)
	from data.syntax.py_rules import py_rules
	from rogw.tranp.errors import Errors
	from rogw.tranp.implements.syntax.tranp.syntax import SyntaxParser
	from rogw.tranp.implements.syntax.tranp.tokenizer import Tokenizer
	rules = py_rules()
	parser = SyntaxParser(rules, Tokenizer())
	signal.signal(signal.SIGALRM, _alarm)
	import warnings
	warnings.simplefilter('ignore', SyntaxWarning)
	failures, machinery, slow = [], [], []
	accepted = rejected = 0
	for case in cases:
		text = case['text']
		source = text if text.endswith('\n') else text + '\n'
		ref = None
		try:
			tree = ast.parse(source)
			SOURCE[0] = source
			ref = tuple(canon_py_stmt(s) for s in tree.body)
		except (SyntaxError, ValueError, RecursionError):
			ref = None
		if kind != 'mutant':
			want = (('expr', tup(case['canon'])),) if kind == 'expr' else case['want']
			if ref != want:
				machinery.append(f'spec and CPython disagree on {text!r}: {want} vs {ref}')
				continue
		signal.alarm(limit)
		try:
			got_tree = parser.parse(source, 'entry').simplify()
			got = tuple(canon_own_stmt(s) for s in got_tree[1])
			outcome = 'accept'
		except _Timeout:
			outcome, got = 'timeout', None
		except Errors.Syntax as e:
			outcome, got = 'syntax', str(e)
		except Exception as e:
			outcome, got = 'crash', f'{type(e).__name__}: {str(e)[:100]}'
		finally:
			signal.alarm(0)
		if outcome == 'timeout' and limit < 100:
			slow.append(case)  # decided later, alone and with a long limit: slowness under load is not a verdict
			continue
		if outcome in ('timeout', 'crash'):
			failures.append({'clause': 'Terminates' if outcome == 'timeout' else 'RejectsWithSyntaxError', 'detail': f'{text!r}: {got or f"no answer within {limit} s"}', 'text': text, 'kind': f'{kind}:{case.get("top", "")}'})
			continue
		if kind != 'mutant':
			if outcome == 'syntax':
				failures.append({'clause': 'AcceptsGrammarSentence', 'detail': f'{text!r} is derivable from py_gram but rejected: {got[:120]}', 'text': text, 'kind': f'{kind}:{case.get("top", "")}'})
			elif got != ref:
				failures.append({'clause': 'TreeEqualsCPython', 'detail': f'{text!r}: own parser {got} vs CPython {ref}', 'text': text, 'kind': f'{kind}:{case.get("top", "")}'})
			else:
				accepted += 1
			continue
		# mutated text: accept with CPython's tree, or Errors.Syntax naming a token of the input and an existing line
		if outcome == 'accept':
			accepted += 1
			if ref is None:
				pass  # py_gram is more permissive than Python here (e.g. any expression left of :=); not a tree mismatch
			elif got != ref:
				failures.append({'clause': 'TreeEqualsCPython', 'detail': f'mutated {text!r}: own parser {got} vs CPython {ref}', 'text': text, 'kind': 'mutant'})
		else:
			rejected += 1
			m = re.search(r"token: (.*)$", got, re.M)
			try:
				named = ast.literal_eval(m.group(1)) if m else None
			except Exception:
				named = None
			ml = re.search(r'^\((\d+)\) >>> (.*)$', got, re.M)
			src_lines = source.split('\n')
			token_strings = {t.string for t in parser.tokenizer.parse(source)}
			if named is None or (named not in source and named not in token_strings):
				failures.append({'clause': 'SummaryNamesToken', 'detail': f'{text!r}: summary {got[:100]!r} does not name a token of the input', 'text': text, 'kind': 'mutant'})
			elif not ml:
				failures.append({'clause': 'SummaryNamesLine', 'detail': f'{text!r}: summary {got[:100]!r} quotes no line', 'text': text, 'kind': 'mutant'})
			elif not (1 <= int(ml.group(1)) <= len(src_lines)):
				at_end = named == '\n' and source.strip() == ''
				failures.append({'clause': 'SummaryNamesLine', 'detail': f'{text!r}: summary points at line {ml.group(1)} of {len(src_lines)}', 'text': text, 'kind': 'empty-input-reports-line-0' if at_end else 'mutant'})
			elif src_lines[int(ml.group(1)) - 1] != ml.group(2):
				failures.append({'clause': 'SummaryNamesLine', 'detail': f'{text!r}: line {ml.group(1)} is quoted as {ml.group(2)!r}', 'text': text, 'kind': 'mutant'})
			else:
				# the verdict on a text is a function of the text: a parser that has parsed nothing before says the same
				try:
					SyntaxParser(rules, Tokenizer()).parse(source, 'entry')
					fresh = 'accept'
				except Errors.Syntax as e:
					fresh = str(e)
				except Exception as e:
					fresh = f'{type(e).__name__}'
				if fresh != got:
					failures.append({'clause': 'VerdictIsFunctionOfText', 'detail': f'{text!r}: a parser with history reports {got[:60]!r}, a new parser {fresh[:60]!r}', 'text': text, 'kind': 'mutant'})
	return {'failures': failures, 'machinery': machinery, 'accepted': accepted, 'rejected': rejected, 'slow': [(c, kind) for c in slow]}


def run(ctx: Ctx) -> int:
	from harness import srcmodel
	from harness.checks.c07 import mutate
	quick = ctx.quick
	# the engine conformance (TLC on GramEngine.tla, single-threaded) runs beside the sentence sweep
	from concurrent.futures import ThreadPoolExecutor
	from harness import engine_binding
	side = ThreadPoolExecutor(max_workers=1)
	engine_job = side.submit(engine_binding.run, ['GramEngine_1', 'GramEngine_2'] if quick else ['GramEngine_1', 'GramEngine_2', 'GramEngine_3'])
	cases = []
	assign_cases = []
	for n in ([1, 2] if quick else [1, 2, 3]):
		res = tlc.run('OwnGramEmit', f'OwnGram_{n}.cfg', workers=1, timeout=2400)
		if res.rc != 0:
			raise Machinery(f'OwnGram: evaluation error: {res.out[-600:]}')
		cases += [json.loads(line) for line in res.lines('CASE ')]
		assign_cases += [{'text': c['text'], 'want': (tup(c['canon']),), 'top': c['top']} for c in map(json.loads, res.lines('ASSIGN '))]
	stmts, _ = srcmodel.load_stmt_cases()
	stmt_cases = []
	outside = []  # Python that py_gram does not derive: to be rejected (an accepted one cannot have CPython's tree)
	for c in stmts:
		text = c['text'].replace('xs: list[int]', 'xs: list')
		if '+=' in text or 'try:' in text:
			outside.append({'text': text})  # augmented assignment and try are not part of py_gram
			continue
		tree = ast.parse(text)
		stmt_cases.append({'text': text, 'want': tuple(canon_py_stmt(s) for s in tree.body), 'top': c['canon']['k'], 'model': c['canon']})
	if quick:
		stmt_cases = stmt_cases[::2]
	# the same skeletons behind a simple first line and indented by four blanks / by one blank instead of a tab: the block
	# structure does not depend on the unit of indentation, nor on where the first line break stands (TokLayout's law)
	first = ast.parse('q0 = 1\n').body[0]
	layout_cases = []
	for k, c in enumerate(stmt_cases):
		if '\t' not in c['text'] or k % (8 if quick else 2):
			continue
		unit = '    ' if k % 3 else ' '
		layout_cases.append({'text': 'q0 = 1\n' + c['text'].replace('\t', unit), 'want': (canon_py_stmt(first),) + tuple(c['want']), 'top': 'layout:' + c['top']})
	plain_stmt_cases = list(stmt_cases)  # the texts mutants are made from
	stmt_cases += layout_cases
	stmt_cases += assign_cases
	for nops in (1, 2):
		exprs, _ = srcmodel.load_cases(nops)
		outside += [{'text': f'x = {c["text"]}'} for c in exprs if any(op in c['text'] for op in ('|', '&', '^', '<<', '>>', '~', '+ +', '- -'))]
	outside += [{'text': t} for t in ('a **= 2', 'a //= b', 'x = a ** b', 'x = a // b', 'x = 0x1F', 'x = 1e3', 'x = 1_000', 'x = 007', "x = r'a'", "x = f'{a}'", "x = b'a'", 'x = a if b else c if d else e', 'x = y = 1', 'x = 1,', 'x: int = 1', 'del x', 'assert a', 'import a', 'x = [i for i in a]', 'x = a[1:]', 'x = a @ b', 'x = not not a', 'global x', 'x = *a, b', 'x = {1, 2}', 'x = {a: 1}', 'x = a.1', 'x = 1.', 'x = .5', 'while a: break', 'if a: x = 1')]
	if quick:
		outside = outside[::4]
	mres = tlc.run('ErrFlowMut', 'ErrFlowMut.cfg', workers=1, timeout=300)
	descs = [json.loads(line) for line in mres.lines('MUT ')]
	import random
	rnd = random.Random(ctx.seed)
	base_texts = [c['text'] for c in cases[::37]][:40] + [c['text'] for c in plain_stmt_cases[::25]][:20]
	mutants = []
	for d in rnd.sample(descs, 600 if quick else 2400):
		src = base_texts[(d['program'] * 7 + d['pos']) % len(base_texts)]
		try:
			mutants.append({'text': mutate(src if src.endswith('\n') else src + '\n', d['op'], d['pos'])})
		except Exception:
			continue
	mutants += outside
	ctx.log(f'TLC enumerated {len(cases)} expressions; {len(stmt_cases)} statement skeletons inside py_gram; {len(mutants)} mutated or out-of-grammar sentences ({len(outside)} valid Python outside py_gram)')
	nproc = 16
	jobs = [(cases[i::nproc], 'expr') for i in range(nproc)] + [(stmt_cases[i::nproc], 'stmt') for i in range(nproc)] + [(mutants[i::nproc], 'mutant') for i in range(nproc)]
	with ProcessPoolExecutor(max_workers=nproc) as ex:
		results = list(ex.map(_parse_all, jobs))
	slow = [x for r in results for x in r['slow']]
	if slow:
		ctx.log(f'{len(slow)} sentences gave no answer within 5 s under load; deciding them one per process with a 300 s limit')
		with ProcessPoolExecutor(max_workers=4) as ex:
			results += list(ex.map(_parse_all, [([c], kind, 300) for c, kind in slow]))
	machinery = [m for r in results for m in r['machinery']]
	if machinery:
		raise Machinery(f'{len(machinery)} sentences where spec and CPython disagree, e.g. {machinery[0]}')
	failures = [f for r in results for f in r['failures']]
	ctx.log(f'own parser: {sum(r["accepted"] for r in results)} accepted with CPython\'s tree, {sum(r["rejected"] for r in results)} mutants rejected with a proper summary; {len(failures)} discrepancies')
	groups: dict[str, list] = {}
	for f in failures:
		groups.setdefault(f'{f["clause"]}:{f["kind"]}', []).append(f)
	violations = []
	# the engine itself against its specification (spec/GramEngine.tla) on generated grammars x sentences
	efailures, estats = engine_job.result()
	# the same engine model on the shipped py_rules() and real token lists
	import random as _random
	rnd2 = _random.Random(ctx.seed)
	short = lambda t: len(t.split()) <= 14 and len(t) <= 60
	n1 = [c['text'] + '\n' for c in cases if c.get('off') == 0][:(120 if quick else 400)]
	pick = [c['text'] + '\n' for c in rnd2.sample(cases, 60 if quick else 1500)] + [c['text'] for c in stmt_cases if short(c['text'])][:(12 if quick else 80)] + [m['text'] for m in mutants if short(m['text'])][:(25 if quick else 300)]
	from harness.tranp_env import scratch_dir
	pfail, pstats = engine_binding.run_py_gram([t if t.endswith('\n') else t + '\n' for t in n1 + pick], scratch_dir('verif-c11e-'))
	efailures += pfail
	estats.update(pstats)
	ctx.log(f'engine on py_gram: GramEnginePy.tla evaluated on the shipped rule set ({pstats["py_gram_rules"]} rules) and {pstats["py_gram_sentences"]} real token lists: {pstats["py_gram_accepted"]} accepted / {pstats["py_gram_rejected"]} rejected by the real engine, {len(pfail)} differ from the specification')
	ctx.log(f'engine: {estats["pairs"]} (grammar, sentence) pairs of {estats["grammars"]} generated grammars: verdict and tree equal those of GramEngine.tla; {estats["spin_confirmed"]}/{estats["spin_pairs_sampled"]} predicted non-returns confirmed; {len(efailures)} discrepancies')
	egroups: dict[str, list] = {}
	for f in efailures:
		egroups.setdefault(f'{f["clause"]}:{f["kind"]}', []).append(f)
	for key, fs in sorted(egroups.items()):
		s = min(fs, key=lambda f: len(f['detail']))
		violations.append(Violation(key, s['clause'], f'{s["detail"]} ({len(fs)} pairs)', {'src': s['src'], 'all': sorted({f['src'] for f in fs})[:40]}))
	for key, fs in sorted(groups.items()):
		s = min(fs, key=lambda f: len(f['text']))
		violations.append(Violation(key, s['clause'], f'{s["detail"]} ({len(fs)} sentences)', {'text': s['text'], 'all': sorted({f['text'] for f in fs})[:40]}))
	coverage = {
		'states': len(cases) + len(stmt_cases),
		'transitions': len(cases) + len(stmt_cases) + len(mutants),
		'traces_validated_against_impl': len(cases) + len(stmt_cases) + len(mutants),
		'expression_sentences': len(cases),
		'statement_sentences': len(stmt_cases),
		'mutated_sentences': len(mutants),
		'slow_sentences_decided_alone': len(slow),
		'engine_conformance': estats,
		'exhaustive': True,
		'samples': [cases[len(cases) // 2]['text'], stmt_cases[5]['text'], mutants[3]['text']],
	}
	assumptions = ['the harness installs a Python 3.12 shim for the two 3.13-isms of the engine (property.__name__)', 'sentences are rendered with the parentheses py_gram\'s own ladder requires']
	return finish(ctx, LEVEL, coverage, violations, assumptions)
