"""C17 — folding constant expressions gives the value Python gives (spec/ConstFold.tla).

TLC enumerates every constant expression of depth <= 1 (2) over the literal pool (decimal / hexadecimal ints,
dyadic floats, strings), unary + - ~, the ten arithmetic / bitwise operators and the scalar casts, with the
value Python's semantics assigns (Int / dyadic Flt / Str), "err" where Python itself raises, and drops cases
outside the exactly representable subset. Each expression becomes an enum member value; LiteralEvaluator.exec
on that node must return the same value and type or refuse with an application error. The spec's value is
cross-checked with CPython's eval (disagreement = machinery error).
"""
import ast
import json
from concurrent.futures import ProcessPoolExecutor
from fractions import Fraction

from harness import compat  # noqa: F401
from harness import tlc
from harness.core import Ctx, Machinery, Violation, finish

LEVEL = 'model_checking'
BATCH = 150


def model_value(val: dict):
	t = val['t']
	if t == 'int':
		# integers beyond TLC's range are carried as decimal text
		return ('int', int(val['dec']) if 'dec' in val else val['v'])
	if t == 'flt':
		return ('float', Fraction(val['n'], val['d']))
	if t == 'str':
		return ('str', val['s'])
	return ('err', None)


def python_value(text: str):
	try:
		v = eval(text, {'__builtins__': {'int': int, 'float': float, 'str': str}})
	except Exception:
		return ('err', None)
	if isinstance(v, bool):
		return ('bool', v)
	if isinstance(v, int):
		return ('int', v)
	if isinstance(v, float):
		return ('float', Fraction(v))
	if isinstance(v, str):
		return ('str', v)
	return ('other', repr(v))


def _check(args) -> dict:
	cases, first = args
	import rogw.tranp.syntax.node.definition as defs
	from harness.tranp_env import Env, enter_scratch
	from rogw.tranp.errors import Errors
	from rogw.tranp.transpiler.types import Evaluator
	enter_scratch('verif-c17-')
	failures, machinery = [], []
	program = 'from enum import Enum\n\nclass E(Enum):\n' + ''.join(f'\tM{first + i} = {c["text"]}\n' for i, c in enumerate(cases))
	program += '\n' + ''.join(f'r{first + i} = E.M{first + i}.value\n' for i, c in enumerate(cases[:10]))
	try:
		env = Env()
		module = env.reload_main(program)
		enum_node = next(n for n in module.entrypoint.statements if isinstance(n, defs.Enum))
		assigns = [s for s in enum_node.statements if isinstance(s, defs.MoveAssign)]
		evaluator = env.get(Evaluator)
	except Exception as e:
		return {'failures': [{'clause': 'accepted', 'detail': f'{type(e).__name__}: {str(e)[:200]}', 'text': cases[0]['text'], 'kind': 'batch'}], 'machinery': [], 'refused': 0}
	refused = 0
	accepted: list = []
	for case, assign in zip(cases, assigns):
		want = model_value(case['val'])
		ref = python_value(case['text'])
		if want != ref:
			machinery.append(f'spec and CPython disagree on {case["text"]!r}: {want} vs {ref}')
			continue
		try:
			raw = evaluator.exec(assign.value)
			if isinstance(raw, bool):
				got = ('bool', raw)
			elif isinstance(raw, int):
				got = ('int', raw)
			elif isinstance(raw, float):
				got = ('float', Fraction(raw))
			elif isinstance(raw, str):
				try:
					got = ('str', ast.literal_eval(raw))
				except Exception:
					got = ('str-raw', raw)
			else:
				got = ('other', repr(raw))
		except Errors.Error:
			refused += 1
			continue  # a refusal is always allowed
		except Exception as e:
			failures.append({'clause': 'RefusalIsAppError', 'detail': f'{case["text"]}: {type(e).__name__} escaped', 'text': case['text'], 'kind': type(e).__name__})
			continue
		if got != want:
			failures.append({'clause': 'ValueEqualsPython', 'detail': f'{case["text"]} folds to {got[0]} {got[1]}, Python gives {want[0]} {want[1]}', 'text': case['text'], 'kind': _kind(case['text'], want)})
		else:
			accepted.append((case, want))
	# what the value is used for: the text emitted for `E.M.value` denotes the same value
	if accepted:
		import re
		program2 = 'from enum import Enum\n\nclass E(Enum):\n' + ''.join(f'\tM{i} = {c["text"]}\n' for i, (c, _) in enumerate(accepted))
		program2 += '\n' + ''.join(f'r{i} = E.M{i}.value\n' for i in range(len(accepted)))
		try:
			out = Env().transpile_source(program2)
		except Exception as e:
			failures.append({'clause': 'EmittedValue', 'detail': f'the folded values are accepted one by one but the module that reads them does not transpile: {type(e).__name__}: {str(e)[:160]}', 'text': accepted[0][0]['text'], 'kind': 'emission'})
			out = ''
		emitted = {int(m.group(1)): m.group(2) for m in re.finditer(r'^[\w:<> ]+ r(\d+) = (.*);$', out, re.M)}
		for i, (case, want) in enumerate(accepted if out else []):
			lit = emitted.get(i)
			try:
				if want[0] == 'int':
					ok = lit is not None and int(lit, 0) == want[1]
				elif want[0] == 'float':
					ok = lit is not None and Fraction(float(lit)) == want[1]
				elif any(ch in want[1] for ch in '"\'\\'):
					continue  # how a quote inside a string value is spelled in the output language is not the folded value's business (C01)
				else:
					ok = lit is not None and ast.literal_eval(lit) == want[1]
			except Exception:
				ok = False
			if not ok:
				failures.append({'clause': 'EmittedValue', 'detail': f'{case["text"]} folds to {want[0]} {want[1]} but `E.M.value` is emitted as {lit!r}', 'text': case['text'], 'kind': f'emission:{want[0]}'})
	return {'failures': failures, 'machinery': machinery, 'refused': refused}


def _check_refs(args) -> dict:
	"""references to other enum members: three enums, same member names in two of them, one shared evaluator, two evaluation orders"""
	cases, enums = args
	import rogw.tranp.syntax.node.definition as defs
	from harness.tranp_env import Env, enter_scratch
	from rogw.tranp.errors import Errors
	from rogw.tranp.transpiler.types import Evaluator
	enter_scratch('verif-c17r-')
	failures, machinery = [], []
	program = 'from enum import Enum\n\n' + ''.join(f'class {en}(Enum):\n' + ''.join(f'\t{x} = {enums[en][x]["text"]}\n' for x in sorted(enums[en])) + '\n' for en in sorted(enums))
	program += 'class E2(Enum):\n' + ''.join(f'\tM{i} = {c["text"]}\n' for i, c in enumerate(cases))
	scope: dict = {}
	exec(program, scope)
	for i, c in enumerate(cases):
		ref = eval(c['text'], scope)      # not E2[...].value: members with equal values are aliases of one another
		ref = ('float', Fraction(ref)) if isinstance(ref, float) else ('int', ref) if isinstance(ref, int) else ('str', ref)
		if ref != model_value(c['val']):
			machinery.append(f'spec and CPython disagree on {c["text"]!r}: {model_value(c["val"])} vs {ref}')
	if machinery:
		return {'failures': [], 'machinery': machinery, 'refused': 0}
	refused = 0
	for order in ('forward', 'backward'):
		try:
			env = Env()
			module = env.reload_main(program)
			e2 = [n for n in module.entrypoint.statements if isinstance(n, defs.Enum)][-1]
			assigns = [s for s in e2.statements if isinstance(s, defs.MoveAssign)]
			evaluator = env.get(Evaluator)
		except Exception as e:
			return {'failures': [{'clause': 'accepted', 'detail': f'{type(e).__name__}: {str(e)[:200]}', 'text': cases[0]['text'], 'kind': 'references'}], 'machinery': [], 'refused': 0}
		pairs = list(zip(cases, assigns))
		for case, assign in (pairs if order == 'forward' else reversed(pairs)):
			want = model_value(case['val'])
			try:
				raw = evaluator.exec(assign.value)
			except Errors.Error:
				refused += 1
				continue
			except Exception as e:
				failures.append({'clause': 'RefusalIsAppError', 'detail': f'{case["text"]}: {type(e).__name__} escaped', 'text': case['text'], 'kind': f'references:{type(e).__name__}'})
				continue
			if isinstance(raw, str):
				try:
					got = ('str', ast.literal_eval(raw))
				except Exception:
					got = ('str-raw', raw)
			else:
				got = ('float', Fraction(raw)) if isinstance(raw, float) else ('int', raw) if isinstance(raw, int) and not isinstance(raw, bool) else ('other', repr(raw))
			if got != want:
				failures.append({'clause': 'ValueEqualsPython', 'detail': f'{case["text"]} (members evaluated {order} on one evaluator) folds to {got[0]} {got[1]}, Python gives {want[0]} {want[1]}', 'text': case['text'], 'kind': 'references'})
	return {'failures': failures, 'machinery': machinery, 'refused': refused}


def _kind(text: str, want) -> str:
	feats = []
	if '~' in text:
		feats.append('invert')
	if 'str(' in text:
		feats.append('str-cast')
	if 'int(' in text:
		feats.append('int-cast')
	if 'float(' in text:
		feats.append('float-cast')
	if want[0] == 'err':
		feats.append('python-raises')
	return '+'.join(feats) or 'operators'


def run(ctx: Ctx) -> int:
	quick = ctx.quick
	res = tlc.run('ConstFoldEmit', 'ConstFold_2.cfg' if quick else 'ConstFold_3.cfg', workers=1, timeout=1200, heap='8g')
	if res.rc != 0:
		raise Machinery(f'ConstFold: evaluation error: {res.out[-800:]}')
	cases = [json.loads(line) for line in res.lines('CASE ')]
	refcases = [json.loads(line) for line in res.lines('REFCASE ')]
	enums = json.loads(res.lines('ENUMS ')[0])
	ctx.log(f'TLC enumerated {len(cases)} constant expressions with their Python values (InRange holds) and {len(refcases)} expressions over references to members of other enums (TableConsistent holds)')
	with ProcessPoolExecutor(max_workers=16) as ex:
		results = list(ex.map(_check, [(cases[i:i + BATCH], i) for i in range(0, len(cases), BATCH)]))
		results += list(ex.map(_check_refs, [(refcases[i::4], enums) for i in range(4)]))
	machinery = [m for r in results for m in r['machinery']]
	if machinery:
		raise Machinery(f'{len(machinery)} cases where spec and CPython disagree, e.g. {machinery[0]}')
	failures = [f for r in results for f in r['failures']]
	refused = sum(r['refused'] for r in results)
	ctx.log(f'{len(cases)} expressions: spec = CPython on all; tranp refused {refused}, wrong on {len(failures)}')
	groups: dict[str, list] = {}
	for f in failures:
		groups.setdefault(f'{f["clause"]}:{f["kind"]}', []).append(f)
	violations = []
	for key, fs in sorted(groups.items()):
		s = min(fs, key=lambda f: len(f['text']))
		violations.append(Violation(key, s['clause'], f'{s["detail"]} ({len(fs)} expressions)', {'text': s['text']}))
	coverage = {
		'states': len(cases),
		'transitions': len(cases),
		'traces_validated_against_impl': len(cases),
		'expressions': len(cases),
		'reference_expressions': len(refcases),
		'refused_by_tranp': refused,
		'expected_python_errors': sum(1 for c in cases if c['val']['t'] == 'err'),
		'exhaustive': True,
		'bounds': {'depth': 2, 'leaves_under_depth2_operators': 5 if quick else 8, 'literals': 13, 'binary_operators': 10, 'unary_operators': 3, 'casts': 3},
		'samples': [cases[100], cases[len(cases) // 2]],
	}
	assumptions = ['floats restricted to dyadic rationals (exact in IEEE doubles), |v| < 2^20, shifts <= 12; string repetition and str(float) are outside the subset']
	return finish(ctx, LEVEL, coverage, violations, assumptions)
