"""C06 — non-forced runs leave every output equal to a forced run (spec/Tranp.tla runner configuration, spec/OutPath.tla).

1. TLC checks RunEqualsForced / Untouched / RegeneratesOnHeaderChange on the model with a header that covers
   the import closure (DeepHeader) and explores the model with the header AS CODED (own source hash only).
2. spec -> code: every explored edge (edit / run / run -f / delete-output) is replayed through the real
   command-line Runner on a real directory tree, caching switched off so that only the header mechanism
   decides; output files (header + text + mtime) are compared with the spec state and with what a forced run
   of tranp itself writes for the current sources.
3. OutPath.tla: the output-path mapping (glob rule / prefix rule / fallback) and the meta-header round trip
   are enumerated by TLC and replayed on Runner.output_filepath / MetaHeader.
"""
import json

from harness import compat  # noqa: F401
from harness import tlc
from harness.core import Ctx, Machinery, Violation, finish
from harness.checks.c05 import collect

LEVEL = 'model_checking'


def outpath_cases(ctx: Ctx) -> tuple[list[Violation], dict]:
	"""TLC enumerates (rule set, module paths) cases with the mapped paths; replay on the real Runner."""
	res = tlc.run('OutPath', 'OutPath.cfg', workers=1, timeout=600)
	cases = [json.loads(line) for line in res.lines('CASE ')]
	if not cases:
		raise Machinery(f'OutPath: no cases emitted: {res.out[-800:]}')
	import os
	from rogw.tranp.bin.transpile import Runner
	from rogw.tranp.data.meta.header import MetaHeader
	from rogw.tranp.module.types import ModulePath
	violations: list[Violation] = []
	collisions_spec = 0
	mismatches = []
	collide_real = []

	class Cfg:
		pass

	for case in cases:
		cfg = Cfg()
		cfg.output_dirs = case['rules']
		cfg.output_language = case['lang']
		runner = Runner.__new__(Runner)
		runner.config = cfg
		real = {}
		for m in case['mods']:
			try:
				real[m] = os.path.relpath(runner.output_filepath(ModulePath(m, language='py')), os.getcwd())
			except Exception as e:
				real[m] = f'!{type(e).__name__}'
		if any(real[m] != case['paths'][m] for m in case['mods']):
			mismatches.append({'case': case, 'real': real})
		if len(set(real.values())) != len(real):
			collide_real.append({'rules': case['rules'], 'mods': case['mods'], 'real': real})
		if not case['injective']:
			collisions_spec += 1
	if mismatches:
		m = mismatches[0]
		violations.append(Violation('outpath:conformance', 'PathMapping', f'Runner.output_filepath differs from OutPath.tla on {len(mismatches)} cases, e.g. rules {m["case"]["rules"]}: code {m["real"]} vs spec {m["case"]["paths"]}', m))
	kinds: dict[str, dict] = {}
	for c in collide_real:
		kind = 'prefix-rule-strips-directory' if any(not r.split(':')[0].endswith('*') for r in c['rules'][:-1]) else 'other'
		kinds.setdefault(kind, c)
	for kind, c in kinds.items():
		violations.append(Violation(f'PathInjective:{kind}', 'PathInjective', f'two modules share an output path under output_dirs {c["rules"]}: {c["real"]}', c))
	# header round trip on the enumerated header values
	hres = [json.loads(line) for line in res.lines('HEADER ')]
	bad = []
	for h in hres:
		meta = MetaHeader({'hash': h['hash'], 'path': h['path']}, {'version': h['tver'], 'module': h['tmod']})
		text = f'// {meta.to_header_str()}\n#pragma once\n{h["body"]}'
		back = MetaHeader.try_from_content(text)
		if back is None or back != meta or back.to_json() != meta.to_json():
			bad.append(h)
	if bad:
		violations.append(Violation('HeaderRoundTrip', 'HeaderRoundTrip', f'a written header is not read back to the same value, e.g. {bad[0]}', {'header': bad[0]}))
	return violations, {'outpath_cases': len(cases), 'outpath_spec_collisions': collisions_spec, 'outpath_real_collisions': len(collide_real), 'headers_round_tripped': len(hres), 'outpath_states': res.distinct}


def run(ctx: Ctx) -> int:
	from harness.fs_replay import replay_edges
	quick = ctx.quick
	sound = tlc.run('MCTranp', 'Tranp_runner_sound.cfg', workers=16, timeout=900)
	if not sound.ok:
		raise Machinery(f'TLC: the deep-header model violates a C06 clause - model or property is wrong: {sound.out[-1500:]}')
	coded = tlc.run('MCTranp', 'Tranp_runner_coded.cfg', workers=16, timeout=900)
	design_cex = coded.invariant_violated + coded.action_property_violated
	ctx.log(f'TLC: deep header {sound.distinct} states OK; header as coded: {coded.distinct} states, violated at design level: {design_cex or "nothing"}')

	# the four replays are independent: they share one pool of worker processes (started here, before any thread)
	from concurrent.futures import ProcessPoolExecutor, ThreadPoolExecutor
	from harness.fs_replay import replay_walks
	pool = ProcessPoolExecutor(max_workers=16)
	list(pool.map(int, range(64)))

	def edge_stage(graph: str, sound_cfg: str | None, edges_cfg: str) -> dict:
		snd = None
		if sound_cfg:
			snd = tlc.run('MCTranp', sound_cfg, workers=4, timeout=900)
			if not snd.ok:
				raise Machinery(f'TLC: the deep-header model violates a C06 clause on the {graph} graph: {snd.out[-1500:]}')
		res = tlc.run('MCTranp', edges_cfg, workers=1, timeout=900)
		es = [json.loads(line) for line in res.lines('EDGE ')]
		if not es:
			raise Machinery(f'no edges emitted by {edges_cfg}')
		rep = replay_edges(graph, es, pool=pool)
		rep['graph'] = graph
		rep['sound'] = snd.distinct if snd else 0
		rep['edge_list'] = es
		return rep

	def walk_stage() -> dict:
		wres = tlc.run('TranpWalk', 'TranpWalk_runner.cfg', workers=1, timeout=900, seed=ctx.seed + 1)
		rep = replay_walks('Chain', [json.loads(line) for line in wres.lines('EDGE ')], pool=pool)
		rep['graph'] = 'Chain'
		return rep

	try:
		with ThreadPoolExecutor(max_workers=4) as tex:
			f_chain = tex.submit(edge_stage, 'Chain', None, 'Tranp_runner_edges4.cfg' if quick else 'Tranp_runner_edges6.cfg')
			# the diamond a -> {b, c} -> d
			f_diamond = tex.submit(edge_stage, 'Diamond', 'TranpD_runner_sound.cfg', 'TranpD_runner_edges4.cfg' if quick else 'TranpD_runner_edges5.cfg')
			# the pair b -> c with a third variant: the top module edited to a BLANK source (and back)
			f_pair = tex.submit(edge_stage, 'PairLong', None, 'TranpP_runner_edges4.cfg' if quick else 'TranpP_runner_edges5.cfg')
			# long behaviours: random walks chosen by TLC, replayed step by step through the real runner
			f_walk = tex.submit(walk_stage)
			replay, dreplay, preplay, wreplay = f_chain.result(), f_diamond.result(), f_pair.result(), f_walk.result()
	finally:
		pool.shutdown()
	edges = replay['edge_list']
	ctx.log(f'replayed {replay["edges"]} edges ({replay["stats"].get("runs", 0)} real runs, {replay["stats"].get("texts_compared", 0)} output texts compared); {len(replay["failures"])} discrepancies')
	ctx.log(f'diamond graph: deep header {dreplay["sound"]} states OK; replayed {dreplay["edges"]} edges ({dreplay["stats"].get("runs", 0)} real runs); {len(dreplay["failures"])} discrepancies')
	ctx.log(f'pair graph with a blank variant: replayed {preplay["edges"]} edges ({preplay["stats"].get("runs", 0)} real runs); {len(preplay["failures"])} discrepancies')
	ctx.log(f'random walks: {wreplay["jobs"]} behaviours of up to {wreplay["longest"]} operations from TranpWalk.tla replayed ({wreplay["stats"].get("runs", 0)} real runs); {len(wreplay["failures"])} discrepancies')
	violations = []
	for rep in (replay, dreplay, preplay, wreplay):
		seen = {v.key for v in violations}
		violations += [v for v in collect(ctx, 'C06', rep) if v.key not in seen]
	v2, extra = outpath_cases(ctx)
	violations += v2
	ctx.log(f'OutPath: {extra["outpath_cases"]} mapping cases, {extra["headers_round_tripped"]} headers round-tripped')

	coverage = {
		'states': sound.distinct + coded.distinct + extra['outpath_states'],
		'transitions': sound.generated + coded.generated,
		'traces_validated_against_impl': replay['jobs'],
		'edges_replayed_on_impl': replay['edges'],
		'real_runs': replay['stats'].get('runs', 0),
		'output_texts_compared_with_forced_run': replay['stats'].get('texts_compared', 0),
		'stale_outputs_reproduced': replay['stats'].get('stale_reproduced', 0),
		'design_level_counterexample_with_coded_header': design_cex,
		'exhaustive': True,
		'bounds': {'graph': 'chain a->b->c and diamond a->{b,c}->d', 'variants': 2, 'operations': 4 if quick else 6},
		'diamond_edges_replayed_on_impl': dreplay['edges'],
		'diamond_real_runs': dreplay['stats'].get('runs', 0),
		'random_walks_replayed': wreplay['jobs'],
		'random_walk_length': wreplay['longest'],
		'samples': [{'edge': edges[len(edges) // 2]['op']}],
		**extra,
	}
	assumptions = [
		'caching is switched off in every replayed run so that only the header mechanism decides (the cache has its own property, C05)',
		'a run = a fresh application object driven through the real TranspileApp/Runner with a generated config.yml',
	]
	return finish(ctx, LEVEL, coverage, violations, assumptions)
