"""C14 — exporting and re-importing the symbol table loses nothing (spec/SymExport.tla).

1. TLC checks RebuildFlatten (the attribute-tree encoding: flatten to index paths in pre-order, rebuild level by
   level from the depth-sorted paths) on every forest up to the bound, and ImportNeverDangling (the export order
   computed by _order_keys never lists a symbol before a same-module key it refers to) on every small table;
   with `via` unconstrained the spec yields the design-level counterexample.
2. spec -> code: every enumerated forest shape is realised as a type annotation (arity 0 scalar, 1 list[.],
   2 tuple[., .]) of a parameter / variable / field in a generated two-module program; the module is exported
   with SymbolDB.to_json, unloaded from the table and re-imported; every symbol must come back with the same
   type description (nested arguments included), declaration, node and the module must count as completed;
   importing a second time changes nothing.
3. code -> spec: the real export of generated and real modules is recorded (rows in order with the keys they refer
   to) and checked: no row refers to a same-module key that comes later, every key exactly once.
"""
import json
from concurrent.futures import ProcessPoolExecutor

from harness import compat  # noqa: F401
from harness import tlc
from harness.core import Ctx, Machinery, Violation, finish

LEVEL = 'model_checking'


def anno_of_tree(t: dict) -> str:
	kids = t['kids']
	if not kids:
		return 'int' if t['ty'] == 'A' else 'str'
	if len(kids) == 1:
		return f'list[{anno_of_tree(kids[0])}]'
	return 'tuple[' + ', '.join(anno_of_tree(k) for k in kids) + ']'


def anno_of_forest(f: list) -> str:
	"""A forest = the type arguments of one declared type"""
	if len(f) == 1:
		return f'list[{anno_of_tree(f[0])}]'
	return 'dict[str, ' + anno_of_tree(f[1]) + ']' if f[0]['kids'] == [] and f[0]['ty'] == 'B' else 'tuple[' + ', '.join(anno_of_tree(t) for t in f) + ']'


def program_of_table(rows: list[dict]) -> str:
	"""a table of spec/SymExport.tla as a module: generic classes and functions whose parameter type is the row's type with
	its arguments, in the table's insertion order (later classes are referred to by forward references)"""
	name = {'M#C1': 'C1', 'M#C2': 'C2', 'X#int': 'int', 'X#list': 'list'}

	def anno(ty: str, kids: list) -> str:
		return name[ty] + (f'[{", ".join(anno(k["ty"], k["kids"]) for k in kids)}]' if kids else '')
	parts = ["from typing import Generic, TypeVar\n\nT = TypeVar('T')\n"]
	for r in rows:
		if r['kind'] == 'class':
			parts.append(f'class {name[r["key"]]}(Generic[T]):\n\tn: int\n\n\tdef __init__(self) -> None:\n\t\tself.n = 0\n')
		else:
			parts.append(f'def {r["key"].split("#")[1]}(p: \'{anno(r["types"], r["attrs"])}\') -> None: ...\n')
	return '\n'.join(parts)


def describe_table(db, module_path: str) -> dict:
	out = {}
	for key, sym in db.items(module_path):
		try:
			out[key] = {'type': sym.pretty, 'decl': sym.decl.fullyname if hasattr(sym.decl, 'fullyname') else str(sym.decl), 'decl_path': sym.decl.full_path, 'node_path': sym.node.full_path, 'kind': type(sym).__name__}
		except Exception as e:
			out[key] = {'error': f'{type(e).__name__}: {str(e)[:80]}'}
	return out


def export_refs(data: dict) -> list[dict]:
	rows = []
	for key, row in data.items():
		refs = list(row.get('attrs', {}).values())
		if row['class'] == 'Reflection':
			refs += [row['origin'], row['via']]
		rows.append({'key': key, 'refs': refs})
	return rows


def check_order(rows: list[dict], module_path: str) -> list[str]:
	problems = []
	seen = set()
	keys = [r['key'] for r in rows]
	if len(set(keys)) != len(keys):
		problems.append('a key is exported twice')
	all_keys = set(keys)
	for r in rows:
		for ref in r['refs']:
			if ref in all_keys and ref not in seen and ref != r['key']:
				problems.append(f'{r["key"]} refers to {ref}, which is exported later')
		seen.add(r['key'])
	return problems


def _roundtrip(args) -> dict:
	label, sources, module_path = args
	from harness.tranp_env import Env, enter_scratch
	from rogw.tranp.semantics.reflection.db import SymbolDB
	from rogw.tranp.semantics.reflection.serialization import IReflectionSerializer
	enter_scratch('verif-c14-')
	failures = []
	try:
		env = Env(sources=sources)
		env.load(module_path)
		db = env.get(SymbolDB)
		ser = env.get(IReflectionSerializer)
		before = describe_table(db, module_path)
		others_before = {k: db[k].pretty for k in list(db.keys()) if not k.startswith(f'{module_path}#')}
		data = json.loads(json.dumps(db.to_json(ser, for_module_path=module_path)))
		problems = check_order(export_refs(data), module_path)
		for p in problems[:2]:
			failures.append({'clause': 'ImportNeverDangling', 'detail': f'{label}: {p}', 'label': label, 'kind': 'order'})
		if set(data) != set(before):
			failures.append({'clause': 'ExportComplete', 'detail': f'{label}: exported keys differ from the module\'s symbols: {sorted(set(data) ^ set(before))[:4]}', 'label': label, 'kind': 'keys'})
		db.unload(module_path)
		if db.has_module(module_path) or db.completed(module_path):
			failures.append({'clause': 'UnloadExact', 'detail': f'{label}: symbols remain after unload', 'label': label, 'kind': 'unload'})
		db.import_json(ser, data)
		after = describe_table(db, module_path)
		if after != before:
			key = next(k for k in set(before) | set(after) if before.get(k) != after.get(k))
			failures.append({'clause': 'ImportRestores', 'detail': f'{label}: {key}: exported {before.get(key)} vs re-imported {after.get(key)}', 'label': label, 'kind': (before.get(key) or {}).get('type', '?')})
		if not db.completed(module_path):
			failures.append({'clause': 'CompletedSet', 'detail': f'{label}: module does not count as completed after import', 'label': label, 'kind': 'completed'})
		db.import_json(ser, data)
		again = describe_table(db, module_path)
		if again != after:
			failures.append({'clause': 'Idempotent', 'detail': f'{label}: importing the same data twice changes the table', 'label': label, 'kind': 'idempotent'})
		others_after = {k: db[k].pretty for k in list(db.keys()) if not k.startswith(f'{module_path}#')}
		if others_after != others_before:
			failures.append({'clause': 'Frame', 'detail': f'{label}: symbols of other modules changed by export/import', 'label': label, 'kind': 'frame'})
		return {'failures': failures, 'symbols': len(before), 'rows': len(data)}
	except Exception as e:
		return {'failures': [{'clause': f'crash:{type(e).__name__}', 'detail': f'{label}: {type(e).__name__}: {str(e)[:200]}', 'label': label, 'kind': 'crash'}], 'symbols': 0, 'rows': 0}


def run(ctx: Ctx) -> int:
	quick = ctx.quick
	res = tlc.run('SymExportEmit', 'SymExport.cfg', workers=1, timeout=1500, heap='8g')
	if res.rc != 0:
		raise Machinery(f'SymExport: RebuildFlatten / ImportNeverDangling fails or evaluation error: {res.out[-800:]}')
	via = tlc.run('SymExportEmit', 'SymExport_via.cfg', workers=1, timeout=900)
	forests = [json.loads(line) for line in res.lines('FOREST ')]
	info = res.lines('FORESTS ')
	ctx.log(f'TLC: {info[0] if info else "?"}: RebuildFlatten and ImportNeverDangling hold; with unconstrained `via`: {"violated (design-level)" if via.rc != 0 else "holds"}')
	# realise the forests as annotations: a leaf module with classes, a user module with one function per 12 shapes
	annos = []
	for f in forests:
		a = anno_of_forest(f['forest'])
		if a not in annos:
			annos.append(a)
	# rows whose flattened type sequences agree while their trees differ (SymExport.TypesDoNotDetermineShape) stand in
	# one module: the annotations are grouped by the sequence of type names below the declared type
	import re
	annos.sort(key=lambda a: (tuple(re.findall(r'\w+', a))[1:], a))
	jobs = []
	lib = 'class K:\n\tn: int\n\tdef __init__(self, n: int) -> None:\n\t\tself.n = n\n\nclass Q(K):\n\tm: str\n\tdef __init__(self, n: int) -> None:\n\t\tsuper().__init__(n)\n\t\tself.m = \'\'\n\ndef mk(n: int) -> K:\n\treturn K(n)\n\ntable: dict[str, list[K]] = {}\nnames = [\'a\', \'b\']\nopt: str | None = None\npair: tuple[int, str] = (1, \'a\')\nnested: list[dict[str, tuple[int, K]]] = []\n'
	step = 12
	for i in range(0, len(annos), step):
		chunk = annos[i:i + step]
		params = ', '.join(f'p{j}: {a}' for j, a in enumerate(chunk))
		# w_j holds ONE value twice: the attribute tree of its type reaches the same reflection by two paths
		body = ''.join(f'\tv{j} = p{j}\n\tw{j} = (p{j}, p{j})\n' for j in range(len(chunk)))
		fields = ''.join(f'\tf{j}: {a}\n' for j, a in enumerate(chunk[:4]))
		user = f'from vm_lib import K, Q, mk, table, names, opt, pair, nested\n\nt2 = table\nn2 = names\n\nclass Holder:\n{fields}\tk: K\n\tdef __init__(self, k: K) -> None:\n\t\tself.k = k\n\n\tdef get(self) -> list[K]:\n\t\treturn [self.k, mk(1)]\n\ndef f({params}) -> dict[str, list[K]]:\n{body}\th = Holder(Q(1))\n\tks = h.get()\n\treturn {{\'a\': ks}}\n\ng = mk(2)\n'
		jobs.append((f'shapes:{i}', {'vm_lib': lib, 'vm_user': user}, 'vm_user'))
	jobs.append(('lib', {'vm_lib': lib}, 'vm_lib'))
	tables = [json.loads(line) for line in res.lines('TABLE ')]
	for i, tab in enumerate(tables[:: 3 if quick else 1]):
		jobs.append((f'table:{i}', {'vm_tab': program_of_table(tab['rows'])}, 'vm_tab'))
	# what a module is made of: every non-empty choice of declaration kinds (a module of constants, a module that only imports, ...)
	comps = [json.loads(line) for line in res.lines('COMPOSITION ')]
	if len(comps) != 31:
		raise Machinery(f'SymExport emitted {len(comps)} module compositions, expected 31')
	piece = {'class': 'class K0:\n\tn: int\n\tdef __init__(self, n: int) -> None:\n\t\tself.n = n\n\n', 'function': 'def f0(a: int) -> list[int]:\n\treturn [a]\n\n',
		'typevar': "T0 = TypeVar('T0')\n", 'variable': "v0: dict[str, int] = {'a': 1}\nv1 = 2\n", 'import': ''}
	for c in comps:
		kinds = sorted(c['kinds'])
		head = ('from typing import TypeVar\n' if 'typevar' in kinds else '') + ('from vm_lib import K, mk, table\n' if 'import' in kinds else '') + '\n'
		jobs.append((f'composition:{"+".join(kinds)}', {'vm_lib': lib, 'vm_comp': head + ''.join(piece[k] for k in kinds)}, 'vm_comp'))
	from harness import real_modules
	real = real_modules.QUICK if quick else real_modules.LOAD_OK
	for m in real:
		jobs.append((f'real:{m}', {}, m))
	with ProcessPoolExecutor(max_workers=16) as ex:
		results = list(ex.map(_roundtrip, jobs))
	failures = [f for r in results for f in r['failures']]
	nsym = sum(r['symbols'] for r in results)
	ctx.log(f'{len(annos)} annotation shapes and {len(tables[:: 3 if quick else 1])} tables (insertion orders of generic classes and functions) in {len(jobs) - len(real) - 1} generated modules + {len(real)} real modules: {nsym} symbols exported, unloaded, re-imported (twice): {len(failures)} discrepancies')
	groups: dict[str, list] = {}
	for f in failures:
		groups.setdefault(f'{f["clause"]}:{f["label"].split(":")[0]}:{f["kind"]}', []).append(f)
	violations = []
	for key, fs in sorted(groups.items()):
		violations.append(Violation(key, fs[0]['clause'], f'{fs[0]["detail"]} ({len(fs)} occurrences)', {'label': fs[0]['label']}))
	coverage = {
		'states': len(forests),
		'transitions': nsym,
		'traces_validated_against_impl': len(jobs),
		'forests_checked_by_tlc': info[0] if info else '',
		'annotation_shapes_replayed': len(annos),
		'tables_replayed_as_programs': len(tables[:: 3 if quick else 1]),
		'symbols_round_tripped': nsym,
		'real_modules': real,
		'design_level_counterexample_with_free_via': via.rc != 0,
		'exhaustive': True,
		'samples': [annos[len(annos) // 2], annos[-1]],
	}
	assumptions = ['a forest shape is realised as list[.] (one argument), tuple[...] / dict[str, .] (two arguments); scalar leaves int / str', 'the target table holds the other modules: the module is unloaded from the live table before import']
	return finish(ctx, LEVEL, coverage, violations, assumptions)
