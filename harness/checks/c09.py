"""C09 — every handler receives exactly the results of its own children (spec/Proc.tla).

1. TLC explores Proc.tla: every tree up to the bound is built by actions and walked, with nested runs and a
   failing handler; the C09 clauses are action properties.
2. code -> spec (dialect A): a real Procedure with an identity handler walks every node of real modules
   (library stubs, examples, test fixtures) and model-generated programs, including nested runs started from
   inside handlers and failing handlers followed by another run; the recorded events are validated against
   Proc.tla with the tree the node API reports.
3. code -> spec (dialect B): the repository's own walkers (Py2Cpp, the type resolver, the literal evaluator)
   are recorded while real modules are transpiled, and validated the same way (stack discipline, order,
   nested runs).
"""
import os
import random
import shutil
from concurrent.futures import ProcessPoolExecutor

from harness import compat  # noqa: F401
from harness import tlc
from harness.core import Ctx, Machinery, Violation, finish
from harness.tranp_env import scratch_dir

LEVEL = 'model_checking'

REAL_MODULES_QUICK = ['example.json', 'rogw.tranp.compatible.libralies.classes']
REAL_MODULES_THOROUGH = REAL_MODULES_QUICK + [
	'example.FW.string',
	'rogw.tranp.compatible.libralies.type',
	'tests.unit.rogw.tranp.implements.cpp.transpiler.fixtures.fixture_py2cpp',
	'tests.unit.rogw.tranp.semantics.fixtures.fixture_reflections',
	'tests.unit.rogw.tranp.syntax.node.fixtures.fixture_definition',
	'tests.unit.rogw.tranp.syntax.node.fixtures.fixture_node',
	'rogw.tranp.compatible.cpp.cvar',
	'rogw.tranp.errors',
]

SAMPLE_PROGRAM = '''
from collections.abc import Callable

from rogw.tranp.compatible.python.embed import Embed

class Base:
	n: int
	def __init__(self, n: int) -> None:
		self.n = n

	def inc(self, d: int = 1) -> int:
		return self.n + d

class Sub(Base):
	tags: list[str]
	def __init__(self, n: int) -> None:
		super().__init__(n)
		self.tags = []

	@property
	def size(self) -> int:
		return len(self.tags)

def total(values: list[int], limit: int) -> int:
	acc = 0
	for i, v in enumerate(values):
		if v > limit:
			continue
		elif v == 0:
			break
		else:
			acc += v * i
	while acc > 100:
		acc -= 7
	return acc

def table(d: dict[str, int]) -> list[str]:
	keys = [k for k, v in d.items() if v > 0]
	try:
		if len(keys) == 0:
			raise RuntimeError('empty')
	except RuntimeError as e:
		return []
	return keys

def pick(a: int, b: int) -> int:
	f = lambda x: x + a
	return f(b) if a < b else a & b | 1

class Res:
	def __enter__(self) -> 'Res':
		return self

	def __exit__(self, *args: int) -> None: ...

def deco(n: int = 0) -> int:
	return n

@Embed.struct
@Embed.meta('k', 'v')
@Embed.alias('MixAlias', prefix=False)
class Mix(Base, Res):
	def __init__(self) -> None:
		super().__init__(0)

	@Embed.public
	@Embed.allow_override
	def both(self, p: int, q: int = 2) -> int:
		g = lambda x, y, z: x + y + z
		def inner(i: int, j: int) -> int:
			return i + j
		return g(p, q, 1) + inner(p, q)

	@classmethod
	@Embed.public
	def make(cls, a: int, b: int) -> int:
		return a + b

@Embed.public
@Embed.pure
def apply2(fn: Callable[[int, int], int], x: int, y: int) -> int:
	return fn(x, y)

def many(a: int, b: int = 1, c: int = 2) -> dict[str, int]:
	with Res() as r1, Res() as r2, Res() as r3:
		a = a + 1
		b = b + 0
	try:
		b = b + 1
		c = c + 0
	except RuntimeError as e1:
		b = 0
		c = 0
	except Exception as e2:
		b = 1
	if a > 3:
		c = 0
	elif a > 2:
		c = 1
	elif a > 1:
		c = 2
	elif a > 0:
		c = 3
	pairs = [x * y for x in [a, b] for y in [b, c] if x > y]
	t = (a, b, c)
	u = total([a, b, c], limit=c)
	return {'a': a, 'b': b, 'c': len(pairs) + t[0] + u}

# the remaining node classes: every class of the node model with child properties is walked at least once
from enum import Enum
from typing import Generic, Literal, TypeAlias, TypedDict, TypeVar

T = TypeVar('T')
Row: TypeAlias = dict[str, int]
Rec = TypedDict('Rec', {'k': int, 'w': str})
Mode: TypeAlias = Literal['r', 'w']

class Color(Enum):
	Red = 1
	Blue = 1 << 2

class Outer:
	class Inner:
		def get(self) -> int:
			return 1

	def make(self) -> 'Outer.Inner':
		return Outer.Inner()

class Box(Generic[T]):
	def __init__(self, v: T) -> None:
		self.v: T = v

	def get(self) -> T:
		return self.v

def rest(xs: list[int], flag: bool, *more: int) -> float:
	assert len(xs) >= 0, 'never'
	ok = True and not flag or False
	d = {str(x): x for x in xs if x > 0}
	h = 2.5 * len(d)
	m = (xs[0] << 2) ^ 3 if len(xs) > 0 else ~0
	i: Outer.Inner = Outer().make()
	b = Box[int](1)
	bx: Box[int] = b
	un: int | None = None
	tp: tuple[int, int] = (1, 2)
	st = tp[*sl2]
	sl = xs[1:3]
	sl2 = (0,)
	n = None
	del d['k']
	if ok:
		pass
	z = total(*[xs, 1])
	return h + m + i.get() + b.get() + len(sl) + z + Color.Red.value

def gen(xs: list[int]) -> int:
	for x in xs:
		yield x
'''


def _walk_modules(args) -> list[dict]:
	try:
		return _walk_modules_impl(args)
	except Machinery:
		raise
	except Exception as e:
		# loading / walking a real module failed: on a tree where the property holds this does not happen
		import traceback
		tb = traceback.extract_tb(e.__traceback__)
		where = next((f'{os.path.basename(fr.filename)}:{fr.name}' for fr in reversed(tb) if '/rogw/tranp/' in fr.filename), '?')
		return [{'tree': [], 'events': [{'name': 'crash', 'error': f'{type(e).__name__} at {where}: {str(e)[:200]}'}], 'legend': [], 'label': f'A:{args[0][0]}:pipeline'}]


def _walk_modules_impl(args) -> list[dict]:
	module_paths, seed, with_walkers = args
	from harness.tranp_env import Env, enter_scratch
	from harness.proc_binding import WalkerRecorder, identity_walk
	enter_scratch('verif-proc-')
	out = []
	rnd = random.Random(seed)
	env = Env(sources={'verif_sample': SAMPLE_PROGRAM})
	for module_path in module_paths:
		module = env.load(module_path)
		entry = module.entrypoint
		# (1) plain identity walk of the whole module
		tr = identity_walk([entry])
		tr['label'] = f'A:{module_path}:plain'
		out.append(tr)
		if module_path == 'verif_sample':
			# vacuity guard: every concrete node class that has child properties occurs in the sample
			import inspect
			import rogw.tranp.syntax.node.definition as defs
			from rogw.tranp.syntax.ast.finder import ASTFinder
			from rogw.tranp.syntax.ast.parser import SyntaxParser
			from rogw.tranp.syntax.node.node import Node
			classes = {n: c for n, c in inspect.getmembers(defs, inspect.isclass) if issubclass(c, Node)}
			concrete = {n for n, c in classes.items() if not any(issubclass(o, c) and o is not c for o in classes.values())}
			nodes = entry._Node__nodes
			present = {type(nodes.by(p)).__name__ for p in ASTFinder().full_pathfy(env.get(SyntaxParser)(module_path))}
			absent = sorted(n for n in concrete - present if classes[n].prop_keys())
			if absent:
				raise Machinery(f'the sample program has no node of class {absent}: their child properties are never walked')
		# (1b) ONE walker instance over two different trees (same entry paths, different shapes)
		if module_path != 'verif_sample':
			other = env.load('verif_sample').entrypoint
			tr = identity_walk([other, entry, other])
			tr['label'] = f'A:{module_path}:two-trees-one-walker'
			out.append(tr)
		# (2) walks of each top-level statement with nested runs started inside handlers; then a failing one and a rerun
		stmts = entry.statements
		roots = [stmts[i] for i in sorted(rnd.sample(range(len(stmts)), min(len(stmts), 12)))]
		nest_policy = lambda c, node, depth: 'nest' if depth <= 2 and c % 5 == 0 else 'plain'
		tr = identity_walk(roots, nest_policy)
		tr['label'] = f'A:{module_path}:nested'
		out.append(tr)
		fail_at = rnd.randrange(3, 40)
		fail_policy = lambda c, node, depth: 'fail' if c == fail_at else ('nest' if depth <= 1 and c % 7 == 0 else 'plain')
		tr = identity_walk(roots[:4] + roots[:2], fail_policy)
		tr['label'] = f'A:{module_path}:fail@{fail_at}'
		out.append(tr)
	if with_walkers:
		rec = WalkerRecorder(limit_per_trace=2500)
		rec.install()
		try:
			env2 = Env(sources={'verif_sample': SAMPLE_PROGRAM})
			for module_path in with_walkers:
				try:
					env2.transpile(module_path)
				except Exception as e:  # a transpile failure is not C09's business; the prefix is still validated
					out.append({'tree': [], 'events': [], 'label': f'B:{module_path}:transpile-error:{type(e).__name__}'})
		finally:
			rec.uninstall()
		for i, tr in enumerate(rec.result()):
			tr['label'] = f'B:walker{i}'
			out.append(tr)
	return out


def validate(ctx: Ctx, traces: list[dict]) -> tuple[list[Violation], tlc.TLCResult]:
	from harness.proc_binding import write_traces
	outdir = scratch_dir('verif-proc-trace-')
	path = os.path.join(outdir, 'traces.json')
	write_traces(traces, path)
	res = tlc.run('TraceProc', 'TraceProc.cfg', workers=1, timeout=1500, env={'TRACE_FILE': path}, heap='8g')
	violations = []
	if res.rc != 0 or not res.lines('TRACES-ACCEPTED'):
		rejected = res.lines('TRACES-REJECTED ')
		reach = res.lines('REACH ')
		ids = []
		if rejected:
			ids = [int(x) for x in rejected[0].strip('{} ').replace(' ', '').split(',') if x]
		reach_list = []
		if reach:
			reach_list = [int(x) for x in reach[0].strip('<> ').replace(' ', '').split(',') if x]
		if not ids:
			violations.append(Violation('trace:tlc-error', 'TraceProc', (';'.join(res.invariant_violated + res.action_property_violated) or 'TLC error') + ' | ' + res.out[-500:].replace('\n', ' / ')))
		for t in ids[:10]:
			tr = traces[t - 1]
			at = reach_list[t - 1] if t - 1 < len(reach_list) else 0
			line = tr['events'][at - 1] if 0 < at <= len(tr['events']) else None
			node = tr['legend'][line['n'] - 1] if line and 'n' in line else ''
			kind = node.split(':')[0] if node else (line or {}).get('name', '?')
			violations.append(Violation(f'trace-rejected:{tr["label"].split(":")[0]}:{kind}', 'TraceProc', f'{tr["label"]}: recorded walk is not a behaviour of Proc.tla; first line without a matching spec step: #{at} {line} node={node}', {'label': tr['label'], 'line': at, 'event': line, 'context': tr['events'][max(0, at - 4):at + 1]}))
	shutil.rmtree(outdir, ignore_errors=True)
	return violations, res


def run(ctx: Ctx) -> int:
	quick = ctx.quick
	res = tlc.run('Proc', 'Proc_quick.cfg' if quick else 'Proc_p2.cfg', workers=16, timeout=1500, coverage=quick)
	if not res.ok:
		raise Machinery(f'TLC reports an error on Proc.tla: {res.out[-1500:]}')
	ctx.log(f'TLC explore: {res.distinct} distinct states, {res.generated} transitions')
	cov = res.coverage()
	if quick:
		for action in ('Process', 'HandlerReturn', 'ExecEnd'):
			if not cov.get(action):
				raise Machinery(f'vacuity: action {action} never taken in the bounded model')

	modules = (REAL_MODULES_QUICK if quick else REAL_MODULES_THOROUGH) + ['verif_sample']
	jobs = [([m], ctx.seed + i, [m] if (m in ('example.json', 'verif_sample') or not quick) and m != 'rogw.tranp.errors' else []) for i, m in enumerate(modules)]
	with ProcessPoolExecutor(max_workers=min(16, len(jobs))) as ex:
		results = list(ex.map(_walk_modules, jobs))
	traces = [t for chunk in results for t in chunk if t['events']]
	notes = [t['label'] for chunk in results for t in chunk if not t['events']]
	crashes = [(t['label'], e) for t in traces for e in t['events'] if e['name'] == 'crash']
	violations: list[Violation] = []
	for label, e in crashes:
		violations.append(Violation(f'walk-crash:{label.split(":")[1]}', 'OneResult/NeverUnderflow', f'{label}: identity walk raised {e["error"]}'))
		# the crash line itself is not a spec event: cut the trace there
	for t in traces:
		t['events'] = [e for e in t['events'] if e['name'] != 'crash']
	n_events = sum(len(t['events']) for t in traces)
	ctx.log(f'recorded {len(traces)} traces, {n_events} events ({sum(1 for t in traces if t["label"].startswith("B:"))} from the repository\'s own walkers)')
	v, tres = validate(ctx, traces)
	violations += v
	ctx.log(f'trace validation: {tres.distinct} states')

	sample = traces[-1] if traces else {'events': [], 'legend': []}
	coverage = {
		'states': res.distinct,
		'transitions': res.generated,
		'traces_validated_against_impl': len(traces),
		'trace_events_validated': n_events,
		'trace_states': tres.distinct,
		'nodes_in_validated_trees': sum(len(t['tree']) for t in traces),
		'modules_walked': modules,
		'walker_traces': sum(1 for t in traces if t['label'].startswith('B:')),
		'nested_runs_recorded': sum(1 for t in traces for e in t['events'] if (e['name'] == 'event' and e.get('outcome') == 'nest') or e['name'] == 'nestmore' or (e['name'] == 'begin' and e.get('nested'))),
		'failing_handlers_recorded': sum(1 for t in traces for e in t['events'] if e['name'] == 'event' and e.get('outcome') == 'fail'),
		'transpile_errors_while_recording': notes,
		'exhaustive': True,
		'bounds': {'tree_nodes': 3 if quick else 4, 'props_per_node': 3 if quick else 2, 'nested_runs': 2, 'failures': 1, 'top_level_runs': 2},
		'samples': [{'label': traces[0]['label'], 'events_head': traces[0]['events'][:5], 'legend_head': traces[0]['legend'][:5]}] if traces else [],
		'action_coverage': cov,
	}
	assumptions = [
		'tree headers come from the node API (prop_keys / property values), kind = type of the returned value',
		'dialect B reads Procedure private state (_Procedure__stacks, __put_log_action); a rename is a machinery failure',
		'identity results: a handler result is the node itself, so received values identify children exactly',
	]
	return finish(ctx, LEVEL, coverage, violations, assumptions)
