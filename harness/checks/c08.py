"""C08 — consistent renaming of user identifiers commutes with transpilation (spec/PyScope.tla).

TLC computes, on a scope tree with 34 binders and 32 references, every identifier assignment that merges a pair
of binders without changing what any reference denotes under Python's LEGB rule (the shadowing patterns),
proves that resolution depends on slot equality only (BindsBySlotOnly), and renders the program under seven
namings (adversarial pools: prefixes of one another, double underscores, node-classification words, very
different lengths, trailing digits, reversed order). For every assignment, the output under each naming must be
the output under the base naming with that renaming applied token-wise; the same for the symbol-table keys and
the inferred types of all declarations.
"""
import json
import re
from concurrent.futures import ProcessPoolExecutor

from harness import compat  # noqa: F401
from harness import tlc
from harness.core import Ctx, Machinery, Violation, finish

LEVEL = 'model_checking'
WORD = re.compile(r'[A-Za-z_][A-Za-z0-9_]*')


def rename(text: str, mapping: dict[str, str]) -> str:
	return WORD.sub(lambda m: mapping.get(m.group(0), m.group(0)), text)


def _check_groups(groups: list[list[dict]]) -> dict:
	import rogw.tranp.syntax.node.definition as defs
	from harness.tranp_env import Env, enter_scratch
	from rogw.tranp.semantics.reflection.db import SymbolDB
	enter_scratch('verif-c08-')
	failures = []
	compared = 0

	def observe(text: str) -> dict:
		env = Env()
		out = env.transpile_source(text)
		db = env.get(SymbolDB)
		keys = sorted(k for k in db.keys() if k.startswith('__main__'))
		types = {}
		for node in env.load('__main__').entrypoint.procedural():
			if isinstance(node, defs.Declable):
				try:
					types[node.fullyname] = env.reflections.type_of(node).pretty
				except Exception as e:
					types[node.fullyname] = f'!{type(e).__name__}'
		return {'out': out.partition('\n')[2], 'keys': keys, 'types': types}

	for group in groups:
		base = next(c for c in group if c['pool'] == 'base')
		try:
			obs0 = observe(base['text'])
		except Exception as e:
			failures.append({'clause': 'accepted', 'detail': f'base naming rejected: {type(e).__name__}: {str(e)[:160]}', 'case': base, 'kind': f'base:{_merged(base)}'})
			continue
		for case in group:
			if case['pool'] == 'base':
				continue
			if any(case['names'].get(b) in ('name', 'value') for b in ('m4', 'm5')):
				continue  # `name` and `value` are the enum's own attributes: not fresh names for a member (C08 excludes reserved words)
			mapping = {base['names'][b]: case['names'][b] for b in base['names']}
			compared += 1
			try:
				obs = observe(case['text'])
			except Exception as e:
				failures.append({'clause': 'accepted', 'detail': f'naming {case["pool"]} rejected while the base naming is accepted: {type(e).__name__}: {str(e)[:160]}', 'case': case, 'kind': f'{case["pool"]}:{_merged(case)}'})
				continue
			want_out = rename(obs0['out'], mapping)
			if obs['out'] != want_out:
				a, b = obs['out'].splitlines(), want_out.splitlines()
				k = next((i for i, (x, y) in enumerate(zip(a, b)) if x != y), min(len(a), len(b)))
				failures.append({'clause': 'OutputCommutes', 'detail': f'pool {case["pool"]}, merged {_merged(case)}: line {k + 1}: {a[k] if k < len(a) else "<missing>"!r} vs renamed base {b[k] if k < len(b) else "<missing>"!r}', 'case': case, 'kind': f'{case["pool"]}:{_merged(case)}'})
				continue
			want_keys = sorted(rename(k, mapping) for k in obs0['keys'])
			if obs['keys'] != want_keys:
				diff = sorted(set(obs['keys']) ^ set(want_keys))[:4]
				failures.append({'clause': 'SymbolKeysCommute', 'detail': f'pool {case["pool"]}, merged {_merged(case)}: symbol keys differ from the renamed base keys: {diff}', 'case': case, 'kind': f'{case["pool"]}:{_merged(case)}'})
				continue
			want_types = {rename(k, mapping): rename(v, mapping) for k, v in obs0['types'].items()}
			if obs['types'] != want_types:
				k = next(k for k in set(obs['types']) | set(want_types) if obs['types'].get(k) != want_types.get(k))
				failures.append({'clause': 'TypesCommute', 'detail': f'pool {case["pool"]}, merged {_merged(case)}: type of {k}: {obs["types"].get(k)} vs renamed base {want_types.get(k)}', 'case': case, 'kind': f'{case["pool"]}:{_merged(case)}'})
	return {'failures': failures, 'compared': compared}


def _merged(case: dict) -> str:
	return '+'.join('='.join(p) for p in case['merged']) or 'injective'


def run(ctx: Ctx) -> int:
	quick = ctx.quick
	res = tlc.run('PyScopeEmit', 'PyScope.cfg', workers=1, timeout=1200, heap='8g')
	if res.rc != 0:
		raise Machinery(f'PyScope: a model-level fact fails (PoolsInjective / Valid(Injective) / BindsBySlotOnly): {res.out[-800:]}')
	cases = [json.loads(line) for line in res.lines('CASE ')]
	tokens = json.loads(res.lines('TOKENS ')[0])
	order = json.loads(res.lines('ORDER ')[0])
	for c in cases:
		# the merged pairs of an assignment (PyScope.MergedPair): binders that share a slot, earlier binder first
		c['merged'] = [[b1, b2] for i, b1 in enumerate(order) for b2 in order[i + 1:] if c['pattern'][b1] == c['pattern'][b2]]
	for c in cases:
		c['text'] = ''.join(t['s'] if t['k'] == 't' else c['names'][t['s']] for t in tokens)
	for full in (json.loads(line) for line in res.lines('FULL ')):
		mine = next(c for c in cases if c['pool'] == full['pool'] and not c['merged'])
		if mine['text'] != full['text']:
			raise Machinery(f'the harness substitution and PyScope.Text disagree for pool {full["pool"]}')
	info = res.lines('ASSIGNMENTS ')
	by_pattern: dict[str, list] = {}
	for c in cases:
		# the pattern as a partition of the binders (merging b2 into b1 or b1 into b2 is the same shadowing pattern)
		classes: dict[str, list] = {}
		for b, slot in c['pattern'].items():
			classes.setdefault(slot, []).append(b)
		by_pattern.setdefault(json.dumps(sorted(sorted(v) for v in classes.values())), []).append(c)
	groups = []
	for key, cs in sorted(by_pattern.items()):
		seen, uniq = set(), []
		for c in cs:
			if (c['pool'], c['text']) not in seen:
				seen.add((c['pool'], c['text']))
				uniq.append(c)
		# keep one representative per pool (the two merge directions give different but equivalent slot choices)
		one = {}
		for c in uniq:
			one.setdefault(c['pool'], c)
		groups.append(list(one.values()))
	if quick:
		groups = groups[::7] + [g for g in groups if not g[0]['merged']]
	ctx.log(f'TLC: {info[0] if info else "?"} valid identifier assignments; {len(groups)} shadowing patterns x {len(groups[0]) - 1 if groups else 0} adversarial namings to compare')
	nproc = 16
	with ProcessPoolExecutor(max_workers=nproc) as ex:
		results = list(ex.map(_check_groups, [groups[i::nproc] for i in range(nproc)]))
	failures = [f for r in results for f in r['failures']]
	compared = sum(r['compared'] for r in results)
	ctx.log(f'{compared} renamed programs compared with the renamed base output: {len(failures)} deviate')
	grouped: dict[str, list] = {}
	for f in failures:
		grouped.setdefault(f'{f["clause"]}:{f["kind"]}', []).append(f)
	violations = []
	for key, fs in sorted(grouped.items())[:40]:
		s = fs[0]
		violations.append(Violation(key, s['clause'], s['detail'], {'text': s['case']['text'], 'names': s['case']['names']}))
	coverage = {
		'states': len(cases),
		'transitions': compared,
		'traces_validated_against_impl': compared,
		'valid_assignments': info[0] if info else '',
		'shadowing_patterns': len(groups),
		'namings_per_pattern': len(groups[0]) - 1 if groups else 0,
		'programs_compared': compared,
		'exhaustive': True,
		'samples': [{'merged': groups[5][0]['merged'], 'pool': groups[5][1]['pool'], 'text_head': groups[5][1]['text'][:200]}],
	}
	assumptions = ['renaming of the C++ text is token-wise (maximal identifier tokens); base names zqa..zqs occur nowhere else in the output', 'one program skeleton (function with closure, class with field / constructor / method with comprehension, function with lambda)']
	return finish(ctx, LEVEL, coverage, violations, assumptions)
