"""C15 — the stored form of a syntax tree restores an identical tree.

The law Loads(Dumps(T)) = T is stated on the tree vocabulary of spec/TreePath.tla (names, token values, child
order, empty placeholders); the source model (spec/PyStmt.tla OptionalSlots, statement skeletons; spec/PySrc.tla
expressions) supplies which trees occur - in particular every grammar alternative with an empty optional slot.
For every case and for real modules:
  (1) fresh parse T vs R = loads(json(dumps(T))): compared entry by entry (name, token value, emptiness, child
      order, source span);
  (2) the node trees built from T and from R: same paths, node classes, tokens, spans;
  (3) through the real cache: a second application that loads the tree from the cache file the first one wrote
      gives the same node tree and the same transpiled text.
"""
import json
import os
from concurrent.futures import ProcessPoolExecutor

from harness import compat  # noqa: F401
from harness.core import Ctx, Machinery, Violation, finish

LEVEL = 'exploration'
# token types of lark's python grammar that tranp's node model has no class for (binary / octal / imaginary literals)
OUTSIDE_SUBSET_TERMINALS: set[str] = set()


def terminal_names(entry) -> set[str]:
	"""names of the token entries of a tree"""
	if entry.is_terminal:
		return {entry.name}
	res: set[str] = set()
	if entry.has_child:
		for child in entry.children:
			res |= terminal_names(child)
	return res


def kept_terminals() -> set[str]:
	"""the token types the grammar can leave in a tree: terminals lark does not filter out, and every terminal of a rule that keeps all its tokens"""
	from harness.tranp_env import Env, enter_scratch
	from rogw.tranp.syntax.ast.parser import SyntaxParser
	enter_scratch('verif-c15-')
	lk = Env().get(SyntaxParser).dirty_get_origin()
	kept = set()
	for r in lk.rules:
		for sym in r.expansion:
			if sym.is_term and (r.options.keep_all_tokens or not getattr(sym, 'filter_out', False)):
				kept.add(str(sym.name))
	return kept


def compare_entries(a, b, path: str, out: list) -> int:
	"""Entry-by-entry comparison through the Entry API; returns the number of entries compared"""
	n = 1
	if a.name != b.name:
		out.append(f'{path}: name {a.name!r} vs restored {b.name!r}')
		return n
	if a.is_empty != b.is_empty or a.is_terminal != b.is_terminal or a.has_child != b.has_child:
		out.append(f'{path}: kind differs (empty/terminal/has_child) {a.is_empty, a.is_terminal, a.has_child} vs {b.is_empty, b.is_terminal, b.has_child}')
		return n
	if a.value != b.value:
		out.append(f'{path}: value {a.value!r} vs restored {b.value!r}')
	if tuple(a.source_map['begin']) != tuple(b.source_map['begin']) or tuple(a.source_map['end']) != tuple(b.source_map['end']):
		out.append(f'{path}: span {a.source_map} vs restored {b.source_map}')
	if a.has_child:
		ca, cb = a.children, b.children
		if len(ca) != len(cb):
			out.append(f'{path}: {len(ca)} children vs restored {len(cb)}')
			return n
		for i, (x, y) in enumerate(zip(ca, cb)):
			n += compare_entries(x, y, f'{path}.{x.name}[{i}]', out)
	return n


def node_table(entrypoint) -> dict[str, tuple]:
	table = {}
	for node in [entrypoint, *entrypoint.procedural()]:
		sm = node.source_map
		table[node.full_path] = (type(node).__name__, node.tokens, tuple(sm['begin']), tuple(sm['end']))
	return table


def _check_programs(args) -> dict:
	programs, = args
	from harness.checks.c16 import _roundtrip_env
	from harness.tranp_env import Env, enter_scratch
	from rogw.tranp.implements.syntax.lark.entry import EntryOfLark, Serialization
	from rogw.tranp.syntax.ast.parser import SyntaxParser
	root = enter_scratch('verif-c15-')
	failures = []
	skipped = []
	entries = 0
	nodes = 0
	terminals: set[str] = set()
	for label, program in programs:
		try:
			env = Env(sources={'vm_case': program})
			parser = env.get(SyntaxParser)
			try:
				fresh = parser('vm_case')
			except Exception as e:
				from rogw.tranp.errors import Errors
				if isinstance(e, Errors.Syntax):
					skipped.append(label)  # outside tranp's grammar: there is no tree to store
					continue
				raise
			terminals |= terminal_names(fresh)
			# through the store wrappers the cache uses (bytes written by save, read back by load) ...
			import io
			from rogw.tranp.implements.syntax.lark.parser import EntryStored
			stream = io.BytesIO()
			EntryStored(fresh).save(stream)
			stream.seek(0)
			restored = EntryStored.load(stream).entry
			# ... and through the bare encoding: both must give the tree back
			data = json.loads(json.dumps(Serialization.dumps(fresh.source), separators=(',', ':')))
			bare = EntryOfLark(Serialization.loads(data))
			bare_diffs: list[str] = []
			compare_entries(fresh, bare, fresh.name, bare_diffs)
			if bare_diffs:
				failures.append({'clause': 'EntriesIdentical', 'detail': f'{label}: (encoding alone) {bare_diffs[0]} ({len(bare_diffs)} differences)', 'text': program, 'kind': bare_diffs[0].split(':')[1].strip().split(' ')[0]})
				continue
			diffs: list[str] = []
			entries += compare_entries(fresh, restored, fresh.name, diffs)
			if diffs:
				failures.append({'clause': 'EntriesIdentical', 'detail': f'{label}: {diffs[0]} ({len(diffs)} differences)', 'text': program, 'kind': diffs[0].split(':')[1].strip().split(' ')[0]})
				continue
			try:
				t1 = node_table(env.load('vm_case').entrypoint)
			except Exception as e:
				continue  # the case is not a loadable module (unknown names): entry comparison is what counts
			env2 = _roundtrip_env(program, root, 'vm_case')
			t2 = node_table(env2.load('vm_case').entrypoint)
			nodes += len(t1)
			if t1 != t2:
				key = next(k for k in set(t1) | set(t2) if t1.get(k) != t2.get(k))
				failures.append({'clause': 'NodesIdentical', 'detail': f'{label}: node {key}: fresh {t1.get(key)} vs restored {t2.get(key)}', 'text': program, 'kind': (t1.get(key) or t2.get(key))[0]})
		except Exception as e:
			failures.append({'clause': f'crash:{type(e).__name__}', 'detail': f'{label}: {type(e).__name__}: {str(e)[:160]}', 'text': program, 'kind': 'crash'})
	return {'failures': failures, 'entries': entries, 'nodes': nodes, 'skipped': skipped, 'terminals': sorted(terminals)}


def _check_real(module_path: str) -> dict:
	"""Fresh parse vs the tree a second application restores from the real cache file"""
	from harness.tranp_env import Env, enter_scratch
	from rogw.tranp.syntax.ast.parser import SyntaxParser
	root = enter_scratch('verif-c15r-')
	cache_dir = os.path.join(root, 'cache')
	failures = []
	try:
		env1 = Env(cache_dir=cache_dir, cache_enabled=True)
		fresh = env1.get(SyntaxParser)(module_path)
		text1 = env1.transpile(module_path)
		t1 = node_table(env1.load(module_path).entrypoint)
		files_before = sorted(os.listdir(os.path.join(cache_dir, *module_path.split('.')[:-1]))) if '.' in module_path else sorted(os.listdir(cache_dir))
		env2 = Env(cache_dir=cache_dir, cache_enabled=True)
		restored = env2.get(SyntaxParser)(module_path)
		diffs: list[str] = []
		n = compare_entries(fresh, restored, fresh.name, diffs)
		if diffs:
			failures.append({'clause': 'EntriesIdentical', 'detail': f'{module_path} via cache file: {diffs[0]} ({len(diffs)} differences)', 'text': module_path, 'kind': 'cache-file'})
		t2 = node_table(env2.load(module_path).entrypoint)
		if t1 != t2:
			key = next(k for k in set(t1) | set(t2) if t1.get(k) != t2.get(k))
			failures.append({'clause': 'NodesIdentical', 'detail': f'{module_path} via cache file: node {key}: {t1.get(key)} vs {t2.get(key)}', 'text': module_path, 'kind': 'cache-file'})
		text2 = env2.transpile(module_path)
		if text1 != text2:
			failures.append({'clause': 'NodesIdentical', 'detail': f'{module_path}: transpiled text differs between fresh parse and cache-restored tree', 'text': module_path, 'kind': 'cache-file-text'})
		return {'failures': failures, 'entries': n, 'nodes': len(t1), 'cache_files': len(files_before)}
	except Exception as e:
		return {'failures': [{'clause': f'crash:{type(e).__name__}', 'detail': f'{module_path}: {type(e).__name__}: {str(e)[:160]}', 'text': module_path, 'kind': 'crash'}], 'entries': 0, 'nodes': 0, 'cache_files': 0}


def run(ctx: Ctx) -> int:
	from harness import srcmodel
	quick = ctx.quick
	stmts, defcases = srcmodel.load_stmt_cases()
	slots = srcmodel.SLOT_CASES
	if not slots:
		raise Machinery('no OptionalSlots cases emitted')
	cases, _ = srcmodel.load_cases(2)
	programs = [(f'slot:{c["id"]}', c['text']) for c in slots]
	programs += [(f'def:{c["id"]}', c['text']) for c in defcases]
	step = 6 if quick else 1
	programs += [(f'stmt:{i}', c['text']) for i, c in enumerate(stmts[::step])]
	programs += [(f'expr-batch:{i}', srcmodel.program_of(cases[i:i + 60], i)) for i in range(0, len(cases), 60)]
	# the layout axis: the programs of spec/TokLayout.tla under every layout reachable by two rewrites (comment lines,
	# trailing comments and blanks, blanks on blank lines, CRLF, missing final line break, indent units) - comments
	# and line ends are tokens of the tree too
	from harness import tlc
	lay = tlc.run('TokLayout', 'TokLayout_emit_2_2.cfg', workers=1, timeout=1200, heap='8g')
	layouts = sorted({json.loads(line)['text'] for line in lay.lines('CASE ')})
	if len(layouts) < 5000:
		raise Machinery(f'TokLayout emitted {len(layouts)} texts only')
	programs += [(f'layout:{i}', t) for i, t in enumerate(layouts[::(12 if quick else 1)])]
	# one small program per token type that the programs above do not contain (see the vacuity guard below)
	programs += [(f'terminal:{i}', t) for i, t in enumerate([
		'a = 1\na *= 2\na @= 2\na /= 2\na %= 2\na &= 2\na |= 2\na ^= 2\na <<= 2\na >>= 2\na **= 2\na //= 2\n',
		'b = 1 in [1]\nc = b is None\nd = b is not None\ne = 1 not in [2]\n',
		'f = 1 <> 2\n',
		'g = 6 / 3\n',
		'h = 0x1F + 0XaB + 0x_ff\n',
		'match = 1\ncase = 2\nn = match + case\n',
		'def k(match: str, case: int) -> str:\n\treturn match\n',
		'o = p.match(q).case\n',
		"from typing import ParamSpec, TypeVar, TypeVarTuple\n\nT = TypeVar('T')\nP = ParamSpec('P')\nTs = TypeVarTuple('Ts')\n",
		# tokens that span lines, in a file with LF and with CRLF line ends; line ends spelled as escapes inside a literal
		'"""Summary\n\nmore\n"""\n\nx = 1\n',
		'"""Summary\r\n\r\nmore\r\n"""\r\n\r\nx = 1\r\n',
		'def f() -> str:\r\n\t"""doc\r\n\tmore"""\r\n\treturn \'a\\r\\n\'\r\n',
		"s = \'\'\'with \\r\n\ton\'\'\'\n" if False else 's = """with \\r\n\ton"""\n',
		"t = 'a\\r\\nb' + 'c\\n'\n",
		'i = 0b101\n',
		'j = 0o17\n',
		'z = 2j\n',
	])]
	nproc = 16
	from harness import real_modules
	modules = real_modules.QUICK if quick else real_modules.TRANSPILE_OK
	with ProcessPoolExecutor(max_workers=nproc) as ex:
		r1 = list(ex.map(_check_programs, [(programs[i::nproc],) for i in range(nproc)]))
		r2 = list(ex.map(_check_real, modules))
	# vacuity guard: every token type the grammar can leave in a tree occurs in some program (a token type that never
	# occurs is never stored and restored)
	seen_terminals = {t for r in r1 for t in r.get('terminals', [])}
	missing_terminals = sorted(kept_terminals() - seen_terminals - OUTSIDE_SUBSET_TERMINALS)
	if missing_terminals:
		raise Machinery(f'no program holds a token of type {missing_terminals}')
	failures = [f for r in r1 + r2 for f in r['failures']]
	entries = sum(r['entries'] for r in r1 + r2)
	nodes = sum(r['nodes'] for r in r1 + r2)
	ctx.log(f'{len(programs)} model programs + {len(modules)} real modules: {entries} entries and {nodes} nodes compared between fresh and restored trees: {len(failures)} differences')
	groups: dict[str, list] = {}
	for f in failures:
		groups.setdefault(f'{f["clause"]}:{f["kind"]}', []).append(f)
	violations = []
	for key, fs in sorted(groups.items()):
		s = min(fs, key=lambda f: len(f['text']))
		violations.append(Violation(key, s['clause'], f'{s["detail"]} ({len(fs)} cases)', {'text': s['text']}))
	coverage = {
		'evaluations': len(programs) + len(modules),
		'distinct_nontrivial': len({p for _, p in programs}) + len(modules),
		'rule': 'cases = OptionalSlots + definition shapes + statement skeletons + expression batches enumerated by TLC from spec/PyStmt.tla / spec/PySrc.tla, plus real modules through real cache files; distinct = distinct program texts; every case has at least one compound node, so none is trivial',
		'samples': [programs[3][1], programs[len(slots) + 2][1]],
		'entries_compared': entries,
		'nodes_compared': nodes,
		'real_modules_via_cache_file': modules,
		'cases_outside_tranp_grammar': sorted(x for r in r1 for x in r.get('skipped', [])),
	}
	assumptions = ['entry comparison goes through the Entry API (name, value, is_empty, children, source_map)']
	return finish(ctx, LEVEL, coverage, violations, assumptions)
