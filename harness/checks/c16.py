"""C16 — a node's source span covers exactly the node's own text (spec/PySrc.tla spans + quotation, spec/PyStmt.tla).

1. TLC checks the model-level facts over the whole expression universe: every node's interval lies inside its
   parent's, siblings do not overlap, the interval length is the length of the node's own text
   (ChildInsideParent), and defines the error quotation (line + caret range) of every node.
2. spec -> code: for every expression case the span tranp records for the node paired with each model node must
   equal the model's interval; the text sliced from the source by the span must be the model node's text; the
   line and caret range ErrorRender prints for an error on that node must be the model's quotation - for a fresh
   parse and for a tree restored from the cache encoding. Statement skeletons: one statement per line, so every
   statement node must begin on the line the model assigns and children lie inside parents.
3. real modules: for every node of real modules: child span inside parent span, the node's tokens occur in
   order in the sliced text, the slice neither starts nor ends with white space.
"""
import json
import os
from concurrent.futures import ProcessPoolExecutor

from harness import compat  # noqa: F401
from harness import tlc
from harness.core import Ctx, Machinery, Violation, finish

LEVEL = 'model_checking'
BATCH = 100
PREFIX = len('\treturn ')


def _guard(fn, args) -> dict:
	try:
		return fn(args)
	except Machinery:
		raise
	except Exception as e:
		import traceback
		tb = traceback.extract_tb(e.__traceback__)
		where = next((f'{os.path.basename(fr.filename)}:{fr.lineno}:{fr.name}' for fr in reversed(tb)), '?')
		return {'failures': [{'clause': f'crash:{type(e).__name__}', 'detail': f'{type(e).__name__} at {where}: {str(e)[:200]}', 'text': str(args)[:80], 'kind': fn.__name__}], 'nodes': 0}


def slice_source(lines: list[str], sm: dict) -> str:
	"""Text addressed by a source map (1-based line/column, end exclusive)"""
	(bl, bc), (el, ec) = sm['begin'], sm['end']
	lines = lines + ['', '']  # a span may end on the (empty) line after the last one
	if bl < 1 or el < bl or el > len(lines):
		return f'<span out of range {sm["begin"]}..{sm["end"]}>'
	if bl == el:
		return lines[bl - 1][bc - 1:ec - 1]
	parts = [lines[bl - 1][bc - 1:]] + lines[bl:el - 1] + [lines[el - 1][:ec - 1]]
	return '\n'.join(parts)


def _roundtrip_env(program: str, root: str, name: str):
	"""The same program loaded from a tree that went through the cache encoding (dumps -> json -> loads)."""
	import json
	import lark
	from rogw.tranp.implements.syntax.lark.entry import EntryOfLark, Serialization
	from rogw.tranp.lang.module import to_fullyname
	from rogw.tranp.syntax.ast.parser import SyntaxParser
	from harness.tranp_env import Env
	base = Env(sources={name: program})
	parser = base.get(SyntaxParser)

	def restoring_parser(module_path: str):
		entry = parser(module_path)
		if module_path != name:
			return entry
		data = json.loads(json.dumps(Serialization.dumps(entry.source), separators=(',', ':')))
		return EntryOfLark(Serialization.loads(data))

	return Env(sources={name: program}, extra={to_fullyname(SyntaxParser): lambda: restoring_parser})


def _check_batch(args) -> dict:
	return _guard(_check_batch_impl, args)


def _check_batch_impl(args) -> dict:
	cases, first = args
	from harness import srcmodel
	from harness.tranp_env import Env, enter_scratch
	from rogw.tranp.errors import Errors
	from rogw.tranp.view.error_render import ErrorRender
	root = enter_scratch('verif-c16-')
	failures = []
	program = srcmodel.program_of(cases, first)
	os.makedirs('vm', exist_ok=True)
	with open('vm/spans.py', 'w') as f:
		f.write(program)
	lines = program.split('\n')
	nodes_checked = 0
	fresh_table = None
	for variant in ('fresh', 'restored'):
		try:
			if variant == 'fresh':
				env = Env()
				module = env.load('vm.spans')
			else:
				env = _roundtrip_env(program, root, 'vm.spans2')
				module = env.load('vm.spans2')
			funcs = srcmodel.function_nodes(module.entrypoint)
		except Exception as e:
			failures.append({'clause': f'accepted:{variant}', 'detail': f'{type(e).__name__}: {str(e)[:200]}', 'text': cases[0]['text'], 'kind': 'batch'})
			continue
		# every node of the restored tree carries the span of the fresh tree
		table = {n.full_path: (tuple(n.source_map['begin']), tuple(n.source_map['end'])) for n in [module.entrypoint, *module.entrypoint.procedural()]}
		if variant == 'fresh':
			fresh_table = table
		elif fresh_table is not None and table != fresh_table:
			keys = [k for k in fresh_table if table.get(k) != fresh_table[k]]
			failures.append({'clause': 'RestoredSpanEqualsFresh', 'detail': f'{len(keys)} nodes change their span when the tree goes through the cache encoding, e.g. {keys[0]}: fresh {fresh_table[keys[0]]} vs restored {table.get(keys[0])}', 'text': cases[0]['text'], 'kind': keys[0].split('.')[-1].split('[')[0]})
		for case, fn in zip(cases, funcs):
			ret = fn.statements[0]
			line_no = ret.source_map['begin'][0]
			if srcmodel.canon_tranp(ret.return_value) != srcmodel.canon_model(case['ast']):
				continue  # grouping differs: C02's business; no pairing possible
			chain_heads = set()
			for model, node in srcmodel.pairs(case['ast'], ret.return_value):
				nodes_checked += 1
				sm = node.source_map
				want = {'begin': (line_no, PREFIX + model['b'] + 1), 'end': (line_no, PREFIX + model['e'] + 1)}
				kind = f'{model["k"]}:{variant}'
				if (tuple(sm['begin']), tuple(sm['end'])) != (want['begin'], want['end']):
					failures.append({'clause': 'SpanExact', 'detail': f'{case["text"]!r} node {model["s"]!r}: span {sm["begin"]}..{sm["end"]}, text is at {want["begin"]}..{want["end"]}', 'text': case['text'], 'kind': kind})
					continue
				if slice_source(lines, sm) != model['s']:
					failures.append({'clause': 'SliceIsNodeText', 'detail': f'{case["text"]!r}: slice {slice_source(lines, sm)!r} vs node text {model["s"]!r}', 'text': case['text'], 'kind': kind})
				if variant == 'fresh':
					# quotation: on-disk module, error carrying the node
					try:
						raise Errors.OperationNotAllowed(node, 'verif')
					except Errors.OperationNotAllowed as raised:
						rendered = str(ErrorRender(raised))
					qlines = rendered.split('\n')
					try:
						at = next(i for i, ln in enumerate(qlines) if ln.startswith('via Node:'))
						shown_line = qlines[at + 2][len('    >>> '):]
						mark = qlines[at + 3][len('        '):]
						loc = qlines[at + 1].strip()
					except (StopIteration, IndexError):
						failures.append({'clause': 'Quotation', 'detail': f'{case["text"]!r}: no quotation rendered for node {model["s"]!r}', 'text': case['text'], 'kind': kind})
						continue
					if shown_line != case['line'] or mark != model['q'] or not loc.endswith(f':{line_no}'):
						failures.append({'clause': 'Quotation', 'detail': f'{case["text"]!r} node {model["s"]!r}: quoted {shown_line!r} / {mark!r} at {loc}, expected {case["line"]!r} / {model["q"]!r} line {line_no}', 'text': case['text'], 'kind': kind})
	return {'failures': failures, 'nodes': nodes_checked}


def mark_range(bl: int, bc: int, el: int, ec: int, linelen: int) -> tuple[int, int]:
	"""spec/PySrc.tla MarkRange (0-based columns)"""
	hi = ec if bl == el else linelen
	return bc, (bc + 1 if hi - bc < 1 else hi)


def _check_wrapped(args) -> dict:
	return _guard(_check_wrapped_impl, args)


def _check_wrapped_impl(args) -> dict:
	"""nodes that span several lines (wrapped operands, calls, dict literals, doc strings): the quotation ErrorRender prints
	for EVERY node of the module must follow MarkRange on the span the node records"""
	cases, first = args
	from harness import srcmodel
	from harness.tranp_env import Env, enter_scratch
	from rogw.tranp.errors import Errors
	from rogw.tranp.view.error_render import ErrorRender
	enter_scratch('verif-c16w-')
	failures, nodes = [], 0
	# two generations of one file path in one process: the quotation shows the file as it is NOW
	for generation, ordered in enumerate((cases, list(reversed(cases)))):
		parts = ['# second generation of the same path', ''] if generation else []
		for i, c in enumerate(ordered):
			a = c['ast']
			l, r, op = a['l']['s'], a['r']['s'], a['op']
			parts.append(f'def w{first + i}({srcmodel.PARAMS}) -> {c["type"]}:\n\t"""doc {i}\n\tsecond line"""\n\tv = ({l} {op}\n\t\t\t{r})\n\tu = max({l},\n\t\t{r})\n\tdd = {{\n\t\t\'k\': {l},\n\t}}\n\treturn ({l} {op}\n\t\t{r})\n')
		program = '\n'.join(parts)
		os.makedirs('vm', exist_ok=True)
		with open('vm/wrapped.py', 'w') as f:
			f.write(program)
		lines = program.split('\n')
		module = Env().load('vm.wrapped')
		failures += _tree_laws(module.entrypoint, lines, 'wrapped layouts')
		for node in module.entrypoint.procedural():
			sm = node.source_map
			(bl, bc), (el, ec) = sm['begin'], sm['end']
			if (bl, bc, el, ec) == (0, 0, 0, 0) or type(node).__name__ in ('Empty', 'Proxy'):
				continue
			nodes += 1
			try:
				raise Errors.OperationNotAllowed(node, 'verif')
			except Errors.OperationNotAllowed as raised:
				qlines = str(ErrorRender(raised)).split('\n')
			try:
				at = next(k for k, ln in enumerate(qlines) if ln.startswith('via Node:'))
				loc, shown, mark = qlines[at + 1].strip(), qlines[at + 2][len('    >>> '):], qlines[at + 3][len('        '):]
			except (StopIteration, IndexError):
				failures.append({'clause': 'Quotation', 'detail': f'no quotation rendered for {type(node).__name__} at {sm}', 'text': 'wrapped layouts', 'kind': f'{type(node).__name__}:multi-line'})
				continue
			line = lines[bl - 1].replace('\t', ' ')
			lo, hi = mark_range(bl, bc - 1, el, ec - 1, len(line))
			want = ' ' * lo + '^' * (hi - lo)
			if shown != line or mark != want or not loc.endswith(f':{bl}'):
				shape = 'one-line' if bl == el else ('multi-line:end-right-of-begin' if ec > bc else 'multi-line:end-left-of-begin')
				failures.append({'clause': 'Quotation', 'detail': f'{type(node).__name__} spanning ({bl},{bc})..({el},{ec}): quoted {shown!r} / {mark!r} at {loc}; the rule gives {line!r} / {want!r} line {bl}', 'text': 'wrapped layouts', 'kind': f'{shape}' + (':file-rewritten' if generation else '')})
	return {'failures': failures, 'nodes': nodes}


def own_quotation(n: int, line: str, bc: int, ec: int) -> list[str]:
	"""PySrc.OwnQuotation (cross-checked with the table TLC evaluates)"""
	return [f'({n}) >>> {line}', ' ' * (len(str(n)) + 7 + bc) + '^' * max(1, ec - bc)]


def _check_own_quotation_lines(args) -> dict:
	return _guard(_check_own_quotation_lines_impl, args)


def _check_own_quotation_lines_impl(args) -> dict:
	"""a statement the own parser rejects, placed on line n: the summary ends in exactly the two lines of PySrc.OwnQuotation"""
	jobs, = args
	from harness import compat
	compat.patch_rules()
	from data.syntax.py_rules import py_rules
	from rogw.tranp.errors import Errors
	from rogw.tranp.implements.syntax.tranp.syntax import SyntaxParser
	from rogw.tranp.implements.syntax.tranp.tokenizer import Tokenizer
	rules = py_rules()
	failures, nodes = [], 0
	import ast as _ast
	import re
	for n, indent, stmt in jobs:
		# n - 1 filler lines; an indented statement needs its block opener on the line before
		lines = ['p = 0'] * (n - 1)
		if indent:
			lines[-1] = 'if p:'
		line = indent + stmt
		text = '\n'.join(lines + [line]) + '\nq = 0\n'
		try:
			SyntaxParser(rules, Tokenizer()).parse(text, 'entry')
			failures.append({'clause': 'OwnParserQuotation', 'detail': f'{line!r} on line {n} is accepted', 'text': text, 'kind': 'own-parser:accepted'})
			continue
		except Errors.Syntax as e:
			summary = str(e)
		# which token the parser blames is its own business (C11); it is spelled once in the statement, so its
		# columns are known by construction
		m = re.search(r"token: (.*)$", summary.split('\n')[0])
		token = _ast.literal_eval(m.group(1)) if m else None
		if token is None or line.count(token) != 1:
			failures.append({'clause': 'OwnParserQuotation', 'detail': f'{line!r} on line {n}: the summary names {summary.splitlines()[0]!r}, not a token of the offending line', 'text': text, 'kind': 'own-parser:token'})
			continue
		nodes += 1
		bc = line.index(token)
		want = own_quotation(n, line, bc, bc + len(token))
		got = summary.split('\n')[-2:]
		if got != want:
			failures.append({'clause': 'OwnParserQuotation', 'detail': f'{line!r} on line {n}: quotation {got} where the rule gives {want}', 'text': text, 'kind': f'own-parser:line-{len(str(n))}-digits'})
	return {'failures': failures, 'nodes': nodes}


def _check_own_parser_carets(args) -> dict:
	return _guard(_check_own_parser_carets_impl, args)


def _check_own_parser_carets_impl(args) -> dict:
	"""the own parser's error collector: the quoted line is the line of the cause token and the carets lie under exactly that token"""
	texts, = args
	import re
	from harness import compat
	compat.patch_rules()
	from data.syntax.py_rules import py_rules
	from rogw.tranp.errors import Errors
	from rogw.tranp.implements.syntax.tranp.syntax import SyntaxParser
	from rogw.tranp.implements.syntax.tranp.tokenizer import Tokenizer
	rules = py_rules()
	failures, nodes = [], 0
	for text in texts:
		try:
			SyntaxParser(rules, Tokenizer()).parse(text, 'entry')
			continue
		except Errors.Syntax as e:
			summary = str(e)
		except Exception:
			continue  # C07 / C11 territory
		m = re.search(r"token: (.*)\n\((\d+)\) >>> (.*)\n( +)(\^+)$", summary)
		if not m:
			continue
		import ast as _ast
		try:
			token = _ast.literal_eval(m.group(1))
		except Exception:
			continue
		line_no, quoted, pad, carets = int(m.group(2)), m.group(3), m.group(4), m.group(5)
		if token == '\\OP_UNARY_MINUS':
			token = '-'  # the lexer's name for a minus sign that touches its operand: on the line it is one character
		if token.startswith('\\') or '\n' in token or token == '':
			continue  # block markers and line breaks have no text of their own on the line
		nodes += 1
		begin = len(pad) - (len(str(line_no)) + 7)
		lines = text.split('\n')
		if not (1 <= line_no <= len(lines)) or lines[line_no - 1] != quoted:
			failures.append({'clause': 'OwnParserQuotation', 'detail': f'{text!r}: line {line_no} is quoted as {quoted!r}', 'text': text, 'kind': 'own-parser:line'})
		elif quoted[begin:begin + len(carets)] != token:
			failures.append({'clause': 'OwnParserQuotation', 'detail': f'{text!r}: the carets mark {quoted[begin:begin + len(carets)]!r} (columns {begin}..{begin + len(carets)}), the cause token is {token!r}', 'text': text, 'kind': 'own-parser:caret'})
	return {'failures': failures, 'nodes': nodes}


def _check_stmt_batch(args) -> dict:
	return _guard(_check_stmt_batch_impl, args)


def _check_stmt_batch_impl(args) -> dict:
	cases, first = args
	from harness import srcmodel
	from harness.tranp_env import Env, enter_scratch
	enter_scratch('verif-c16s-')
	failures = []
	program = '\n'.join(c['text'].replace('def f(', f'def f{first + i}(', 1) for i, c in enumerate(cases))
	lines = program.split('\n')
	nodes = 0
	try:
		env = Env()
		module = env.reload_main(program)
		funcs = srcmodel.function_nodes(module.entrypoint)
	except Exception as e:
		return {'failures': [{'clause': 'accepted', 'detail': f'{type(e).__name__}: {str(e)[:200]}', 'text': cases[0]['text'], 'kind': 'batch'}], 'nodes': 0}
	for case, fn in zip(cases, funcs):
		body = fn.statements[1]
		begin_line = body.source_map['begin'][0]
		fn_line = fn.source_map['begin'][0]
		# the model: `def` line, `x = 0`, then the statement's `lines` lines, then `return x`
		if begin_line != fn_line + 2:
			failures.append({'clause': 'StatementLine', 'detail': f'statement begins on line {begin_line}, model says {fn_line + 2}', 'text': case['text'], 'kind': case['canon']['k']})
		last = fn.statements[2].source_map['begin'][0]
		if last != fn_line + 2 + case['lines']:
			failures.append({'clause': 'StatementLine', 'detail': f'`return x` begins on line {last}, model says {fn_line + 2 + case["lines"]}', 'text': case['text'], 'kind': case['canon']['k']})
		failures += _tree_laws(fn, lines, case['text'])
		nodes += 1
	return {'failures': failures, 'nodes': nodes}


# node classes whose text is a Python expression on its own (operators, literals, references, calls, comprehensions, type
# annotations, declared names): the text a span of such a node cuts out must parse as one - a span that starts one token
# early or ends one late (a quote, `if`, `:`, `=`) does not.  (Not in the list: ImportAsName - `name as alias` is a clause of
# the import statement, not an expression.)
EXPRESSION_CLASSES = {
	'AltTypesName', 'AndBitwise', 'AndCompare', 'ArgumentLabel', 'CallableType', 'ClassRef', 'Comparison', 'CustomType', 'DeclClassParam',
	'DeclClassVar', 'DeclLocalVar', 'DeclParam', 'DeclThisParam', 'DeclThisVar', 'DeclThisVarForward', 'DecoratorPath', 'Dict', 'DictComp',
	'DictType', 'DocString', 'Elipsis', 'Factor', 'Falsy', 'Float', 'FuncCall', 'Group', 'Indexer', 'Integer', 'Lambda', 'List',
	'ListComp', 'ListType', 'LiteralDictType', 'LiteralType', 'NotCompare', 'Null', 'NullType', 'OrBitwise', 'OrCompare', 'Relay', 'RelayOfType',
	'ShiftBitwise', 'String', 'Sum', 'Super', 'Term', 'TernaryOperator', 'ThisRef', 'Truthy', 'Tuple', 'TypesName', 'UnionType', 'Var',
	'VarOfType', 'XorBitwise',
}


def _tree_laws(root_node, lines: list[str], label: str) -> list[dict]:
	"""child inside parent; node tokens occur in order in the slice; the slice has no surrounding white space"""
	import rogw.tranp.syntax.node.definition as defs
	failures = []

	def span(n):
		sm = n.source_map
		return tuple(sm['begin']), tuple(sm['end'])

	def visit(n, parent_span):
		b, e = span(n)
		if isinstance(n, defs.Empty) or type(n).__name__ == 'Proxy':
			return  # synthesised placeholder: no position of its own
		kind = type(n).__name__
		if not (b <= e):
			failures.append({'clause': 'SpanOrdered', 'detail': f'{kind} {n.full_path}: begin {b} after end {e}', 'text': label, 'kind': kind})
			return
		if parent_span and not (parent_span[0] <= b and e <= parent_span[1]):
			failures.append({'clause': 'ChildInsideParent', 'detail': f'{kind} {n.full_path}: span {b}..{e} outside parent {parent_span[0]}..{parent_span[1]}', 'text': label, 'kind': kind})
		text = slice_source(lines, n.source_map)
		if kind in EXPRESSION_CLASSES:
			import ast as _ast
			try:
				_ast.parse('(' + text + '\n)', mode='eval')
			except SyntaxError:
				failures.append({'clause': 'ExpressionSliceParses', 'detail': f'{kind} {n.full_path}: the text of its span {b}..{e} is {text[:40]!r}, not an expression', 'text': label, 'kind': kind})
		pos = 0
		squeezed = ''.join(text.split())
		for value in n._values():
			v = ''.join(value.split())
			found = squeezed.find(v, pos)
			if found == -1:
				failures.append({'clause': 'TokensInSlice', 'detail': f'{kind} {n.full_path}: token {value!r} not found (in order) in slice {text[:40]!r}', 'text': label, 'kind': kind})
				break
			pos = found + len(v)
		for key in n.prop_keys():
			value = getattr(n, key)
			if isinstance(value, list) and len(value) > 1:
				# the items of a list-valued property follow one another in the text
				starts = [tuple(c.source_map['begin']) for c in value if not isinstance(c, defs.Empty) and type(c).__name__ != 'Proxy' and tuple(c.source_map['begin']) != (0, 0)]
				if any(x > y for x, y in zip(starts, starts[1:])):
					failures.append({'clause': 'ListsInSourceOrder', 'detail': f'{kind} {n.full_path}: the items of `{key}` are not in text order: {starts[:4]}', 'text': label, 'kind': f'{kind}.{key}'})
			for child in (value if isinstance(value, list) else [value]):
				visit(child, (b, e))

	visit(root_node, None)
	return failures


def _real_module(module_path: str) -> dict:
	return _guard(_real_module_impl, module_path)


def _real_module_impl(module_path: str) -> dict:
	from harness.tranp_env import Env, enter_scratch, REPO
	from rogw.tranp.lang.module import module_path_to_filepath
	enter_scratch('verif-c16r-')
	if module_path == 'verif_sample':
		# the program that holds every node class with child properties (C09's sample): quoted forward references, comprehension filters, aliases, ...
		from harness.checks.c09 import SAMPLE_PROGRAM
		env = Env(sources={'verif_sample': SAMPLE_PROGRAM})
		module = env.load(module_path)
		lines = SAMPLE_PROGRAM.split('\n')
		failures = _tree_laws(module.entrypoint, lines, module_path)
		# ... and the same program from a tree that went through the cache encoding: every node keeps its span (the sample
		# has the trees without children - pass, break, None, True, [], `-> None` - that expressions alone do not)
		span_table = lambda entry: {n.full_path: (tuple(n.source_map['begin']), tuple(n.source_map['end'])) for n in [entry, *entry.procedural()]}
		fresh_table = span_table(module.entrypoint)
		restored = _roundtrip_env(SAMPLE_PROGRAM, os.getcwd(), 'verif_sample2').load('verif_sample2').entrypoint
		table = span_table(restored)
		if table != fresh_table:
			keys = [k for k in fresh_table if table.get(k) != fresh_table[k]]
			failures.append({'clause': 'RestoredSpanEqualsFresh', 'detail': f'{len(keys)} nodes of the sample program change their span when the tree goes through the cache encoding, e.g. {keys[0]}: fresh {fresh_table[keys[0]]} vs restored {table.get(keys[0])}', 'text': module_path, 'kind': keys[0].split('.')[-1].split('[')[0]})
		return {'failures': failures, 'nodes': len(module.entrypoint.procedural()) + 1}
	env = Env()
	module = env.load(module_path)
	path = os.path.join(REPO, module_path_to_filepath(module_path, '.py'))
	lines = open(path).read().split('\n')
	failures = _tree_laws(module.entrypoint, lines, module_path)
	n = len(module.entrypoint.procedural()) + 1
	return {'failures': failures, 'nodes': n}


def run(ctx: Ctx) -> int:
	from harness import srcmodel
	quick = ctx.quick
	cases = []
	for n in ([1, 2] if quick else [1, 2, 3]):
		cs, _ = srcmodel.load_cases(n)
		cases += cs
	if not quick:
		import random
		rnd = random.Random(ctx.seed)
		three = [c for c in cases if True]
		cases = cases[:568] + rnd.sample(cases[568:], min(3000, len(cases) - 568))
	stmts, _ = srcmodel.load_stmt_cases()
	ctx.log(f'TLC enumerated {len(cases)} expressions and {len(stmts)} statement skeletons (ChildInsideParent, OneStatementPerLine hold in the model)')
	with ProcessPoolExecutor(max_workers=16) as ex:
		r1 = list(ex.map(_check_batch, [(cases[i:i + BATCH], i) for i in range(0, len(cases), BATCH)]))
		r2 = list(ex.map(_check_stmt_batch, [(stmts[i:i + 60], i) for i in range(0, len(stmts), 60)]))
		binary = [c for c in cases if c['ast']['k'] in ('bin', 'cmp', 'bool')][:400 if quick else 2000]
		r4 = list(ex.map(_check_wrapped, [(binary[i:i + 40], i) for i in range(0, len(binary), 40)]))
		# texts the own parser rejects: a stray token inserted into / removed from valid statements, one or several lines, tab indents
		bad = []
		for c in cases[:200]:
			t = c['text']
			bad += [f'x = {t} )\n', f'x = = {t}\n', f'if a:\n\tx = {t} ]\n', f'if a:\n\ty = 1\n\tx = ( {t}\nz = 2\n', f'x = {t}\ny = 1 2\n']
		# cause tokens after a token that spans lines, after comments, after non-ASCII text
		bad += [
			'x = """a\nb""" )\n', 's = """a\nb"""\nx = 1 2\n', 'x = (1,\n  2 3)\n', 'x = 1 + \\\n  2 3\n',
			'class A:\n\t"""doc\n\tmore"""\n\tdef f(self) -> int:\n\t\treturn 1 2\n', 'x = [\n\t1,\n\t2,\n] ]\n',
			"x = {'a': 1,\n'b': 2} }\n", 'def f(a: int,\n\tb: int) -> int:\n\treturn a b\n', '# comment\nx = 1 # c\ny = 2 3 # d\n',
			'x = "\u65e5\u672c\u8a9e" 3\n', 'x = "\u65e5\u672c" + "\u8a9e" )\n',
			# the offending token is a minus sign that touches what follows
			'b = (-)\n', 'b = [1, -]\n', 'a = f(-, 1)\n', 'if a:\n\tb = (-)\n',
		]
		r5 = list(ex.map(_check_own_parser_carets, [(bad[i::16],) for i in range(16)]))
		# the line-number axis: the same rejected statements on lines of one, two and three digits (thorough: four)
		own_jobs = [(n, indent, stmt)
			for n in ([2, 9, 10, 11, 99, 100, 101] if quick else [2, 9, 10, 11, 99, 100, 101, 999, 1000])
			for indent in ('', '\t')
			for stmt in ('b = 1 22', 'bb = (7 ]', 'c = aa bbb', 'ddd = 5 + * 3')]
		r6 = list(ex.map(_check_own_quotation_lines, [(own_jobs[i::16],) for i in range(16)]))
		from harness import real_modules
		modules = real_modules.QUICK if quick else real_modules.LOAD_OK
		r3 = list(ex.map(_real_module, list(modules) + ['verif_sample']))
	failures = [f for r in r1 + r2 + r3 + r4 + r5 + r6 for f in r['failures']]
	# the harness's MarkRange is the specification's (table evaluated by TLC)
	mres = tlc.run('PySrcEmit', 'PySrc_1.cfg', workers=1, timeout=300)
	for row in (json.loads(x) for x in mres.lines('MARK ')):
		if list(mark_range(0, row['bc'], 0 if row['same'] else 1, row['ec'], row['linelen'])) != list(row['range']):
			raise Machinery(f'harness mark_range and PySrc.MarkRange disagree on {row}')
	own_rows = [json.loads(x) for x in mres.lines('OWNQ ')]
	if len(own_rows) < 100:
		raise Machinery(f'PySrc emitted {len(own_rows)} rows of the own-parser quotation table')
	for row in own_rows:
		if own_quotation(row['n'], 'b = = 22', row['bc'], row['ec']) != list(row['q']):
			raise Machinery(f'harness own_quotation and PySrc.OwnQuotation disagree on {row}')
	ctx.log(f'wrapped layouts: {sum(r["nodes"] for r in r4)} nodes of multi-line programs quoted by the MarkRange rule; own parser: {sum(r["nodes"] for r in r5)} rejected texts with the carets under the cause token, {sum(r["nodes"] for r in r6)} quotations on lines of 1-3 digits equal to OwnQuotation')
	nodes = sum(r['nodes'] for r in r1)
	ctx.log(f'{nodes} expression nodes (fresh + restored from the cache encoding), {len(stmts)} statements, {sum(r["nodes"] for r in r3)} nodes of {len(modules)} real modules: {len(failures)} discrepancies')
	groups: dict[str, list] = {}
	for f in failures:
		groups.setdefault(f'{f["clause"]}:{f["kind"]}', []).append(f)
	violations = []
	for key, fs in sorted(groups.items()):
		s = min(fs, key=lambda f: len(f['detail']))
		violations.append(Violation(key, s['clause'], f'{s["detail"]} ({len(fs)} nodes)', {'text': s['text']}))
	coverage = {
		'states': len(cases) + len(stmts),
		'transitions': nodes,
		'traces_validated_against_impl': len(cases) + len(stmts) + len(modules),
		'expression_nodes_compared': nodes,
		'quotations_compared': nodes // 2,
		'statement_cases': len(stmts),
		'real_module_nodes': sum(r['nodes'] for r in r3),
		'real_modules': modules,
		'exhaustive': True,
		'samples': [{'text': cases[300]['text'], 'root_mark': cases[300]['ast']['q']}],
	}
	assumptions = ['pairing of model nodes with tranp nodes follows the canonical form checked by C02; flat operator chains have one tranp node per precedence level']
	return finish(ctx, LEVEL, coverage, violations, assumptions)
