"""C18 — fragment splitting helpers respect bracket and quote nesting (spec/BlockScan.tla).

1. TLC generates every balanced fragment of up to N grammar steps by actions and checks C18's laws on the
   intended (quote-aware) semantics; a second configuration compares the scanner AS CODED (one closer stack
   shared by brackets and quotes) with the intended semantics: the design-level counterexample.
2. spec -> code: every generated fragment is given to the real BlockParser.break_separator (all four
   delimiters) and break_last_block (all four pairs), DecoratorHelper and CppViewHelper.Param.parse; results
   must equal the spec's transcription of the code (conformance) and the intended semantics (the property).
3. code -> spec: the actual arguments these helpers receive while real modules are transpiled are recorded
   and checked the same way (this binds the laws to the call sites).
"""
import json
import re
from concurrent.futures import ProcessPoolExecutor

from harness import compat  # noqa: F401
from harness import tlc
from harness.core import Ctx, Machinery, Violation, finish

LEVEL = 'model_checking'
PAIRS = ['()', '[]', '{}', '<>']


def shape_of(text: str) -> str:
	"""Names what a fragment needs in order to hit a deviation (what known_findings.json matches on)."""
	quoted = re.findall(r'"[^"]*"|\'[^\']*\'', text)
	kinds = set()
	for q in quoted:
		inner = q[1:-1]
		if re.search(r'[\(\)\[\]\{\}<>]', inner):
			kinds.add('quoted-bracket')
		if '"' in inner or "'" in inner:
			kinds.add('quoted-other-quote')
	return '+'.join(sorted(kinds)) or 'plain'


def _check_cases(cases: list[dict]) -> list[dict]:
	from rogw.tranp.view.helper.block import BlockParser
	from rogw.tranp.view.helper.decorator import DecoratorHelper
	failures = []

	def fail(kind, clause, text, detail):
		failures.append({'kind': kind, 'clause': clause, 'text': text, 'detail': detail, 'shape': shape_of(text)})

	squeeze = lambda s: s.replace(' ', '')
	for case in cases:
		text = case['text']
		for d, exp in case['split'].items():
			try:
				real = BlockParser.break_separator(text, d)
			except Exception as e:
				real = [f'!{type(e).__name__}']
			if real != exp['coded']:
				fail('conformance', f'break_separator[{d!r}]', text, f'code {real} vs spec-as-coded {exp["coded"]}')
			if real != exp['intended']:
				fail('property', 'SplitRespectsNesting', text, f'break_separator({text!r}, {d!r}) = {real}, nesting-aware split is {exp["intended"]}')
		for pair, exp in case['last'].items():
			if not exp['intended']:
				continue  # the law speaks about prefix + group
			try:
				real = list(BlockParser.break_last_block(text, pair))
			except IndexError:
				real = []
			except Exception as e:
				real = [f'!{type(e).__name__}']
			if real != exp['coded']:
				fail('conformance', f'break_last_block[{pair}]', text, f'code {real} vs spec-as-coded {exp["coded"]}')
			if real != exp['intended']:
				fail('property', 'LastBlockRespectsNesting', text, f'break_last_block({text!r}, {pair!r}) = {real}, nesting-aware result is {exp["intended"]}')
		# parse / parse_bracket / parse_pair: every entry is a balanced piece, every block one whole group (the nesting
		# level after k characters and the quoted positions come from the specification: BlockScan.Levels / Quoted)
		lv, qd = case['levels'], case['quoted']
		for pair in ('()', '[]', '{}', '<>'):
			own = [i for i in range(len(text)) if text[i] == pair[0] and not qd[i]]
			if not own:
				continue
			nested = any(j > i and min(lv[i + 1:j + 1]) >= lv[i] + 1 for i in own for j in own)
			hidden = any(qd[i] and text[i] in pair for i in range(len(text))) or any(lv[i] >= 1 for i in own)
			pshape = 'nested-own-block' if nested else 'hidden-own-bracket' if hidden else 'plain'
			for d in (',', ':', '=', ' ', ''):
				try:
					root = BlockParser.parse(text, pair, d)
				except IndexError:
					if any(lv[i] == 0 for i in own):
						fail('property', 'ParseEntries', text, f'parse({text!r}, {pair!r}, {d!r}) finds no entry although a group of the pair stands at top level')
						failures[-1]['shape'] = pshape
					continue
				except Exception as e:
					fail('property', 'ParseEntries', text, f'parse({text!r}, {pair!r}, {d!r}) raised {type(e).__name__}')
					failures[-1]['shape'] = pshape
					continue
				entries = [root, *root.unders()]
				texts = set()
				blocks = []
				bad = None
				for e in entries:
					piece = text[e.begin:e.end]
					texts.add(piece)
					if not (0 <= e.begin <= e.end <= len(text) and lv[e.begin] == lv[e.end] and min(lv[e.begin:e.end + 1]) >= lv[e.begin]):
						bad = bad or f'entry {piece!r} ({e.begin}..{e.end}) is not a balanced piece'
					if e.kind.name == 'Block':
						o = text.find(pair[0], e.begin)
						blocks.append(text[o:e.end])
						if not (0 <= o and e.end - o >= 2 and e.end <= len(text) and lv[o] == lv[e.end] and min(lv[o + 1:e.end]) >= lv[o] + 1):
							bad = bad or f'block {text[o:e.end]!r} is not one whole group'
				if bad:
					fail('property', 'ParseEntries', text, f'parse({text!r}, {pair!r}, {d!r}): {bad}')
					failures[-1]['shape'] = pshape
					continue
				if d == '':
					try:
						got = BlockParser.parse_bracket(text, pair)
					except Exception as e:
						got = [f'!{type(e).__name__}']
					if got != blocks:
						fail('property', 'ParseBracketIsBlocks', text, f'parse_bracket({text!r}, {pair!r}) = {got}, the blocks of the entry tree are {blocks}')
						failures[-1]['shape'] = pshape
				else:
					try:
						pieces = [x for kv in BlockParser.parse_pair(text, pair, d) for x in kv]
					except Exception as e:
						pieces = [f'!{type(e).__name__}']
					if not set(pieces) <= texts:
						fail('property', 'ParsePairIsEntries', text, f'parse_pair({text!r}, {pair!r}, {d!r}) = {pieces}: not pieces of the entry tree {sorted(texts)}')
						failures[-1]['shape'] = pshape
		# decorator: path(args) decomposes into path and the top-level comma pieces, which reassemble
		if len(text) <= 24:
			pieces = case['split'][',']['intended']
			deco = f'Embed.prop({text})'
			try:
				helper = DecoratorHelper(deco)
				path, args, joined = helper.path, helper.args, helper.join_args
				expect = {}
				for i, piece in enumerate(pieces):
					label, eq, value = piece.partition('=')
					expect[label if eq else str(i)] = value if eq else piece
				if len(expect) != len(pieces):
					continue  # a label that collides with a positional index: not a meaningful decorator
				if path != 'Embed.prop' or joined != text or {k: squeeze(v) for k, v in args.items()} != {k: squeeze(v) for k, v in expect.items()}:
					fail('property', 'DecoratorReassembles', text, f'DecoratorHelper({deco!r}): path={path!r} args={args} expected pieces {pieces}')
			except Exception as e:
				fail('property', 'DecoratorReassembles', text, f'DecoratorHelper({deco!r}) raised {type(e).__name__}')
	return failures


def _check_params(params: list[dict]) -> list[dict]:
	from rogw.tranp.implements.cpp.view.cpp_view_helper import CppViewHelper
	failures = []
	for p in params:
		text = f'{p["type"]} {p["name"]}' + (f' = {p["default"]}' if p['default'] else '')
		try:
			got = CppViewHelper.Param.parse(text)
			real = {'type': got.var_type, 'name': got.symbol, 'default': got.default_value}
		except Exception as e:
			real = {'error': type(e).__name__}
		if real != p:
			failures.append({'kind': 'property', 'clause': 'ParamReassembles', 'text': text, 'detail': f'Param.parse({text!r}) = {real}, expected {p}', 'shape': shape_of(text) if shape_of(text) != 'plain' else ('default-contains-equals' if '=' in p['default'].replace('"a = b"', '') else 'plain')})
	return failures


def _record_real_calls(seed: int) -> list[dict]:
	"""Arguments break_separator / break_last_block receive while real modules are transpiled."""
	from harness.tranp_env import Env, enter_scratch
	from rogw.tranp.view.helper.block import BlockParser
	enter_scratch('verif-c18-')
	calls = []
	org_sep = BlockParser.__dict__['break_separator'].__func__
	org_last = BlockParser.__dict__['break_last_block'].__func__

	def spy_sep(cls, text, delimiter):
		res = org_sep(cls, text, delimiter)
		calls.append({'fn': 'sep', 'text': text, 'arg': delimiter, 'res': list(res)})
		return res

	def spy_last(cls, text, brackets):
		res = org_last(cls, text, brackets)
		calls.append({'fn': 'last', 'text': text, 'arg': brackets, 'res': list(res)})
		return res

	BlockParser.break_separator = classmethod(spy_sep)
	BlockParser.break_last_block = classmethod(spy_last)
	try:
		from harness.checks.c09 import SAMPLE_PROGRAM
		env = Env(sources={'verif_sample': SAMPLE_PROGRAM})
		for m in ('example.json', 'verif_sample', 'example.FW.string'):
			try:
				env.transpile(m)
			except Exception:
				pass
	finally:
		BlockParser.break_separator = classmethod(org_sep)
		BlockParser.break_last_block = classmethod(org_last)
	return calls


def nesting_split(text: str, d: str) -> list[str]:
	"""The intended semantics (BlockScan.tla SplitIntended), used only for recorded real arguments, which TLC did not generate"""
	depth, q, cuts = 0, '', []
	for i, c in enumerate(text):
		if q:
			if c == q:
				q = ''
		elif c in '"\'':
			q = c
		elif c in '([{<':
			depth += 1
		elif c in ')]}>':
			depth -= 1
		elif depth == 0 and text.startswith(d, i) and i + len(d) < len(text):
			cuts.append(i)
	pieces, begin = [], 0
	for c in cuts:
		pieces.append(text[begin:c].strip(' '))
		begin = c + len(d)
	if begin < len(text):
		pieces.append(text[begin:].strip(' '))
	return pieces


def run(ctx: Ctx) -> int:
	quick = ctx.quick
	laws = tlc.run('BlockScan', 'BlockScan_quick.cfg' if quick else 'BlockScan.cfg', workers=16, timeout=1500)
	if not laws.ok:
		raise Machinery(f'TLC: a C18 law fails on the intended semantics: {laws.out[-1200:]}')
	coded = tlc.run('BlockScan', 'BlockScan_coded.cfg', workers=16, timeout=900)
	pinned = tlc.run('BlockScan', 'BlockScan_pinned.cfg', workers=16, timeout=900)
	ctx.log(f'TLC: laws hold on {laws.distinct} states; scanner as coded vs intended: {coded.invariant_violated or "equal"}; scanner of the pinned commit: {pinned.invariant_violated or "equal"}')
	emit = tlc.run('BlockScan', 'BlockScan_quick_emit.cfg', workers=1, timeout=1500, heap='8g')
	cases = [json.loads(line) for line in emit.lines('CASE ')]
	pres = tlc.run('BlockScanParams', 'BlockScanParams.cfg', workers=1, timeout=300)
	params = [json.loads(line) for line in pres.lines('PARAM ')]
	if not cases or not params:
		raise Machinery('no cases emitted')
	nproc = 16
	with ProcessPoolExecutor(max_workers=nproc) as ex:
		failures = [f for chunk in ex.map(_check_cases, [cases[i::nproc] for i in range(nproc)]) for f in chunk]
	failures += _check_params(params)
	ctx.log(f'{len(cases)} fragments x 4 delimiters x 4 pairs + {len(params)} parameters replayed: {len(failures)} discrepancies')

	calls = _record_real_calls(ctx.seed)
	balanced = 0
	for c in calls:
		t = c['text']
		if c['fn'] == 'sep':
			exp = nesting_split(t, c['arg'])
			ok = all(t.count(o) == t.count(cl) for o, cl in ('()', '[]', '{}')) and t.count('"') % 2 == 0 and t.count("'") % 2 == 0 and not re.search(r'(?<![\w>])<|<(?![\w:])|->|>=|<=|>>|<<| > | < ', t)
			if not ok:
				continue  # outside the property's domain (unbalanced fragment, comparison operators)
			balanced += 1
			if c['res'] != exp:
				failures.append({'kind': 'property', 'clause': 'SplitRespectsNesting@callsite', 'text': t, 'detail': f'real call break_separator({t!r}, {c["arg"]!r}) returned {c["res"]}, nesting-aware split is {exp}', 'shape': shape_of(t)})
	ctx.log(f'{len(calls)} real helper calls recorded while transpiling, {balanced} inside the domain and checked')

	violations: list[Violation] = []
	groups: dict[str, list] = {}
	for f in failures:
		key = f'{f["clause"]}:{f["shape"]}' if f['kind'] == 'property' else f'conformance:{f["clause"]}'
		groups.setdefault(key, []).append(f)
	for key, fs in sorted(groups.items()):
		s = min(fs, key=lambda f: len(f['text']))
		violations.append(Violation(key, s['clause'], f'{s["detail"]} ({len(fs)} fragments)', {'text': s['text']}))

	coverage = {
		'states': laws.distinct + coded.distinct,
		'transitions': laws.generated + coded.generated,
		'traces_validated_against_impl': len(calls),
		'fragments_replayed_on_impl': len(cases),
		'helper_evaluations': len(cases) * 8 + len(params),
		'parse_entry_trees_checked': 'every fragment x 4 pairs x 5 delimiters (pairs with a group in the fragment)',
		'param_cases': len(params),
		'real_call_arguments_recorded': len(calls),
		'real_call_arguments_in_domain': balanced,
		'design_level_deviation_of_coded_scanner': coded.invariant_violated,
		'exhaustive': True,
		'bounds': {'grammar_steps_laws': 4 if quick else 5, 'grammar_steps_replayed': 4, 'group_nesting': 2, 'atoms': 10, 'delimiters': 4},
		'samples': [cases[len(cases) // 3]['text'], cases[2 * len(cases) // 3]['text'], params[7]],
	}
	assumptions = ['fragments are balanced by construction; comparison operators (unpaired < >) are outside the property']
	return finish(ctx, LEVEL, coverage, violations, assumptions)
