"""C01 — the transpiled C++ behaves like the Python source (spec/PySrc.tla Eval, spec/PyExec.tla).

Translation validation of generated programs: TLC enumerates programs of the source model together with the
outcome the model's semantics assigns to every entry function on every argument vector; the real pipeline
transpiles the program, the emitted text is compiled by a C++20 compiler against a small trusted prelude and
run; every printed result must equal the model's outcome. The model's outcome is cross-checked with CPython
executing the same source on the same arguments (disagreement = machinery error).

Layer L0: every well-typed int/bool expression with exactly N operators in all association shapes with
Python-minimal parentheses - in particular every pair of operators whose relative precedence differs between
Python and C++. Layer L1: statement programs (spec/PyExec.tla).
"""
import os
import re
from concurrent.futures import ProcessPoolExecutor

from harness import compat  # noqa: F401
from harness.core import Ctx, Machinery, Violation, finish

LEVEL = 'translation_validation'
BATCH = 140
ARG_ORDER = ['a', 'b', 'c', 'd', 'p', 'q', 'r', 's']


def cpp_arg(v) -> str:
	if isinstance(v, bool):
		return 'true' if v else 'false'
	return str(v)


def py_show(v) -> str:
	if isinstance(v, bool):
		return 'True' if v else 'False'
	return str(v)


def ops_of(n: dict) -> list[str]:
	k = n['k']
	if k in ('var', 'int'):
		return []
	if k in ('bin', 'cmp', 'bool'):
		return [n['op']] + ops_of(n['l']) + ops_of(n['r'])
	if k == 'un':
		return ['u' + n['op']] + ops_of(n['e1'])
	if k == 'not':
		return ['not'] + ops_of(n['e1'])
	return ['?:'] + ops_of(n['c']) + ops_of(n['a']) + ops_of(n['b1'])


def _run_batch(args) -> dict:
	cases, first, envs = args
	from harness import srcmodel
	from harness.cpp.build import compile_and_run
	from harness.tranp_env import Env, enter_scratch
	root = enter_scratch('verif-c01-')
	failures, machinery = [], []
	# three-way: the model's values against CPython on the same text and arguments
	for case in cases:
		for env, val in zip(envs, case['vals']):
			if not val['ok']:
				continue
			try:
				ref = py_show(eval(case['text'], {}, dict(env)))
			except Exception as e:
				ref = f'!{type(e).__name__}'
			if ref != val['v']:
				machinery.append(f'spec and CPython disagree on {case["text"]!r} with {env}: spec {val["v"]} vs {ref}')
	if machinery:
		return {'failures': [], 'machinery': machinery, 'programs': 0, 'results': 0}
	program = srcmodel.program_of(cases, first)
	try:
		text = Env().transpile_source(program)
	except Exception as e:
		if len(cases) == 1:
			return {'failures': [{'clause': 'NeverRejected', 'detail': f'{cases[0]["text"]!r} is rejected by the transpiler: {type(e).__name__}: {str(e)[:120]}', 'text': cases[0]['text'], 'kind': '/'.join(sorted(set(ops_of(cases[0]['ast']))))}], 'machinery': [], 'programs': 1, 'results': 0}
		half = len(cases) // 2
		return _merge(_run_batch((cases[:half], first, envs)), _run_batch((cases[half:], first + half, envs)))
	lines = []
	for i, case in enumerate(cases):
		for j, (env, val) in enumerate(zip(envs, case['vals'])):
			if val['ok']:
				call = f'f{first + i}({", ".join(cpp_arg(env[k]) for k in ARG_ORDER)})'
				lines.append(f'\tstd::cout << "{first + i} {j} " << verif::show({call}) << "\\n";')
	res = compile_and_run(os.path.join(root, f'b{first}'), text, '\n'.join(lines))
	if not res['compiled']:
		if len(cases) == 1:
			err = next((ln for ln in res['stderr'].splitlines() if 'error' in ln), res['stderr'][:200])
			emitted = _emitted(text, first)
			return {'failures': [{'clause': 'CompilerAccepts', 'detail': f'{cases[0]["text"]!r} -> `{emitted}` is rejected by the C++ compiler: {err[:160]}', 'text': cases[0]['text'], 'kind': '/'.join(sorted(set(ops_of(cases[0]['ast']))))}], 'machinery': [], 'programs': 1, 'results': 0}
		half = len(cases) // 2
		return _merge(_run_batch((cases[:half], first, envs)), _run_batch((cases[half:], first + half, envs)))
	if res['rc'] != 0:
		return {'failures': [{'clause': 'Runs', 'detail': f'compiled program exits with {res["rc"]}: {res["stderr"][:200]}', 'text': cases[0]['text'], 'kind': 'batch'}], 'machinery': [], 'programs': len(cases), 'results': 0}
	got = {}
	for ln in res['stdout'].splitlines():
		i, j, v = ln.split(' ', 2)
		got[(int(i), int(j))] = v
	results = 0
	for i, case in enumerate(cases):
		bad = []
		for j, (env, val) in enumerate(zip(envs, case['vals'])):
			if not val['ok']:
				continue
			results += 1
			if got.get((first + i, j)) != val['v']:
				bad.append((j, got.get((first + i, j)), val['v']))
		if bad:
			j, g, w = bad[0]
			emitted = _emitted(text, first + i)
			failures.append({'clause': 'SameValue', 'detail': f'{case["text"]!r} emitted as `{emitted}`: with {envs[j]} C++ returns {g}, Python returns {w}', 'text': case['text'], 'kind': '/'.join(sorted(set(ops_of(case['ast'])))), 'emitted': emitted})
	return {'failures': failures, 'machinery': [], 'programs': len(cases), 'results': results}


def _emitted(text: str, index: int) -> str:
	m = re.search(rf'f{index}\([^)]*\) \{{\n\treturn (.*);\n\}}', text)
	return m.group(1) if m else '?'


def _merge(a: dict, b: dict) -> dict:
	return {'failures': a['failures'] + b['failures'], 'machinery': a['machinery'] + b['machinery'], 'programs': a['programs'] + b['programs'], 'results': a['results'] + b['results']}


def grouping_family(f: dict) -> str:
	"""Names the operator family of a grouping defect: which Python operator is emitted without the parentheses
	that C++'s different precedence requires"""
	ops = set(f['kind'].split('/'))
	fam = []
	if 'not' in ops:
		fam.append('not')
	if ops & {'&', '|', '^'} and ops & {'==', '!=', '<', '>', '<=', '>='}:
		fam.append('bitwise-vs-comparison')
	if '?:' in ops:
		fam.append('ternary')
	if ops & {'u-', 'u+', 'u~'}:
		fam.append('unary')
	return '+'.join(fam) or 'other'


def run(ctx: Ctx) -> int:
	from harness import srcmodel
	from harness.checks import c01_stmt
	quick = ctx.quick
	cases, envs = [], None
	for n in [1, 2, 3]:
		cs, envs = srcmodel.load_cases(n)
		cases += cs
	# one family of four-operator expressions: a parenthesised operand whose own operands are parenthesised too
	nested, _ = srcmodel.load_cases(4)
	if quick:
		import random
		rnd = random.Random(ctx.seed)
		cases = cases[:568] + rnd.sample(cases[568:], 1500)
		double = [c for c in nested if '((' in c['text'] or '))' in c['text']]
		nested = double + rnd.sample([c for c in nested if c not in double], 100)
	cases = cases + nested
	ctx.log(f'TLC enumerated {len(cases)} expressions x {len(envs)} argument vectors')
	batches = [(cases[i:i + BATCH], i, envs) for i in range(0, len(cases), BATCH)]
	with ProcessPoolExecutor(max_workers=16) as ex:
		results = list(ex.map(_run_batch, batches))
	machinery = [m for r in results for m in r['machinery']]
	if machinery:
		raise Machinery(f'{len(machinery)} cases where spec and CPython disagree, e.g. {machinery[0]}')
	failures = [f for r in results for f in r['failures']]
	nres = sum(r['results'] for r in results)
	ctx.log(f'L0: {len(cases)} entry functions transpiled, compiled and run, {nres} results compared: {len(failures)} functions deviate')
	stmt_violations, stmt_cov = c01_stmt.run_statements(ctx)
	from harness.checks import c01_cont
	cont_violations, cont_cov = c01_cont.run_containers(ctx)
	from harness.checks import c01_obj
	obj_violations, obj_cov = c01_obj.run_classes(ctx)
	violations = list(stmt_violations) + list(cont_violations) + list(obj_violations)
	groups: dict[str, list] = {}
	for f in failures:
		key = f'{f["clause"]}:grouping:{grouping_family(f)}' if f['clause'] == 'SameValue' else f'{f["clause"]}:{grouping_family(f)}'
		groups.setdefault(key, []).append(f)
	for key, fs in sorted(groups.items()):
		s = min(fs, key=lambda f: len(f['text']))
		violations.append(Violation(key, s['clause'], f'{s["detail"]} ({len(fs)} expressions)', {'text': s['text'], 'all': sorted(f['text'] for f in fs)[:40]}))
	coverage = {
		'programs': len(cases) + stmt_cov.get('statement_programs', 0) + cont_cov.get('container_programs', 0) + obj_cov.get('class_programs', 0),
		'disagreements_checked': nres + stmt_cov.get('statement_results', 0) + cont_cov.get('container_results', 0) + obj_cov.get('class_results', 0),
		'samples': [{'source': cases[310]['text'], 'expected': [v['v'] for v in cases[310]['vals']]}],
		'expression_functions': len(cases),
		'argument_vectors': len(envs),
		'results_compared': nres,
		'constructs_exercised': ['int/bool operators: + - * % | ^ & << >> == != < > <= >= and or not unary - + ~ ternary, all association shapes'] + stmt_cov.get('constructs', []) + cont_cov.get('constructs', []) + obj_cov.get('constructs', []),
		'constructs_not_covered': ['lambdas as values', 'class variables, isinstance, dict of objects, enum .value of a variable', 'string formatting / methods mapped to the project runtime (split, join, replace, strip, upper, sort, reverse)', 'negative indices', 'with', 'generators'],
		**{k: v for k, v in stmt_cov.items() if k != 'constructs'},
		**{k: v for k, v in cont_cov.items() if k != 'constructs'},
		**{k: v for k, v in obj_cov.items() if k != 'constructs'},
	}
	assumptions = ['trusted base: clang++ -std=c++20, harness/cpp/prelude.h (standard headers, printf-style std::format, value printers)', 'agreement subset: |v| < 2^20, non-negative operands for % and bitwise operators, shift counts 0..8']
	return finish(ctx, LEVEL, coverage, violations, assumptions)
