"""Binding of spec/Proc.tla to rogw/tranp/semantics/procedure.py (+ the node API it walks).

Dialect A: the harness's own Procedure[Node] with one identity `on_fallback` handler that records what it
           receives; a policy makes some handlers start nested runs or fail.
Dialect B: the repository's own walkers, recorded by wrapping Procedure.exec and the per-action log point.
The tree header of every trace is built from the node API (prop_keys / getattr), independently of Procedure.
"""
import json
import os
from typing import Any

from harness import compat  # noqa: F401


MISSING = object()


class TreeIndex:
	"""Assigns ids to nodes as the node API exposes them and records each node's expandable properties."""

	def __init__(self) -> None:
		self.ids: dict[tuple, int] = {}
		self.keep: list[Any] = []
		self.tree: list[list[dict]] = []
		self.legend: list[str] = []

	@staticmethod
	def key_of(node: Any) -> tuple:
		# nodes are identified by what they are in the tree, not by object identity: properties that synthesise
		# a placeholder child (dirty_child / proxies) build a new object on every access
		return (node.module_path, node.full_path, type(node).__name__)

	def nid(self, node: Any) -> int:
		key = self.key_of(node)
		if key in self.ids:
			return self.ids[key]
		self.keep.append(node)
		self.ids[key] = len(self.ids) + 1
		self.tree.append([])
		self.legend.append(f'{type(node).__name__}:{node.full_path}')
		index = self.ids[key]
		props = []
		if node.can_expand:
			keys = node.prop_keys()
			for k in keys:
				value = getattr(node, k)
				if isinstance(value, list):
					props.append({'kind': 'list', 'kids': [self.nid(v) for v in value], 'key': k})
				else:
					props.append({'kind': 'single', 'kids': [self.nid(value)], 'key': k})
			if not keys:
				under = node._under_expand()
				if under:
					# nodes without properties but with expandable descendants: Procedure pops nothing for them.
					# Represent as-is (no properties); the spec then demands that no result be left over.
					props = []
					self.legend[index - 1] += f' UNDER-EXPANDS {len(under)}'
		self.tree[index - 1] = props
		return index

	def known(self, node: Any) -> bool:
		return self.key_of(node) in self.ids


def identity_walk(roots: list, policy=None, limit: int = 200000) -> dict:
	"""Dialect A: walk each root with a fresh identity Procedure; policy(counter, node, depth) -> 'plain'|'nest'|'fail'."""
	from rogw.tranp.semantics.procedure import Procedure
	from rogw.tranp.syntax.node.node import Node
	index = TreeIndex()
	events: list[dict] = []
	proc: Procedure = Procedure()
	counter = [0]

	def stacks() -> list:
		return getattr(proc, '_Procedure__stacks')

	def on_fallback(node: Node, **event: Any) -> Node:
		counter[0] += 1
		c = counter[0]
		n = index.nid(node)
		props = index.tree[n - 1]
		ev = []
		for p in props:
			got = event.get(p['key'], MISSING)
			if isinstance(got, list):
				ev.append({'kind': 'list', 'got': [index.nid(g) for g in got]})
			elif got is MISSING:
				ev.append({'kind': 'missing', 'got': []})
			else:
				ev.append({'kind': 'single', 'got': [index.nid(got)]})
		extra = sorted(set(event) - {p['key'] for p in props})
		outcome = policy(c, node, len(stacks())) if policy else 'plain'
		sub = None
		if outcome == 'nest':
			kids = [k for p in props for k in p['kids']]
			sub = index.keep[(kids[c % len(kids)] if kids else n) - 1]
		line = {'name': 'event', 'n': n, 'ev': ev, 'consumed': len(stacks()[-1]), 'depth': len(stacks()), 'outcome': outcome, 'sub': index.nid(sub) if sub is not None else 0}
		if extra:
			line['extra_keys'] = extra
		if len(events) < limit:
			events.append(line)
		if outcome == 'fail':
			raise RuntimeError('verif: handler fails on purpose')
		if outcome == 'nest':
			result = proc.exec(sub)
			events.append({'name': 'end', 'root': index.nid(sub), 'result': index.nid(result), 'depth': len(stacks()) + 1, 'nested': True})
			if c % 3 == 0:
				events.append({'name': 'nestmore', 'n': n, 'sub': index.nid(sub)})
				result = proc.exec(sub)
				events.append({'name': 'end', 'root': index.nid(sub), 'result': index.nid(result), 'depth': len(stacks()) + 1, 'nested': True})
			events.append({'name': 'return', 'n': n})
		return node

	proc.on('on_fallback', on_fallback)
	for root in roots:
		index.nid(root)
		events.append({'name': 'begin', 'root': index.nid(root), 'depth': len(stacks()) + 1, 'nested': False})
		try:
			result = proc.exec(root)
			events.append({'name': 'end', 'root': index.nid(root), 'result': index.nid(result), 'depth': len(stacks()) + 1, 'nested': False})
		except Exception as e:  # noqa
			from rogw.tranp.errors import Errors
			if not (isinstance(e, Errors.Fatal) and 'on purpose' in repr(e.args)):
				events.append({'name': 'crash', 'error': f'{type(e).__name__}: {str(e)[:200]}'})
		if len(events) >= limit:
			break
	return {'tree': index.tree_for_json(), 'events': events[:limit], 'legend': index.legend}


def _tree_for_json(self) -> list:
	return [[{'kind': p['kind'], 'kids': p['kids']} for p in props] for props in self.tree]


TreeIndex.tree_for_json = _tree_for_json  # type: ignore


class WalkerRecorder:
	"""Dialect B: wraps Procedure.exec and Procedure.__put_log_action for every Procedure instance."""

	def __init__(self, limit_per_trace: int = 4000) -> None:
		self.traces: dict[int, dict] = {}
		self.limit = limit_per_trace
		self.keep: list[Any] = []
		self._saved: tuple | None = None

	def trace_of(self, proc: Any) -> dict:
		key = id(proc)
		if key not in self.traces:
			self.keep.append(proc)
			self.traces[key] = {'index': TreeIndex(), 'events': [], 'open': 0, 'dropped': False}
		return self.traces[key]

	def install(self) -> None:
		from rogw.tranp.semantics.procedure import Procedure
		rec = self
		org_exec = Procedure.exec
		org_log = getattr(Procedure, '_Procedure__put_log_action')

		def exec_(self, root):
			tr = rec.trace_of(self)
			stacks = getattr(self, '_Procedure__stacks')
			nested = tr['open'] > 0
			full = len(tr['events']) >= rec.limit and not nested
			if full:
				tr['dropped'] = True
			if not tr['dropped']:
				tr['events'].append({'name': 'begin', 'root': tr['index'].nid(root), 'depth': len(stacks) + 1, 'nested': nested})
			tr['open'] += 1
			try:
				result = org_exec(self, root)
			except BaseException:
				tr['open'] -= 1
				tr['dropped'] = True  # a failing walk ends the comparable part of this instance's trace
				raise
			tr['open'] -= 1
			if not tr['dropped']:
				tr['events'].append({'name': 'end', 'root': tr['index'].nid(root), 'depth': len(stacks) + 1, 'nested': nested})
			return result

		def log_(self, node, handler_name, stacks, result):
			tr = rec.trace_of(self)
			if not tr['dropped']:
				before, consumed, after = stacks
				tr['events'].append({'name': 'act', 'n': tr['index'].nid(node), 'before': before, 'consumed': consumed, 'after': after, 'depth': len(getattr(self, '_Procedure__stacks'))})
			return org_log(self, node, handler_name, stacks, result)

		self._saved = (org_exec, org_log)
		Procedure.exec = exec_  # type: ignore
		setattr(Procedure, '_Procedure__put_log_action', log_)

	def uninstall(self) -> None:
		from rogw.tranp.semantics.procedure import Procedure
		if self._saved:
			Procedure.exec = self._saved[0]  # type: ignore
			setattr(Procedure, '_Procedure__put_log_action', self._saved[1])
			self._saved = None

	def result(self) -> list[dict]:
		out = []
		for tr in self.traces.values():
			if tr['events']:
				out.append({'tree': tr['index'].tree_for_json(), 'events': tr['events'], 'legend': tr['index'].legend})
		return out


def write_traces(traces: list[dict], path: str) -> None:
	with open(path, 'w') as f:
		json.dump([{'tree': t['tree'], 'events': t['events']} for t in traces], f)
