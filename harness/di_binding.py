"""Binding of spec/DI.tla to rogw/tranp/lang/di.py in both directions.

spec -> code: `Replayer` steps TLC's labelled edges through real LazyDI objects and compares, after every
step, the operation's observable result and the projection of the real containers with the spec's state.

code -> spec: `recording_class()` returns a subclass of LazyDI that logs one event per top-level public
call (at return, also on the error path); `write_trace_inputs` turns logs into TraceDIData.tla + events JSON.
"""
import inspect
import json
import os
import sys
import textwrap
from typing import Any

from harness import compat  # noqa: F401

UNIVERSE_SRC = textwrap.dedent('''
	"""Scratch universe for the DI replay: the symbols/factories of spec/MCDI.tla"""
	from typing import Generic, TypeVar
	T = TypeVar('T')
	LOG = []
	class Obj:
		def __init__(self, fac, args, extras):
			self.fac = fac
			self.args = args
			self.extras = extras
			LOG.append(self)
			self.serial = len(LOG)
	class S1: pass
	class S2: pass
	class S3(Generic[T]): pass
	def s1a() -> S1: return Obj('s1a', [], [])
	def s1b() -> S1: return Obj('s1b', [], [])
	def s2a() -> S2: return Obj('s2a', [], [])
	def s2b(a: S1) -> S2: return Obj('s2b', [a], [])
	def s3a(a: S1, b: S2) -> S3: return Obj('s3a', [a, b], [])
	class s3b:
		"""a class used as factory: annotations come from __init__"""
		def __init__(self, b: S2) -> None:
			self.fac, self.args, self.extras = 's3b', [b], []
			LOG.append(self)
			self.serial = len(LOG)
	class K1:
		"""two factories that share their short name: only the qualified name tells them apart"""
		@staticmethod
		def make(a: S1, t: str): return Obj('g1', [a], [t])
	class K3:
		@staticmethod
		def make(t: str): return Obj('g3', [], [t])
	g1 = K1.make
	g3 = K3.make
	ALIAS = {'K1.make': 'g1', 'K3.make': 'g3'}
	class _G2:
		"""a callable object used as factory: annotations come from __call__"""
		def __init__(self):
			self.__module__ = 'verif_di_syms'
			self.__qualname__ = 'g2'
			self.__name__ = 'g2'
		def __call__(self, a: S1, b: S2, n: int): return Obj('g2', [a, b], [n])
	g2 = _G2()
''')

SYMS = {'s1': 'S1', 's2': 'S2', 's3': 'S3'}


def install_universe(scratch: str):
	path = os.path.join(scratch, 'verif_di_syms.py')
	with open(path, 'w') as f:
		f.write(UNIVERSE_SRC)
	if scratch not in sys.path:
		sys.path.insert(0, scratch)
	sys.modules.pop('verif_di_syms', None)
	import verif_di_syms
	return verif_di_syms


def private(obj: Any, cls_name: str, attr: str) -> Any:
	name = f'_{cls_name}__{attr}'
	if not hasattr(obj, name):
		from harness.core import Machinery
		raise Machinery(f'projection: attribute {name} missing on {type(obj).__name__} (refactored?)')
	return getattr(obj, name)


class Replayer:
	"""Steps spec operations through real LazyDI containers over the MCDI universe."""

	def __init__(self, universe) -> None:
		from rogw.tranp.lang.di import LazyDI
		self.U = universe
		self.LazyDI = LazyDI
		self.reset()

	def reset(self) -> None:
		self.U.LOG.clear()
		self.conts: list[Any] = []
		self.nstep = 0

	def sym(self, s: str, alias: bool = False):
		klass = getattr(self.U, SYMS[s])
		if s == 's3' and alias:
			return klass[int]  # generic alias: the container must treat it as its origin
		return klass

	def fac(self, f: str):
		return getattr(self.U, f)

	def facname(self, obj: Any) -> str:
		if isinstance(obj, str):
			return obj.split('.')[-1]
		name = getattr(obj, '__qualname__', None) or type(obj).__qualname__
		return self.U.ALIAS.get(name, name)

	def step(self, op: dict) -> dict:
		"""Execute one operation; returns the observed label fields {res, ret}"""
		self.nstep += 1
		alt = self.nstep % 2 == 0
		name = op['name']
		try:
			if name == 'new':
				defs = {}
				for i, (s, f) in enumerate(sorted(op['defs'].items())):
					if f == 'none':
						continue
					by_name = (i + self.nstep) % 2 == 0
					defs[f'verif_di_syms.{SYMS[s]}'] = f'verif_di_syms.{f}' if by_name else self.fac(f)
				self.conts.append(self.LazyDI.instantiate(defs))
				return {'res': 'ok'}
			if name == 'combine':
				self.conts.append(self.conts[op['a'] - 1].combine(self.conts[op['b'] - 1]))
				return {'res': 'ok'}
			di = self.conts[op['c'] - 1]
			if name == 'bind':
				di.bind(self.sym(op['s'], alt), self.fac(op['f']))
				return {'res': 'ok'}
			if name == 'unbind':
				di.unbind(self.sym(op['s'], alt))
				return {'res': 'ok'}
			if name == 'rebind':
				di.rebind(self.sym(op['s'], alt), self.fac(op['f']))
				return {'res': 'ok'}
			if name == 'resolve':
				obj = di.resolve(self.sym(op['s'], alt))
				return {'res': 'ok', 'ret': obj.serial}
			if name == 'invoke':
				vals = ['x' if e == 'str' else 7 for e in op['extras']]
				obj = di.invoke(self.fac(op['f']), *vals)
				return {'res': 'ok', 'ret': obj.serial}
			raise AssertionError(f'unknown op {name}')
		except Exception as e:  # the class is the observation
			return {'res': type(e).__name__, 'ret': 0, 'msg': str(e)[:120]}

	def project(self) -> dict:
		"""The abstract state of the real objects in the vocabulary of DI.tla's View"""
		conts = []
		for di in self.conts:
			defs = {s: 'none' for s in SYMS}
			inj = {s: 'none' for s in SYMS}
			inst = {s: 0 for s in SYMS}
			for path, f in private(di, 'LazyDI', 'definitions').items():
				defs[self.symname(path.split('.')[-1])] = self.facname(f)
			for klass, f in private(di, 'DI', 'injectors').items():
				inj[self.symname(klass.__name__)] = self.facname(f)
			for klass, obj in private(di, 'DI', 'instances').items():
				inst[self.symname(klass.__name__)] = obj.serial
			memo = sorted(self.U.ALIAS.get(k.split('.', 1)[-1], k.split('.', 1)[-1]) for k in private(di, 'DI', 'invocations'))
			conts.append({'defs': defs, 'inj': inj, 'inst': inst, 'memo': memo})
			# observation through the public API must agree with the projection
			for s in SYMS:
				if di.can_resolve(self.sym(s)) != (defs[s] != 'none'):
					conts[-1]['can_resolve_disagrees'] = s
		born = [{'fac': o.fac, 'args': [a.serial for a in o.args], 'extras': ['str' if isinstance(e, str) else 'int' for e in o.extras]} for o in self.U.LOG]
		return {'cont': conts, 'born': born}

	def symname(self, klass_name: str) -> str:
		return {v: k for k, v in SYMS.items()}[klass_name]


def normalize_view(view: list) -> dict:
	"""TLC's ToJson of View = <<cont, born>> -> comparable dict"""
	cont, born = view
	conts = []
	for k in cont:
		conts.append({'defs': dict(k['defs']), 'inj': dict(k['inj']), 'inst': dict(k['inst']), 'memo': sorted(k['memo'])})
	return {'cont': conts, 'born': [{'fac': b['fac'], 'args': list(b['args']), 'extras': list(b['extras'])} for b in born]}


# ------------------------------------------------------------------------------------------------
# code -> spec


class Recorder:
	"""Collects events of all recording containers of one execution."""

	def __init__(self) -> None:
		self.events: list[dict] = []
		self.conts: list[Any] = []  # keeps containers alive, index = spec container id - 1
		self.objs: list[Any] = []  # keeps returned objects alive (id() stability)
		self.produced: set[int] = set()
		self.shared: set[int] = set()
		self.oids: dict[int, int] = {}
		self.syms: dict[Any, str] = {}
		self.facs: dict[int, tuple[str, Any]] = {}
		self.sym_legend: dict[str, str] = {}
		self.fac_legend: dict[str, str] = {}
		self.limit = 1 << 30
		self.anomalies: list[str] = []

	def cid(self, di: Any) -> int:
		for i, c in enumerate(self.conts):
			if c is di:
				return i + 1
		# constructed directly (not via instantiate/combine): an empty container
		self.conts.append(di)
		self.emit({'name': 'new', 'defs': {}, 'c': len(self.conts), 'res': 'ok'})
		return len(self.conts)

	def emit(self, ev: dict) -> None:
		if len(self.events) < self.limit:
			self.events.append(ev)

	def sym(self, symbol: Any) -> str:
		origin = getattr(symbol, '__origin__', symbol)
		if isinstance(origin, str):
			key = origin
		else:
			key = f'{origin.__module__}.{origin.__qualname__}'
		if key not in self.syms:
			self.syms[key] = key
			self.sym_legend[key] = key
		return self.syms[key]

	def fac(self, factory: Any) -> str:
		if isinstance(factory, str):
			from rogw.tranp.lang.module import load_module_path
			factory = load_module_path(factory)
		# a factory is identified the way the container identifies it for its signature memo: by full name;
		# distinct anonymous callables (lambdas) are told apart by identity
		key = id(factory)
		if key not in self.facs:
			full = f'{getattr(factory, "__module__", "?")}.{getattr(factory, "__qualname__", type(factory).__qualname__)}'
			same = sum(1 for name, _ in self.facs.values() if name.split('#')[0] == full)
			name = full if same == 0 else f'{full}#{same + 1}'
			self.facs[key] = (name, factory)
			self.fac_legend[name] = full
		return self.facs[key][0]

	def params_of(self, factory: Any) -> list[Any]:
		"""Annotated parameter types in order, independently of DI's own extraction (inspect based)"""
		if inspect.isclass(factory):
			target = factory.__init__
			skip = 1
		elif inspect.isfunction(factory) or inspect.ismethod(factory):
			target = factory
			skip = 0
		else:
			target = factory.__call__
			skip = 0
		try:
			sig = inspect.signature(target)
		except (TypeError, ValueError):
			return []
		params = list(sig.parameters.values())[skip:]
		if inspect.ismethod(target) and skip == 0:
			pass  # bound method: self already removed by inspect
		return [p.annotation for p in params if p.annotation is not inspect.Parameter.empty]


def recording_class(rec: Recorder):
	"""A LazyDI subclass whose public methods log one event per *client* call to `rec`, at return.

	Calls the container makes on itself (resolve -> invoke, rebind -> unbind/bind, lazy materialisation -> bind,
	invoke -> can_resolve/resolve) are part of the enclosing spec action and are not logged; they are recognised
	by the calling frame being rogw/tranp/lang/di.py. A client call made re-entrantly from inside a factory body
	is logged as its own event (it completes, hence is logged, before the enclosing one).
	"""
	from rogw.tranp.lang.di import LazyDI

	def internal() -> bool:
		return sys._getframe(2).f_code.co_filename.replace(os.sep, '/').endswith('rogw/tranp/lang/di.py')

	class RecordingLazyDI(LazyDI):
		@classmethod
		def instantiate(cls, definitions):
			di = super().instantiate(definitions)
			rec.conts.append(di)
			defs = {rec.sym(path): rec.fac(f) for path, f in definitions.items()}
			rec.emit({'name': 'new', 'defs': defs, 'c': len(rec.conts), 'res': 'ok'})
			return di

		def _top(self, name: str, fields: dict, call):
			cid = rec.cid(self)
			ev = {'name': name, 'c': cid, **fields}
			result = None
			try:
				result = call()
				ev['res'] = 'ok'
				return result
			except Exception as e:
				ev['res'] = type(e).__name__
				raise
			finally:
				if ev['res'] == 'ok' and name == 'resolve':
					rec.objs.append(result)
					ev['_oid'] = id(result)
				rec.emit(ev)

		def bind(self, symbol, injector):
			if internal():
				return LazyDI.bind(self, symbol, injector)
			return self._top('bind', {'s': rec.sym(symbol), 'f': rec.fac(injector)}, lambda: LazyDI.bind(self, symbol, injector))

		def unbind(self, symbol):
			if internal():
				return LazyDI.unbind(self, symbol)
			return self._top('unbind', {'s': rec.sym(symbol)}, lambda: LazyDI.unbind(self, symbol))

		def rebind(self, symbol, injector):
			if internal():
				return LazyDI.rebind(self, symbol, injector)
			return self._top('rebind', {'s': rec.sym(symbol), 'f': rec.fac(injector)}, lambda: LazyDI.rebind(self, symbol, injector))

		def resolve(self, symbol):
			if internal():
				return LazyDI.resolve(self, symbol)
			return self._top('resolve', {'s': rec.sym(symbol)}, lambda: LazyDI.resolve(self, symbol))

		def can_resolve(self, symbol):
			result = LazyDI.can_resolve(self, symbol)
			if not internal() and hasattr(getattr(symbol, '__origin__', symbol), '__qualname__'):
				rec.emit({'name': 'can', 'c': rec.cid(self), 's': rec.sym(symbol), 'ret': result, 'res': 'ok'})
			return result

		def invoke(self, factory, *remain_args):
			is_internal = internal()

			def call():
				result = LazyDI.invoke(self, factory, *remain_args)
				# an object handed out by two different factory calls cannot take part in identity comparison
				if id(result) in rec.produced:
					rec.shared.add(id(result))
				rec.produced.add(id(result))
				rec.objs.append(result)
				return result

			fname = rec.fac(factory)
			if is_internal:
				return call()
			return self._top('invoke', {'f': fname, 'extras_raw': list(remain_args)}, call)

		def combine(self, other):
			a, b = rec.cid(self), rec.cid(other)
			di = LazyDI.combine(self, other)
			rec.conts.append(di)
			rec.emit({'name': 'combine', 'a': a, 'b': b, 'c': len(rec.conts), 'res': 'ok'})
			return di

	return RecordingLazyDI


def finalize_trace(rec: Recorder) -> dict:
	"""Resolve the universe of one recorded execution: Sym, SymFacs, Params; rewrite invoke extras."""
	syms = set(rec.sym_legend)
	params: dict[str, list[str]] = {}
	ptypes: dict[str, list[Any]] = {}
	for _, (name, factory) in rec.facs.items():
		annos = rec.params_of(factory)
		names = []
		for i, anno in enumerate(annos):
			origin = getattr(anno, '__origin__', anno)
			key = f'{getattr(origin, "__module__", "?")}.{getattr(origin, "__qualname__", repr(origin))}'
			names.append(rec.syms[key] if key in rec.syms else f'p_{i}_{_ident(key)}')
		params[name] = names
		ptypes[name] = annos
	symfacs: dict[str, set[str]] = {s: set() for s in syms}
	invoke_fns: set[str] = set()
	events = []
	for ev in rec.events:
		ev = dict(ev)
		if ev['name'] == 'resolve':
			oid = ev.pop('_oid', None)
			# rid: first-sight number of the returned object; 0 = not comparable (error, or shared object)
			ev['rid'] = 0 if oid is None or oid in rec.shared else rec.oids.setdefault(oid, len(rec.oids) + 1)
		if ev['name'] in ('bind', 'rebind'):
			symfacs[ev['s']].add(ev['f'])
		elif ev['name'] == 'new':
			for s, f in ev['defs'].items():
				symfacs[s].add(f)
		elif ev['name'] == 'invoke':
			invoke_fns.add(ev['f'])
			raw = ev.pop('extras_raw')
			pnames, annos = params[ev['f']], ptypes[ev['f']]
			extras = []
			for i, arg in enumerate(raw):
				pos = len(pnames) - len(raw) + i
				expect = annos[pos] if 0 <= pos < len(annos) else None
				origin = getattr(expect, '__origin__', expect)
				ok = False
				try:
					ok = expect is not None and isinstance(arg, origin)
				except TypeError:
					ok = False
				extras.append(pnames[pos] if ok else f'bad_{_ident(type(arg).__name__)}')
			ev['extras'] = extras
		events.append(ev)
	return {'sym': sorted(syms), 'symfacs': {s: sorted(fs) for s, fs in symfacs.items()}, 'params': params, 'invoke_fns': sorted(invoke_fns), 'events': events, 'legend': {'sym': rec.sym_legend, 'fac': rec.fac_legend}}


def _ident(text: str) -> str:
	return ''.join(ch if ch.isalnum() else '_' for ch in text)


def _tla_str_set(items) -> str:
	return '{' + ', '.join(f'"{i}"' for i in sorted(items)) + '}'


def group_compatible(traces: list[dict]) -> list[list[dict]]:
	"""Greedy grouping of traces whose universes agree on every shared factory's parameter list."""
	groups: list[tuple[dict, list[dict]]] = []
	for tr in traces:
		for params, members in groups:
			if all(params.get(f, ps) == ps for f, ps in tr['params'].items()):
				params.update(tr['params'])
				members.append(tr)
				break
		else:
			groups.append((dict(tr['params']), [tr]))
	return [members for _, members in groups]


def write_trace_inputs(traces: list[dict], outdir: str) -> tuple[str, str]:
	"""Write TraceDIData.tla (union universe of all traces) and traces.json; returns (cfg path, json path)."""
	syms: set[str] = set()
	symfacs: dict[str, set[str]] = {}
	params: dict[str, list[str]] = {}
	invoke_fns: set[str] = set()
	for tr in traces:
		syms |= set(tr['sym'])
		for s, fs in tr['symfacs'].items():
			symfacs.setdefault(s, set()).update(fs)
		for f, ps in tr['params'].items():
			if f in params and params[f] != ps:
				raise ValueError(f'factory {f} has two parameter lists')
			params[f] = ps
		invoke_fns |= set(tr['invoke_fns'])
	lines = ['---- MODULE TraceDIData ----', 'EXTENDS TLC', f'TSym == {_tla_str_set(syms)}']
	sf = ' @@ '.join(f'("{s}" :> {_tla_str_set(symfacs.get(s, set()))})' for s in sorted(syms)) or '<<>>'
	lines.append(f'TSymFacs == {sf}')
	pf = ' @@ '.join(f'("{f}" :> <<{", ".join(chr(34) + p + chr(34) for p in ps)}>>)' for f, ps in sorted(params.items())) or '<<>>'
	lines.append(f'TParams == {pf}')
	lines.append(f'TInvokeFns == {_tla_str_set(invoke_fns)}')
	lines.append('====')
	with open(os.path.join(outdir, 'TraceDIData.tla'), 'w') as f:
		f.write('\n'.join(lines) + '\n')
	json_path = os.path.join(outdir, 'traces.json')
	with open(json_path, 'w') as f:
		json.dump([tr['events'] for tr in traces], f)
	cfg = textwrap.dedent('''
		CONSTANTS
		  MaxC = 100000
		  MaxOps = 100000
		  MaxInst = 1000000
		  CombineFixed = TRUE
		  InvokeFixed = TRUE
		  Sym <- TSym
		  SymFacs <- TSymFacs
		  InvokeFns <- TInvokeFns
		  Params <- TParams
		  Templates = {}
		  ExtraVals = {}
		INIT TInit
		NEXT TNext
		VIEW TView
		INVARIANT Mark
		INVARIANT Layered
		INVARIANT InstanceOfBinding
		PROPERTY TInstanceStable
		PROPERTY TOnlyValueError
		PROPERTY TCombineRightWins
		PROPERTY TOperandsUnaffected
		POSTCONDITION Post
		CHECK_DEADLOCK FALSE
	''')
	cfg_path = os.path.join(outdir, 'TraceDI.cfg')
	with open(cfg_path, 'w') as f:
		f.write(cfg)
	return cfg_path, json_path
