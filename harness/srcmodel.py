"""Harness side of the source model (spec/PySrc.tla): loads the cases TLC enumerates, wraps them into programs,
maps tranp's node tree / CPython's ast / the model's ast onto one canonical vocabulary, pairs model nodes with
tranp nodes."""
import ast
import json
import os
from typing import Any, Iterator

from harness import compat  # noqa: F401
from harness import tlc
from harness.core import Machinery

PARAMS = 'a: int, b: int, c: int, d: int, p: bool, q: bool, r: bool, s: bool'
RETURN_PREFIX = '\treturn '


def load_cases(nops: int, timeout: int = 900) -> tuple[list[dict], list[dict]]:
	res = tlc.run('PySrcEmit', f'PySrc_{nops}.cfg', workers=1, timeout=timeout, heap='8g')
	if res.rc != 0:
		raise Machinery(f'PySrc: a model-level fact fails or evaluation error: {res.out[-800:]}')
	cases = [json.loads(line) for line in res.lines('CASE ')]
	envs = [json.loads(line) for line in res.lines('ENVS ')]
	if not cases or not envs:
		raise Machinery('PySrc: no cases emitted')
	return cases, envs[0]


def program_of(cases: list[dict], first_index: int = 0) -> str:
	"""One module with one entry function per case: def f<i>(params) -> type: return <text>"""
	parts = []
	for i, case in enumerate(cases):
		parts.append(f'def f{first_index + i}({PARAMS}) -> {case["type"]}:\n{RETURN_PREFIX}{case["text"]}\n')
	return '\n'.join(parts)


# -- canonical vocabulary ---------------------------------------------------------------------------------------

def canon_model(n: dict) -> tuple:
	k = n['k']
	if k == 'var':
		return ('var', n['name'])
	if k == 'int':
		return ('int', n['v'])
	if k in ('bin', 'cmp', 'bool'):
		return (k, n['op'], canon_model(n['l']), canon_model(n['r']))
	if k == 'un':
		return ('un', n['op'], canon_model(n['e1']))
	if k == 'not':
		return ('not', canon_model(n['e1']))
	if k == 'tern':
		return ('tern', canon_model(n['c']), canon_model(n['a']), canon_model(n['b1']))
	raise Machinery(f'unknown model node {k}')


_BIN = {ast.Add: '+', ast.Sub: '-', ast.Mult: '*', ast.Mod: '%', ast.BitOr: '|', ast.BitXor: '^', ast.BitAnd: '&', ast.LShift: '<<', ast.RShift: '>>', ast.Div: '/', ast.FloorDiv: '//', ast.Pow: '**'}
_CMP = {ast.Eq: '==', ast.NotEq: '!=', ast.Lt: '<', ast.Gt: '>', ast.LtE: '<=', ast.GtE: '>=', ast.In: 'in', ast.NotIn: 'not in', ast.Is: 'is', ast.IsNot: 'is not'}
_UN = {ast.USub: '-', ast.UAdd: '+', ast.Invert: '~'}


def canon_cpython(n: ast.AST) -> tuple:
	if isinstance(n, ast.Expression):
		return canon_cpython(n.body)
	if isinstance(n, ast.Name):
		return ('var', n.id)
	if isinstance(n, ast.Constant):
		if isinstance(n.value, bool):
			return ('const', n.value)
		if isinstance(n.value, int):
			return ('int', n.value)
		if isinstance(n.value, float):
			return ('float', repr(n.value))
		if isinstance(n.value, str):
			return ('str', n.value)
		return ('const', n.value)
	if isinstance(n, ast.BinOp):
		return ('bin', _BIN[type(n.op)], canon_cpython(n.left), canon_cpython(n.right))
	if isinstance(n, ast.UnaryOp):
		if isinstance(n.op, ast.Not):
			return ('not', canon_cpython(n.operand))
		return ('un', _UN[type(n.op)], canon_cpython(n.operand))
	if isinstance(n, ast.BoolOp):
		op = 'and' if isinstance(n.op, ast.And) else 'or'
		res = canon_cpython(n.values[0])
		for v in n.values[1:]:
			res = ('bool', op, res, canon_cpython(v))
		return res
	if isinstance(n, ast.Compare):
		if len(n.ops) != 1:
			return ('chain', [_CMP[type(o)] for o in n.ops], [canon_cpython(x) for x in [n.left, *n.comparators]])
		return ('cmp', _CMP[type(n.ops[0])], canon_cpython(n.left), canon_cpython(n.comparators[0]))
	if isinstance(n, ast.IfExp):
		return ('tern', canon_cpython(n.test), canon_cpython(n.body), canon_cpython(n.orelse))
	raise Machinery(f'canon_cpython: unsupported {type(n).__name__}')


def canon_tranp(node: Any) -> tuple:
	"""tranp node tree -> canonical vocabulary. Flat operator chains are folded to the left (Python's associativity)."""
	import rogw.tranp.syntax.node.definition as defs
	name = type(node).__name__
	if isinstance(node, defs.Group):
		return canon_tranp(node.expression)
	if isinstance(node, (defs.Var, defs.Declable)):
		return ('var', node.tokens)
	if isinstance(node, defs.Integer):
		return ('int', int(node.tokens))
	if isinstance(node, defs.Float):
		return ('float', repr(float(node.tokens)))
	if isinstance(node, defs.Truthy):
		return ('const', True)
	if isinstance(node, defs.Falsy):
		return ('const', False)
	if isinstance(node, defs.String):
		return ('str', ast.literal_eval(node.tokens))
	if isinstance(node, defs.NotCompare):
		return ('not', canon_tranp(node.value))
	if isinstance(node, defs.Factor):
		return ('un', node.operator.tokens, canon_tranp(node.value))
	if isinstance(node, defs.TernaryOperator):
		return ('tern', canon_tranp(node.condition), canon_tranp(node.primary), canon_tranp(node.secondary))
	if isinstance(node, defs.BinaryOperator):
		kind = 'bool' if isinstance(node, (defs.OrCompare, defs.AndCompare)) else 'cmp' if isinstance(node, defs.Comparison) else 'bin'
		elems = node.elements
		if len(elems) % 2 == 0:
			return ('malformed', name, len(elems))
		if kind == 'cmp' and len(elems) > 3:
			return ('chain', [e.tokens for e in elems[1::2]], [canon_tranp(e) for e in elems[0::2]])
		res = canon_tranp(elems[0])
		for i in range(1, len(elems), 2):
			res = (kind, elems[i].tokens.replace('.', ' '), res, canon_tranp(elems[i + 1]))
		return res
	return ('other', name, node.tokens)


# -- pairing model nodes with tranp nodes ---------------------------------------------------------------------------

def pairs(model: dict, node: Any) -> Iterator[tuple[dict, Any]]:
	"""Walk model ast and tranp node in parallel (call only when the canonical forms are equal).
	For a flat chain of one precedence level tranp has ONE node for the whole chain: it is paired with the outermost
	model node of the chain; inner left-nested model nodes of the same chain have no node of their own."""
	import rogw.tranp.syntax.node.definition as defs
	while isinstance(node, defs.Group):
		node = node.expression
	yield model, node
	k = model['k']
	if k in ('un', 'not'):
		yield from pairs(model['e1'], node.value)
	elif k == 'tern':
		yield from pairs(model['a'], node.primary)
		yield from pairs(model['c'], node.condition)
		yield from pairs(model['b1'], node.secondary)
	elif k in ('bin', 'cmp', 'bool'):
		elems = node.elements
		operands = elems[0::2]
		# unfold the left-nested model chain to the same number of operands
		chain = [model]
		while len(chain) < len(operands) - 1:
			chain.append(chain[-1]['l'])
		model_operands = [chain[-1]['l']] + [m['r'] for m in reversed(chain)]
		for m, o in zip(model_operands, operands):
			yield from pairs(m, o)


def function_nodes(entrypoint: Any) -> list[Any]:
	import rogw.tranp.syntax.node.definition as defs
	return [st for st in entrypoint.statements if isinstance(st, defs.Function)]


# -- statements -------------------------------------------------------------------------------------------------------

def load_stmt_cases(timeout: int = 600) -> tuple[list[dict], list[dict]]:
	res = tlc.run('PyStmtEmit', 'PyStmt.cfg', workers=1, timeout=timeout)
	if res.rc != 0:
		raise Machinery(f'PyStmt: evaluation error: {res.out[-800:]}')
	stmts = [json.loads(line) for line in res.lines('STMT ')]
	defs_ = [json.loads(line) for line in res.lines('DEF ')]
	global SLOT_CASES
	SLOT_CASES = [json.loads(line) for line in res.lines('SLOT ')]
	if not stmts or not defs_:
		raise Machinery('PyStmt: no cases emitted')
	return stmts, defs_


SLOT_CASES: list[dict] = []


def _expr(text: str) -> tuple:
	return canon_cpython_ext(ast.parse(text, mode='eval').body)


def canon_cpython_ext(n: ast.AST) -> tuple:
	if isinstance(n, ast.Call):
		return ('call', canon_cpython_ext(n.func), [canon_cpython_ext(a) for a in n.args])
	if isinstance(n, ast.Attribute):
		return ('attr', canon_cpython_ext(n.value), n.attr)
	if isinstance(n, (ast.BinOp, ast.UnaryOp, ast.BoolOp, ast.Compare, ast.IfExp)):
		# re-use the expression canon with extended leaves
		return _canon_cpython_with(n)
	return canon_cpython(n)


def _canon_cpython_with(n: ast.AST) -> tuple:
	if isinstance(n, ast.BinOp):
		return ('bin', _BIN[type(n.op)], canon_cpython_ext(n.left), canon_cpython_ext(n.right))
	if isinstance(n, ast.UnaryOp):
		return ('not', canon_cpython_ext(n.operand)) if isinstance(n.op, ast.Not) else ('un', _UN[type(n.op)], canon_cpython_ext(n.operand))
	if isinstance(n, ast.BoolOp):
		op = 'and' if isinstance(n.op, ast.And) else 'or'
		res = canon_cpython_ext(n.values[0])
		for v in n.values[1:]:
			res = ('bool', op, res, canon_cpython_ext(v))
		return res
	if isinstance(n, ast.Compare) and len(n.ops) == 1:
		return ('cmp', _CMP[type(n.ops[0])], canon_cpython_ext(n.left), canon_cpython_ext(n.comparators[0]))
	if isinstance(n, ast.IfExp):
		return ('tern', canon_cpython_ext(n.test), canon_cpython_ext(n.body), canon_cpython_ext(n.orelse))
	return canon_cpython(n)


def canon_tranp_ext(node: Any) -> tuple:
	import rogw.tranp.syntax.node.definition as defs
	if isinstance(node, defs.FuncCall):
		return ('call', canon_tranp_ext(node.calls), [canon_tranp_ext(a.value) for a in node.arguments])
	if isinstance(node, defs.Relay):
		return ('attr', canon_tranp_ext(node.receiver), node.prop.tokens)
	if isinstance(node, defs.Group):
		return canon_tranp_ext(node.expression)
	if isinstance(node, defs.NotCompare):
		return ('not', canon_tranp_ext(node.value))
	if isinstance(node, defs.Factor):
		return ('un', node.operator.tokens, canon_tranp_ext(node.value))
	if isinstance(node, defs.TernaryOperator):
		return ('tern', canon_tranp_ext(node.condition), canon_tranp_ext(node.primary), canon_tranp_ext(node.secondary))
	if isinstance(node, defs.BinaryOperator):
		kind = 'bool' if isinstance(node, (defs.OrCompare, defs.AndCompare)) else 'cmp' if isinstance(node, defs.Comparison) else 'bin'
		elems = node.elements
		if len(elems) % 2 == 0 or (kind == 'cmp' and len(elems) > 3):
			return canon_tranp(node)
		res = canon_tranp_ext(elems[0])
		for i in range(1, len(elems), 2):
			res = (kind, elems[i].tokens.replace('.', ' '), res, canon_tranp_ext(elems[i + 1]))
		return res
	return canon_tranp(node)


def canon_model_stmt(c: dict) -> tuple:
	k = c['k']
	if k in ('assign', 'aug', 'ret', 'break', 'continue', 'raise'):
		return canon_cpython_stmt(ast.parse(c['text']).body[0]) if k not in ('break', 'continue') else (k,)
	if k == 'if':
		return ('if', _expr(c['cond']), [canon_model_stmt(s) for s in c['body']], [canon_model_stmt(s) for s in c['orelse']])
	if k == 'while':
		return ('while', _expr(c['cond']), [canon_model_stmt(s) for s in c['body']])
	if k == 'for':
		return ('for', c['target'], _expr(c['iter']), [canon_model_stmt(s) for s in c['body']])
	if k == 'try':
		return ('try', [canon_model_stmt(s) for s in c['body']], c['etype'], c['ename'], [canon_model_stmt(s) for s in c['handler']])
	raise Machinery(f'unknown model statement {k}')


def canon_cpython_stmt(n: ast.stmt) -> tuple:
	if isinstance(n, ast.Assign):
		return ('assign', canon_cpython_ext(n.targets[0]), canon_cpython_ext(n.value))
	if isinstance(n, ast.AugAssign):
		return ('aug', _BIN[type(n.op)] + '=', canon_cpython_ext(n.target), canon_cpython_ext(n.value))
	if isinstance(n, ast.Return):
		return ('ret', canon_cpython_ext(n.value) if n.value else None)
	if isinstance(n, ast.Break):
		return ('break',)
	if isinstance(n, ast.Continue):
		return ('continue',)
	if isinstance(n, ast.Raise):
		return ('raise', canon_cpython_ext(n.exc))
	if isinstance(n, ast.If):
		return ('if', canon_cpython_ext(n.test), [canon_cpython_stmt(s) for s in n.body], [canon_cpython_stmt(s) for s in n.orelse])
	if isinstance(n, ast.While):
		return ('while', canon_cpython_ext(n.test), [canon_cpython_stmt(s) for s in n.body])
	if isinstance(n, ast.For):
		return ('for', n.target.id, canon_cpython_ext(n.iter), [canon_cpython_stmt(s) for s in n.body])
	if isinstance(n, ast.Try):
		h = n.handlers[0]
		return ('try', [canon_cpython_stmt(s) for s in n.body], h.type.id, h.name, [canon_cpython_stmt(s) for s in h.body])
	raise Machinery(f'canon_cpython_stmt: unsupported {type(n).__name__}')


def canon_tranp_stmt(node: Any) -> tuple:
	import rogw.tranp.syntax.node.definition as defs
	block = lambda stmts: [canon_tranp_stmt(s) for s in stmts]
	if isinstance(node, defs.MoveAssign):
		return ('assign', canon_tranp_ext(_as_ref(node.receivers[0])), canon_tranp_ext(node.value))
	if isinstance(node, defs.AugAssign):
		return ('aug', node.operator.tokens, canon_tranp_ext(_as_ref(node.receiver)), canon_tranp_ext(node.value))
	if isinstance(node, defs.Return):
		return ('ret', None if isinstance(node.return_value, defs.Empty) else canon_tranp_ext(node.return_value))
	if isinstance(node, defs.Break):
		return ('break',)
	if isinstance(node, defs.Continue):
		return ('continue',)
	if isinstance(node, defs.Throw):
		return ('raise', canon_tranp_ext(node.throws))
	if isinstance(node, defs.If):
		orelse = [] if isinstance(node.else_clause, defs.Empty) else block(node.else_clause.statements)
		for ei in reversed(node.else_ifs):
			orelse = [('if', canon_tranp_ext(ei.condition), block(ei.statements), orelse)]
		return ('if', canon_tranp_ext(node.condition), block(node.statements), orelse)
	if isinstance(node, defs.While):
		return ('while', canon_tranp_ext(node.condition), block(node.statements))
	if isinstance(node, defs.For):
		return ('for', node.symbols[0].tokens, canon_tranp_ext(node.iterates), block(node.statements))
	if isinstance(node, defs.Try):
		c = node.catches[0]
		return ('try', block(node.statements), c.var_type.tokens, c.symbol.tokens, block(c.statements))
	return ('other', type(node).__name__, node.tokens)


def _as_ref(node: Any) -> Any:
	return node


def _var_canon(node: Any) -> tuple:
	return ('var', node.tokens)
