"""Harness side of the source model (spec/PySrc.tla): loads the cases TLC enumerates, wraps them into programs,
maps tranp's node tree / CPython's ast / the model's ast onto one canonical vocabulary, pairs model nodes with
tranp nodes."""
import ast
import json
import os
from typing import Any, Iterator

from harness import compat  # noqa: F401
from harness import tlc
from harness.core import Machinery

PARAMS = 'a: int, b: int, c: int, d: int, p: bool, q: bool, r: bool, s: bool'
RETURN_PREFIX = '\treturn '


def load_cases(nops: int, timeout: int = 900) -> tuple[list[dict], list[dict]]:
	res = tlc.run('PySrcEmit', f'PySrc_{nops}.cfg', workers=1, timeout=timeout, heap='8g')
	if res.rc != 0:
		raise Machinery(f'PySrc: a model-level fact fails or evaluation error: {res.out[-800:]}')
	cases = [json.loads(line) for line in res.lines('CASE ')]
	envs = [json.loads(line) for line in res.lines('ENVS ')]
	if not cases or not envs:
		raise Machinery('PySrc: no cases emitted')
	return cases, envs[0]


def program_of(cases: list[dict], first_index: int = 0) -> str:
	"""One module with one entry function per case: def f<i>(params) -> type: return <text>"""
	parts = []
	for i, case in enumerate(cases):
		parts.append(f'def f{first_index + i}({PARAMS}) -> {case["type"]}:\n{RETURN_PREFIX}{case["text"]}\n')
	return '\n'.join(parts)


# -- canonical vocabulary ---------------------------------------------------------------------------------------

def canon_model(n: dict) -> tuple:
	k = n['k']
	if k == 'var':
		return ('var', n['name'])
	if k == 'int':
		return ('int', n['v'])
	if k in ('bin', 'cmp', 'bool'):
		return (k, n['op'], canon_model(n['l']), canon_model(n['r']))
	if k == 'un':
		return ('un', n['op'], canon_model(n['e1']))
	if k == 'not':
		return ('not', canon_model(n['e1']))
	if k == 'tern':
		return ('tern', canon_model(n['c']), canon_model(n['a']), canon_model(n['b1']))
	raise Machinery(f'unknown model node {k}')


_BIN = {ast.Add: '+', ast.Sub: '-', ast.Mult: '*', ast.Mod: '%', ast.BitOr: '|', ast.BitXor: '^', ast.BitAnd: '&', ast.LShift: '<<', ast.RShift: '>>', ast.Div: '/', ast.FloorDiv: '//', ast.Pow: '**'}
_CMP = {ast.Eq: '==', ast.NotEq: '!=', ast.Lt: '<', ast.Gt: '>', ast.LtE: '<=', ast.GtE: '>=', ast.In: 'in', ast.NotIn: 'not in', ast.Is: 'is', ast.IsNot: 'is not'}
_UN = {ast.USub: '-', ast.UAdd: '+', ast.Invert: '~'}


def canon_cpython(n: ast.AST) -> tuple:
	if isinstance(n, ast.Expression):
		return canon_cpython(n.body)
	if isinstance(n, ast.Name):
		return ('var', n.id)
	if isinstance(n, ast.Constant):
		if isinstance(n.value, bool):
			return ('const', n.value)
		if isinstance(n.value, int):
			return ('int', n.value)
		if isinstance(n.value, float):
			return ('float', repr(n.value))
		if isinstance(n.value, str):
			return ('str', n.value)
		return ('const', n.value)
	if isinstance(n, ast.BinOp):
		return ('bin', _BIN[type(n.op)], canon_cpython(n.left), canon_cpython(n.right))
	if isinstance(n, ast.UnaryOp):
		if isinstance(n.op, ast.Not):
			return ('not', canon_cpython(n.operand))
		return ('un', _UN[type(n.op)], canon_cpython(n.operand))
	if isinstance(n, ast.BoolOp):
		op = 'and' if isinstance(n.op, ast.And) else 'or'
		res = canon_cpython(n.values[0])
		for v in n.values[1:]:
			res = ('bool', op, res, canon_cpython(v))
		return res
	if isinstance(n, ast.Compare):
		if len(n.ops) != 1:
			return ('chain', [_CMP[type(o)] for o in n.ops], [canon_cpython(x) for x in [n.left, *n.comparators]])
		return ('cmp', _CMP[type(n.ops[0])], canon_cpython(n.left), canon_cpython(n.comparators[0]))
	if isinstance(n, ast.IfExp):
		return ('tern', canon_cpython(n.test), canon_cpython(n.body), canon_cpython(n.orelse))
	raise Machinery(f'canon_cpython: unsupported {type(n).__name__}')


def canon_tranp(node: Any) -> tuple:
	"""tranp node tree -> canonical vocabulary. Flat operator chains are folded to the left (Python's associativity)."""
	import rogw.tranp.syntax.node.definition as defs
	name = type(node).__name__
	if isinstance(node, defs.Group):
		return canon_tranp(node.expression)
	if isinstance(node, defs.Var):
		return ('var', node.tokens)
	if isinstance(node, defs.Integer):
		return ('int', int(node.tokens))
	if isinstance(node, defs.Float):
		return ('float', repr(float(node.tokens)))
	if isinstance(node, defs.Truthy):
		return ('const', True)
	if isinstance(node, defs.Falsy):
		return ('const', False)
	if isinstance(node, defs.String):
		return ('str', ast.literal_eval(node.tokens))
	if isinstance(node, defs.NotCompare):
		return ('not', canon_tranp(node.value))
	if isinstance(node, defs.Factor):
		return ('un', node.operator.tokens, canon_tranp(node.value))
	if isinstance(node, defs.TernaryOperator):
		return ('tern', canon_tranp(node.condition), canon_tranp(node.primary), canon_tranp(node.secondary))
	if isinstance(node, defs.BinaryOperator):
		kind = 'bool' if isinstance(node, (defs.OrCompare, defs.AndCompare)) else 'cmp' if isinstance(node, defs.Comparison) else 'bin'
		elems = node.elements
		if len(elems) % 2 == 0:
			return ('malformed', name, len(elems))
		if kind == 'cmp' and len(elems) > 3:
			return ('chain', [e.tokens for e in elems[1::2]], [canon_tranp(e) for e in elems[0::2]])
		res = canon_tranp(elems[0])
		for i in range(1, len(elems), 2):
			res = (kind, elems[i].tokens.replace('.', ' '), res, canon_tranp(elems[i + 1]))
		return res
	return ('other', name, node.tokens)


# -- pairing model nodes with tranp nodes ---------------------------------------------------------------------------

def pairs(model: dict, node: Any) -> Iterator[tuple[dict, Any]]:
	"""Walk model ast and tranp node in parallel (call only when the canonical forms are equal).
	For a flat chain of one precedence level tranp has ONE node for the whole chain: it is paired with the outermost
	model node of the chain; inner left-nested model nodes of the same chain have no node of their own."""
	import rogw.tranp.syntax.node.definition as defs
	while isinstance(node, defs.Group):
		node = node.expression
	yield model, node
	k = model['k']
	if k in ('un', 'not'):
		yield from pairs(model['e1'], node.value)
	elif k == 'tern':
		yield from pairs(model['a'], node.primary)
		yield from pairs(model['c'], node.condition)
		yield from pairs(model['b1'], node.secondary)
	elif k in ('bin', 'cmp', 'bool'):
		elems = node.elements
		operands = elems[0::2]
		# unfold the left-nested model chain to the same number of operands
		chain = [model]
		while len(chain) < len(operands) - 1:
			chain.append(chain[-1]['l'])
		model_operands = [chain[-1]['l']] + [m['r'] for m in reversed(chain)]
		for m, o in zip(model_operands, operands):
			yield from pairs(m, o)


def function_nodes(entrypoint: Any) -> list[Any]:
	import rogw.tranp.syntax.node.definition as defs
	return [st for st in entrypoint.statements if isinstance(st, defs.Function)]
